//! Generates `$OUT_DIR/sites.rs`: the *call sites* of the blueprint builder API.
//!
//! Every call into the builder API under test sits on its own source line, next to a
//! `rec.at(file!(), line!(), <col>)` that records where the call is. `<col>` is computed here from
//! the text of the generated line (column of the method name for method calls, column of the path
//! for `Blueprint::new()`), and that convention is calibrated at run time against rustc's own
//! `#[track_caller]` (see `calibrate`).
//!
//! There is one bank of call sites per (nesting depth, position-in-sequence mod 4), so that two
//! neighbouring calls of the same kind, and calls at different nesting depths, never share a
//! source location.
use std::fmt::Write as _;

const DEPTHS: usize = 3; // 0 = root, 1, 2
const SLOTS: usize = 4;

/// One line `rec.at(file!(), line!(), COL); CODE` where COL is the 1-based column of `needle`
/// (+ `skip` bytes) inside that very line.
fn site(indent: &str, needle: &str, skip: usize, code: &str) -> String {
    let head = format!("{indent}rec.at(file!(), line!(), ");
    let tail = "); ";
    let idx = code
        .find(needle)
        .unwrap_or_else(|| panic!("needle {needle} not in {code}"));
    assert!(
        code[idx + 1..].find(needle).is_none(),
        "needle {needle} is ambiguous in {code}"
    );
    let col = head.len() + 4 + tail.len() + idx + skip + 1;
    format!("{head}{col:>4}{tail}{code}")
}

/// A method call `recv.method(args)`; the caller location rustc reports is the method name.
fn m(indent: &str, method: &str, code: &str) -> String {
    site(indent, &format!(".{method}("), 1, code)
}

fn arm(pat: &str, method: &str, code: &str) -> String {
    // The "indent" is everything that precedes `rec.at(...)` on the line.
    format!("{} }}\n", m(&format!("        {pat} => {{ "), method, code))
}

fn gen_start(out: &mut String, d: usize, s: usize) {
    writeln!(out, "#[rustfmt::skip]\npub fn start_{d}_{s}<'a>(bp: &'a mut Blueprint, c: &Call, rec: &mut Rec) -> Cursor<'a> {{\n    match c {{").unwrap();
    let arms: &[(&str, &str, &str)] = &[
        ("Call::Route(i)", "route", "Cursor::Route(bp.route(route_c(*i)))"),
        ("Call::Ctor(i)", "constructor", "Cursor::Ctor(bp.constructor(ctor_c(*i)))"),
        ("Call::Wrap", "wrap", "Cursor::Wrap(bp.wrap(WRAP_A))"),
        ("Call::Pre", "pre_process", "Cursor::Pre(bp.pre_process(PRE_A))"),
        ("Call::Post", "post_process", "Cursor::Post(bp.post_process(POST_A))"),
        ("Call::Observer", "error_observer", "bp.error_observer(OBS_A); Cursor::None"),
        ("Call::ErrHandler(i)", "error_handler", "bp.error_handler(eh_c(*i)); Cursor::None"),
        ("Call::Prebuilt(i)", "prebuilt", "Cursor::Prebuilt(bp.prebuilt(prebuilt_c(*i)))"),
        ("Call::Config(i)", "config", "Cursor::Config(bp.config(config_c(*i)))"),
        ("Call::Fallback", "fallback", "Cursor::Fallback(bp.fallback(FALLBACK_A))"),
        ("Call::Import(0)", "import", "bp.import(from![*]); Cursor::None"),
        ("Call::Import(1)", "import", "bp.import(from![crate::components, super::sibling, pavex]); Cursor::None"),
        ("Call::Routes(0)", "routes", "bp.routes(from![crate::components]); Cursor::None"),
        ("Call::Routes(1)", "routes", "bp.routes(from![*]); Cursor::None"),
        ("Call::BpPrefix(i)", "prefix", "Cursor::Mods(bp.prefix(PREFIXES[*i as usize]))"),
        ("Call::BpDomain(i)", "domain", "Cursor::Mods(bp.domain(DOMAINS[*i as usize]))"),
    ];
    for (pat, method, code) in arms {
        out.push_str(&arm(pat, method, code));
    }
    if d + 1 < DEPTHS {
        writeln!(out, "        Call::BpNest(sub) => {{").unwrap();
        writeln!(out, "{}", site("            ", "Blueprint::new(", 0, "let mut nb = Blueprint::new();")).unwrap();
        writeln!(out, "            run_{}(&mut nb, sub, rec);", d + 1).unwrap();
        writeln!(out, "{}", m("            ", "nest", "bp.nest(nb);")).unwrap();
        writeln!(out, "            Cursor::None\n        }}").unwrap();
    }
    writeln!(out, "        other => bad_call(\"start_{d}_{s}\", other),\n    }}\n}}\n").unwrap();
}

fn gen_step(out: &mut String, d: usize, s: usize) {
    writeln!(out, "#[rustfmt::skip]\npub fn step_{d}_{s}<'a>(cur: Cursor<'a>, c: &Call, rec: &mut Rec) -> Cursor<'a> {{\n    match (cur, c) {{").unwrap();
    let mut arms: Vec<(String, &str, String)> = Vec::new();
    for v in ["Route", "Fallback", "Wrap", "Pre", "Post", "Ctor"] {
        arms.push((
            format!("(Cursor::{v}(r), Call::Eh(i))"),
            "error_handler",
            format!("Cursor::{v}(r.error_handler(eh_c(*i)))"),
        ));
    }
    arms.push(("(Cursor::Ctor(r), Call::Lifecycle(i))".into(), "lifecycle", "Cursor::Ctor(r.lifecycle(lifecycle_c(*i)))".into()));
    for (setting, method) in [(0, "allow"), (1, "warn"), (2, "deny")] {
        arms.push((
            format!("(Cursor::Ctor(r), Call::Lint({setting}, l))"),
            method,
            format!("Cursor::Ctor(r.{method}(lint_c(*l)))"),
        ));
    }
    for v in ["Ctor", "Prebuilt", "Config"] {
        arms.push((format!("(Cursor::{v}(r), Call::CloneIfNecessary)"), "clone_if_necessary", format!("Cursor::{v}(r.clone_if_necessary())")));
        arms.push((format!("(Cursor::{v}(r), Call::NeverClone)"), "never_clone", format!("Cursor::{v}(r.never_clone())")));
        arms.push((format!("(Cursor::{v}(r), Call::Cloning(i))"), "cloning", format!("Cursor::{v}(r.cloning(cloning_c(*i)))")));
    }
    arms.push(("(Cursor::Config(r), Call::DefaultIfMissing)".into(), "default_if_missing", "Cursor::Config(r.default_if_missing())".into()));
    arms.push(("(Cursor::Config(r), Call::Required)".into(), "required", "Cursor::Config(r.required())".into()));
    arms.push(("(Cursor::Config(r), Call::IncludeIfUnused)".into(), "include_if_unused", "Cursor::Config(r.include_if_unused())".into()));
    arms.push(("(Cursor::Mods(r), Call::ModPrefix(i))".into(), "prefix", "Cursor::Mods(r.prefix(PREFIXES[*i as usize]))".into()));
    arms.push(("(Cursor::Mods(r), Call::ModDomain(i))".into(), "domain", "Cursor::Mods(r.domain(DOMAINS[*i as usize]))".into()));
    arms.push(("(Cursor::Mods(r), Call::ModRoutes(0))".into(), "routes", "r.routes(from![crate::components]); Cursor::None".into()));
    arms.push(("(Cursor::Mods(r), Call::ModRoutes(1))".into(), "routes", "r.routes(from![*]); Cursor::None".into()));
    for (pat, method, code) in &arms {
        out.push_str(&arm(pat, method, code));
    }
    if d + 1 < DEPTHS {
        writeln!(out, "        (Cursor::Mods(r), Call::ModNest(sub)) => {{").unwrap();
        writeln!(out, "{}", site("            ", "Blueprint::new(", 0, "let mut nb = Blueprint::new();")).unwrap();
        writeln!(out, "            run_{}(&mut nb, sub, rec);", d + 1).unwrap();
        writeln!(out, "{}", m("            ", "nest", "r.nest(nb);")).unwrap();
        writeln!(out, "            Cursor::None\n        }}").unwrap();
    }
    writeln!(out, "        (_, other) => bad_call(\"step_{d}_{s}\", other),\n    }}\n}}\n").unwrap();
}

fn gen_run(out: &mut String, d: usize) {
    writeln!(out, "pub fn run_{d}(bp: &mut Blueprint, calls: &[Call], rec: &mut Rec) {{").unwrap();
    writeln!(out, "    let mut i = 0;\n    while i < calls.len() {{").unwrap();
    writeln!(out, "        let mut cur = match i % {SLOTS} {{").unwrap();
    for s in 0..SLOTS {
        let pat = if s + 1 == SLOTS { "_".to_string() } else { s.to_string() };
        writeln!(out, "            {pat} => start_{d}_{s}(bp, &calls[i], rec),").unwrap();
    }
    writeln!(out, "        }};\n        i += 1;").unwrap();
    writeln!(out, "        while i < calls.len() && calls[i].is_chained() {{").unwrap();
    writeln!(out, "            cur = match i % {SLOTS} {{").unwrap();
    for s in 0..SLOTS {
        let pat = if s + 1 == SLOTS { "_".to_string() } else { s.to_string() };
        writeln!(out, "                {pat} => step_{d}_{s}(cur, &calls[i], rec),").unwrap();
    }
    writeln!(out, "            }};\n            i += 1;\n        }}\n        drop(cur);\n    }}\n}}\n").unwrap();
}

fn main() {
    println!("cargo:rerun-if-changed=build.rs");
    println!("cargo:rerun-if-changed=Cargo.toml");

    // --- /repo root, taken from our own manifest (follows the mutant `sed`).
    let manifest = std::fs::read_to_string("Cargo.toml").expect("own Cargo.toml");
    let marker = "/compiler/pavexc_annotations\"";
    let line = manifest
        .lines()
        .find(|l| l.starts_with("pavexc_annotations") && l.contains(marker))
        .expect("pavexc_annotations path dependency in Cargo.toml");
    let start = line.find("path = \"").expect("path key") + "path = \"".len();
    let end = line.find(marker).unwrap();
    let repo_root = &line[start..end];
    println!("cargo:rustc-env=RT_BP_REPO_ROOT={repo_root}");

    // --- call sites
    let mut out = String::new();
    out.push_str("// @generated by rt_bp/build.rs — do not edit.\n");
    out.push_str("pub const MODULE_PATH: &str = module_path!();\n\n");
    // Root blueprint.
    out.push_str("#[rustfmt::skip]\npub fn build_root(calls: &[Call], rec: &mut Rec) -> Blueprint {\n");
    writeln!(out, "{}", site("    ", "Blueprint::new(", 0, "let mut bp = Blueprint::new();")).unwrap();
    out.push_str("    run_0(&mut bp, calls, rec);\n    bp\n}\n\n");
    // Calibration probes: same line layout, rustc's own #[track_caller] as the judge.
    out.push_str("#[rustfmt::skip]\npub fn calibrate(rec: &mut Rec) -> Vec<pavex_bp_schema::Location> {\n    let mut seen = Vec::new();\n");
    writeln!(out, "{}", site("    ", "Probe::new_probe(", 0, "let p = Probe::new_probe(&mut seen);")).unwrap();
    writeln!(out, "{}", m("    ", "method_probe", "let p = p.method_probe(&mut seen);")).unwrap();
    writeln!(out, "{}", m("    ", "chained_probe", "let p = p.quiet().chained_probe(&mut seen);")).unwrap();
    writeln!(out, "{}", m("    ", "wrapped_probe", "let _p = Some(p.wrapped_probe(&mut seen));")).unwrap();
    out.push_str("    seen\n}\n\n");
    for d in 0..DEPTHS {
        gen_run(&mut out, d);
        for s in 0..SLOTS {
            gen_start(&mut out, d, s);
            gen_step(&mut out, d, s);
        }
    }
    let dest = std::path::Path::new(&std::env::var("OUT_DIR").unwrap()).join("sites.rs");
    std::fs::write(dest, out).unwrap();
}
