//! `rt_bp` — verification engine for property C19 ("what you register is what the compiler sees").
//!
//! Part A (`part_a`): exhaustive enumeration of blueprint-builder call trees, executed against the
//! real `pavex::Blueprint` API, persisted with `Blueprint::persist`, read back with `ron` exactly
//! as `pavexc_cli` does, compared with a reference model (`model::reference`).
//! Part B (`part_b`): a generated crate with one annotated item per legal combination of attribute
//! arguments, documented with the docs toolchain; each item's `attrs` from the rustdoc JSON go
//! through the real attribute parser and are compared with what the attribute said.
pub mod components;
pub mod model;
pub mod part_a;
pub mod part_b;
pub mod sites;
