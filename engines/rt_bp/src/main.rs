use rt_bp::{model, part_a, part_b};
use serde_json::json;

fn main() {
    let args = verif_common::Args::parse();
    if args.property != "C19" {
        verif_common::machinery_error(&format!("rt_bp serves C19 only, not `{}`", args.property));
    }
    part_a::calibrate();

    if let Some(path) = &args.replay {
        let case = verif_common::load_replay(path);
        let code = match case["part"].as_str() {
            Some("A") => part_a::replay(&case),
            Some("B") => part_b::replay(&case),
            _ => verif_common::machinery_error("replay file has no `part` (A|B)"),
        };
        println!("{}", if code == 0 { "replay: case no longer violates" } else { "replay: case still violates" });
        std::process::exit(code);
    }

    let mut rep = verif_common::Reporter::from_args(&args);
    let workers = args
        .extra("workers")
        .and_then(|w| w.parse().ok())
        .unwrap_or_else(|| std::thread::available_parallelism().map(|n| n.get()).unwrap_or(4).min(16));
    // `--parts a|b|ab` (default ab) is a debugging aid; /verif/check never passes it.
    let parts = args.extra("parts").unwrap_or("ab").to_string();
    let skip_b = !parts.contains('b');
    let skip_a = !parts.contains('a');
    let bounds = part_a::bounds(args.tier.is_thorough());
    // Where `Blueprint::persist` writes (one file per worker, overwritten by every case).
    // Per-process directory: concurrent runs of this engine (quick + thorough, mutants) must not
    // overwrite each other's files. Removed at the end of the run.
    let persist_dir = format!(
        "{}/p{}",
        args.extra("persist-dir").map(String::from).unwrap_or_else(|| format!("{}/persist", part_a::WORK_DIR)),
        std::process::id()
    );

    if args.extra("count-only").is_some() {
        // debugging aid: size of the enumerated space, nothing is executed
        let (mut n1, mut n2) = (0u64, 0u64);
        model::gen_calls(bounds.e1_calls, bounds.max_depth, model::Kind::None, &mut Vec::new(), &mut |_, _| n1 += 1);
        model::gen_compound(bounds.e2_ops, bounds.max_depth, &model::compound_flat(), &model::compound_nest_chains(), &mut Vec::new(), &mut |_, _| n2 += 1);
        println!("E1 cases: {n1}, E2 cases: {n2}");
        std::process::exit(0);
    }

    // ---------------- Part A
    let t0 = std::time::Instant::now();
    let mut st = if skip_a { part_a::Stats::default() } else { part_a::explore(&bounds, args.seed, workers, &persist_dir) };
    let wall_a = t0.elapsed().as_secs_f64();
    st.nontrivial_hashes.sort_unstable();
    st.nontrivial_hashes.dedup();
    let distinct_a = st.nontrivial_hashes.len();
    // one representative (smallest) case per key, re-executed once for determinism
    let mut reps: std::collections::BTreeMap<String, (part_a::Outcome, part_a::Spec)> = Default::default();
    for (o, spec) in st.violations.drain(..) {
        let k = format!("{}{}", o.key(), spec.key_suffix());
        match reps.get(&k) {
            Some((_, c)) if model::size(&c.calls) <= model::size(&spec.calls) => {}
            _ => {
                reps.insert(k, (o, spec));
            }
        }
    }
    for (key, (o, spec)) in &reps {
        let again = part_a::run_spec(spec, std::path::Path::new(&format!("{persist_dir}/recheck.ron")));
        if again.outcome != *o {
            verif_common::machinery_error(&format!(
                "nondeterministic verdict for case {spec:?}: first {:?}, then {:?}",
                o, again.outcome
            ));
        }
        rep.violation(key, &format!("{} [case: {}]", o.what(), serde_json::to_string(spec).unwrap()), part_a::case_json(spec));
    }

    let _ = std::fs::remove_dir_all(&persist_dir);

    // ---------------- Part B
    let t1 = std::time::Instant::now();
    let b = if skip_b { None } else { Some(part_b::check()) };
    let wall_b = t1.elapsed().as_secs_f64();
    if let Some(b) = &b {
        for (key, what, case) in &b.violations {
            rep.violation(key, what, case.clone());
        }
    }

    // ---------------- evidence
    let mut samples = st.samples.clone();
    if let Some(b) = &b {
        samples.extend(b.samples.iter().cloned());
    }
    if samples.is_empty() {
        samples.push(json!({"calls": [model::Call::Route(0)], "note": "no sampled case (tiny run)"}));
    }
    let mut outcome_histogram = serde_json::Map::new();
    for (k, v) in &st.by_outcome {
        outcome_histogram.insert(format!("A:{k}"), json!(v));
    }
    if let Some(b) = &b {
        for (k, v) in &b.histogram {
            outcome_histogram.insert(format!("B:{k}"), json!(v));
        }
    }
    let evaluations = st.evaluations + b.as_ref().map(|b| b.evaluations).unwrap_or(0);
    let distinct = distinct_a + b.as_ref().map(|b| b.distinct_expected).unwrap_or(0);
    let rule = format!(
        "Part A — alphabet: the public blueprint-builder calls (route, constructor, wrap, pre_process, post_process, \
error_observer, error_handler, prebuilt, config, fallback, import(from!), routes(from!), prefix, domain, nest on Blueprint; \
chained setters .error_handler/.lifecycle/.clone_if_necessary/.never_clone/.cloning/.allow/.warn/.deny/.default_if_missing/\
.required/.include_if_unused; .prefix/.domain/.nest/.routes on RoutingModifiers), 2 components or values per kind. \
E1 = every well-typed call tree with <= {e1} calls (nested calls included) and nesting depth <= {d}; \
E2 = every sequence of <= {e2} compound operations (DESIGN alphabet: {nflat} registrations with full setter chains, \
{nchain} modifier chains in front of nest) with nesting depth <= {d}. Every call is made from its own source line \
(12 banks of call sites: depth x position mod 4). Pipeline: real builder -> Blueprint::persist -> fs_err open + ron::de::from_reader \
into pavex_bp_schema::Blueprint (as pavexc_cli). Oracle: == the schema value the reference model builds from the call list \
(components, order, nesting, prefix incl. documented override, domain, lifecycle, cloning, lints, error handlers, \
file/line/column of registered_at, nested_at, creation_location; domain-after-domain accepted as first- or last-wins). \
Part B — one annotated item per legal combination of attribute arguments in a generated crate, rustdoc JSON by the docs \
toolchain, attrs -> pavexc_annotations::parse_pavex_attributes; oracle: AnnotationProperties == what the attribute says \
(None == Some(false) for boolean flags, as pavexc only tests for Some(true)). \
Non-trivial: part A case whose blueprint carries >= 1 component (distinct by structural hash of the call tree); \
part B: distinct expected AnnotationProperties values.",
        e1 = bounds.e1_calls,
        e2 = bounds.e2_ops,
        d = bounds.max_depth,
        nflat = model::compound_flat().len(),
        nchain = model::compound_nest_chains().len(),
    );
    let coverage = json!({
        "evaluations": evaluations,
        "distinct_nontrivial": distinct,
        "rule": rule,
        "samples": samples,
        "exhaustive": true,
        "caps_hit": [],
        "outcome_histogram": outcome_histogram,
        "oracle_branches_note": "on the unchanged tree every case lands in A:equal / B:exact / B:equal_modulo_none_vs_some_false / B:unannotated_item_clean; the violation branches (A:mismatch on path_prefix, cloning_policy and nested_at; B:differs on method and lifecycle) are exercised by the five mutants in engines/rt_bp/mutants/, each detected with exit 1",
        "part_a": {
            "bound": {"e1_max_calls": bounds.e1_calls, "e2_max_compound_ops": bounds.e2_ops, "max_nesting_depth": bounds.max_depth},
            "cases": st.evaluations,
            "e1_cases": st.e1_cases,
            "e2_cases": st.e2_cases,
            "distinct_nontrivial_cases": distinct_a,
            "cases_by_total_calls": st.by_size.iter().map(|(k, v)| (k.to_string(), json!(v))).collect::<serde_json::Map<_, _>>(),
            "cases_by_nesting_depth": st.by_depth.iter().map(|(k, v)| (k.to_string(), json!(v))).collect::<serde_json::Map<_, _>>(),
            "calls_executed_by_kind": st.by_call,
            "cases_exhibiting": st.features,
            "components_compared": st.components_compared,
            "source_locations_compared": st.locations_compared,
            "max_components_in_one_blueprint": st.max_components,
            "violating_cases": st.violations_total,
            "workers": workers,
            "persist_dir": persist_dir,
            "skipped": skip_a,
            "wall_s": wall_a,
        },
        "part_b": match &b {
            None => json!({"skipped": true}),
            Some(b) => json!({
                "annotated_items": b.evaluations,
                "items_by_kind": b.by_kind,
                "distinct_expected_property_values": b.distinct_expected,
                "unannotated_items_checked_for_spurious_annotations": b.unannotated_checked,
                "docs_toolchain": part_b::DOCS_TOOLCHAIN,
                "rustdoc_json_cache": if b.docs_cache_hit { "hit" } else { "miss (cargo rustdoc was run)" },
                "rustdoc_json_cache_key": b.docs_cache_key,
                "rustdoc_json_cache_note": "the rustdoc JSON is cached under /verif/work/rt_bp/attr_cache keyed by sha256(generated crate, /repo/runtime/pavex_macros sources, /repo/compiler/pavexc_attr_parser sources, docs toolchain version); on a miss `cargo rustdoc` runs (seconds with a warm target dir, ~2 min cold)",
                "rustdoc_wall_s": b.rustdoc_wall_s,
                "observations_not_counted_as_violations": b.probes,
                "wall_s": wall_b,
            }),
        },
    });
    let code = rep.finish(
        "exploration",
        coverage,
        &[
            "the annotated dummy components live in this engine's crate; their coordinates (id, macro_name, package name/version) are produced by the real macros and compared with hand-written expectations",
            "expected source locations come from line!()/file!() next to each call plus a column computed by build.rs, calibrated at start-up against rustc's #[track_caller]",
            "part B uses the installed `nightly` toolchain (rustdoc JSON format 57 = /repo's rustdoc_types) instead of pavexc's pinned nightly-2025-12-15, which is not installed",
            "pavexc's later processing of the schema (analyses/user_components/blueprint.rs) is exercised by the e2e engine, not here",
        ],
    );
    std::process::exit(code);
}
