//! Dummy components, annotated with the *real* Pavex macros. The macros generate the constants
//! (`ROUTE_A`, `CTOR_A`, …) carrying the raw annotation coordinates that the blueprint builder
//! consumes. Signatures are irrelevant here: only `pavexc` type-checks them, and `pavexc` is not
//! part of this pipeline.
//!
//! | constant      | attribute                                   | id            | macro_name       |
//! |---------------|---------------------------------------------|---------------|------------------|
//! | `ROUTE_A`     | `#[pavex::get(path = "/a")]`                | default       | `route`          |
//! | `ROUTE_B`     | `#[pavex::route(.., id = "ROUTE_B")]`       | explicit      | `route`          |
//! | `CTOR_A`      | `#[pavex::singleton]`                       | default       | `constructor`    |
//! | `SVC_BUILD`   | `#[request_scoped]` in `#[pavex::methods]`  | default (Ty_) | `constructor`    |
//! | `WRAP_A`…     | `#[pavex::wrap]`/`pre_process`/`post_process` | default     | `wrap`/…         |
//! | `OBS_A`       | `#[pavex::error_observer]`                  | default       | `error_observer` |
//! | `EH_A`,`EH_B` | `#[pavex::error_handler]`                   | default/expl. | `error_handler`  |
//! | `PREBUILT_A`,`PB_B` | `#[pavex::prebuilt]`                  | default/expl. | `prebuilt`       |
//! | `CONFIG_A`,`CFG_B`  | `#[pavex::config]`                    | default/expl. | `config`         |
//! | `FALLBACK_A`  | `#[pavex::fallback]`                        | default       | `fallback`       |

pub struct DummyError;

#[pavex::get(path = "/a")]
pub fn route_a() {}

#[pavex::route(method = ["POST", "PUT"], path = "/b/{id}", id = "ROUTE_B")]
pub fn route_b_handler() {}

#[pavex::singleton]
pub fn ctor_a() -> u8 {
    0
}

pub struct Svc;

#[pavex::methods]
impl Svc {
    #[request_scoped]
    pub fn build() -> Svc {
        Svc
    }
}

#[pavex::wrap]
pub fn wrap_a() {}

#[pavex::pre_process]
pub fn pre_a() {}

#[pavex::post_process]
pub fn post_a() {}

#[pavex::error_observer]
pub fn obs_a() {}

#[pavex::error_handler]
pub fn eh_a(_e: &DummyError) {}

#[pavex::error_handler(id = "EH_B", default = false)]
pub fn eh_b_handler(#[px(error_ref)] _e: &DummyError, _other: u8) {}

#[pavex::prebuilt]
pub struct PrebuiltA;

#[pavex::prebuilt(id = "PB_B", clone_if_necessary)]
#[derive(Clone)]
pub enum PrebuiltEnum {
    One,
}

#[pavex::config(key = "config_a")]
#[derive(Clone)]
pub struct ConfigA;

#[pavex::config(key = "cfg_b", id = "CFG_B", default_if_missing)]
#[derive(Clone, Default)]
pub struct ConfigBee;

#[pavex::fallback]
pub fn fallback_a() {}
