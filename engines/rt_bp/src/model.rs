//! The call alphabet, its typing rules (which call may follow which), the two enumerators and the
//! reference model that builds the expected `pavex_bp_schema::Blueprint` straight from a call list.
use pavex_bp_schema as s;
use serde::{Deserialize, Serialize};

/// One call into the public blueprint-builder API. A *case* is a list of calls, executed in order
/// against a fresh `Blueprint::new()`.
///
/// "Chained" calls are invoked on the value returned by the previous call
/// (`bp.constructor(C).lifecycle(..)`), all the others on the blueprint itself (which drops
/// whatever the previous call returned).
#[derive(Clone, Debug, PartialEq, Eq, Hash, Serialize, Deserialize)]
pub enum Call {
    // ---- calls on `Blueprint`
    /// `bp.route(ROUTE_A | ROUTE_B)`
    Route(u8),
    /// `bp.constructor(CTOR_A | SVC_BUILD)`
    Ctor(u8),
    Wrap,
    Pre,
    Post,
    Observer,
    /// `bp.error_handler(EH_A | EH_B)`
    ErrHandler(u8),
    /// `bp.prebuilt(PREBUILT_A | PB_B)`
    Prebuilt(u8),
    /// `bp.config(CONFIG_A | CFG_B)`
    Config(u8),
    Fallback,
    /// `bp.import(from![*])` | `bp.import(from![crate::components, super::sibling, pavex])`
    Import(u8),
    /// `bp.routes(from![crate::components])` | `bp.routes(from![*])`
    Routes(u8),
    /// `bp.prefix(PREFIXES[i])`
    BpPrefix(u8),
    /// `bp.domain(DOMAINS[i])`
    BpDomain(u8),
    /// `bp.nest({ let mut nb = Blueprint::new(); <sub>; nb })`
    BpNest(Vec<Call>),
    // ---- chained calls
    /// `.error_handler(EH_A | EH_B)` on a registered route/fallback/middleware/constructor
    Eh(u8),
    /// `.lifecycle(Singleton | RequestScoped | Transient)` on a registered constructor
    Lifecycle(u8),
    /// `.clone_if_necessary()` on a registered constructor/prebuilt/config
    CloneIfNecessary,
    /// `.never_clone()`
    NeverClone,
    /// `.cloning(CloneIfNecessary | NeverClone)`
    Cloning(u8),
    /// `.allow|warn|deny(Lint::Unused | Lint::ErrorFallback)` — (setting, lint)
    Lint(u8, u8),
    DefaultIfMissing,
    Required,
    IncludeIfUnused,
    /// `.prefix(..)` on `RoutingModifiers` (overrides an earlier prefix)
    ModPrefix(u8),
    /// `.domain(..)` on `RoutingModifiers`
    ModDomain(u8),
    /// `.nest(..)` on `RoutingModifiers`
    ModNest(Vec<Call>),
    /// `.routes(from![crate::components] | from![*])` on `RoutingModifiers`
    ModRoutes(u8),
}

pub const PREFIXES: [&str; 2] = ["/api", "/t/{id}/\"q\\ \t'\u{e9}\u{1F600}\n#(x)//"];
pub const DOMAINS: [&str; 2] = ["admin.example.com", "{*any}.ex\"ample\\.co\u{fc}m\r\n"];

impl Call {
    pub fn is_chained(&self) -> bool {
        use Call::*;
        matches!(
            self,
            Eh(_) | Lifecycle(_)
                | CloneIfNecessary
                | NeverClone
                | Cloning(_)
                | Lint(..)
                | DefaultIfMissing
                | Required
                | IncludeIfUnused
                | ModPrefix(_)
                | ModDomain(_)
                | ModNest(_)
                | ModRoutes(_)
        )
    }
    pub fn name(&self) -> &'static str {
        use Call::*;
        match self {
            Route(_) => "route",
            Ctor(_) => "constructor",
            Wrap => "wrap",
            Pre => "pre_process",
            Post => "post_process",
            Observer => "error_observer",
            ErrHandler(_) => "error_handler",
            Prebuilt(_) => "prebuilt",
            Config(_) => "config",
            Fallback => "fallback",
            Import(_) => "import",
            Routes(_) => "routes",
            BpPrefix(_) => "bp.prefix",
            BpDomain(_) => "bp.domain",
            BpNest(_) => "bp.nest",
            Eh(_) => ".error_handler",
            Lifecycle(_) => ".lifecycle",
            CloneIfNecessary => ".clone_if_necessary",
            NeverClone => ".never_clone",
            Cloning(_) => ".cloning",
            Lint(0, _) => ".allow",
            Lint(1, _) => ".warn",
            Lint(..) => ".deny",
            DefaultIfMissing => ".default_if_missing",
            Required => ".required",
            IncludeIfUnused => ".include_if_unused",
            ModPrefix(_) => ".prefix",
            ModDomain(_) => ".domain",
            ModNest(_) => ".nest",
            ModRoutes(_) => ".routes",
        }
    }
}

/// What the previous call returned, i.e. what a chained call can be invoked on.
#[derive(Clone, Copy, Debug, PartialEq, Eq)]
pub enum Kind {
    /// Nothing chainable.
    None,
    /// `RegisteredRoute`/`Fallback`/`WrappingMiddleware`/`Pre…`/`Post…`: only `.error_handler`.
    EhOnly,
    Ctor,
    Prebuilt,
    Config,
    Mods,
}

pub fn kind_after(prev: Kind, c: &Call) -> Kind {
    use Call::*;
    match c {
        Route(_) | Fallback | Wrap | Pre | Post => Kind::EhOnly,
        Ctor(_) => Kind::Ctor,
        Prebuilt(_) => Kind::Prebuilt,
        Config(_) => Kind::Config,
        BpPrefix(_) | BpDomain(_) | ModPrefix(_) | ModDomain(_) => Kind::Mods,
        Observer | ErrHandler(_) | Import(_) | Routes(_) | BpNest(_) | ModNest(_) | ModRoutes(_) => Kind::None,
        // setters return `Self`
        Eh(_) | Lifecycle(_) | CloneIfNecessary | NeverClone | Cloning(_) | Lint(..) | DefaultIfMissing
        | Required | IncludeIfUnused => prev,
    }
}

/// Calls on the blueprint (always legal), nesting excluded.
pub fn bp_calls() -> Vec<Call> {
    use Call::*;
    vec![
        Route(0),
        Route(1),
        Ctor(0),
        Ctor(1),
        Wrap,
        Pre,
        Post,
        Observer,
        ErrHandler(0),
        ErrHandler(1),
        Prebuilt(0),
        Prebuilt(1),
        Config(0),
        Config(1),
        Fallback,
        Import(0),
        Import(1),
        Routes(0),
        Routes(1),
        BpPrefix(0),
        BpPrefix(1),
        BpDomain(0),
        BpDomain(1),
    ]
}

/// Chained calls that type-check on a value of the given kind, nesting excluded.
pub fn chained_calls(k: Kind) -> Vec<Call> {
    use Call::*;
    let cloning = [CloneIfNecessary, NeverClone, Cloning(0), Cloning(1)];
    match k {
        Kind::None => vec![],
        Kind::EhOnly => vec![Eh(0), Eh(1)],
        Kind::Ctor => {
            let mut v = vec![Eh(0), Eh(1), Lifecycle(0), Lifecycle(1), Lifecycle(2)];
            v.extend(cloning);
            for setting in 0..3 {
                for lint in 0..2 {
                    v.push(Lint(setting, lint));
                }
            }
            v
        }
        Kind::Prebuilt => cloning.to_vec(),
        Kind::Config => {
            let mut v = cloning.to_vec();
            v.extend([DefaultIfMissing, Required, IncludeIfUnused]);
            v
        }
        Kind::Mods => vec![ModPrefix(0), ModPrefix(1), ModDomain(0), ModDomain(1), ModRoutes(0), ModRoutes(1)],
    }
}

/// Total number of builder calls in a case, nested ones included (`Blueprint::new()` excluded).
pub fn size(calls: &[Call]) -> usize {
    calls
        .iter()
        .map(|c| match c {
            Call::BpNest(sub) | Call::ModNest(sub) => 1 + size(sub),
            _ => 1,
        })
        .sum()
}

pub fn depth(calls: &[Call]) -> usize {
    calls
        .iter()
        .map(|c| match c {
            Call::BpNest(sub) | Call::ModNest(sub) => 1 + depth(sub),
            _ => 0,
        })
        .max()
        .unwrap_or(0)
}

/// Is this a well-typed program? (What the Rust type checker would accept.)
pub fn well_typed(calls: &[Call], max_depth: usize) -> bool {
    let mut k = Kind::None;
    for (i, c) in calls.iter().enumerate() {
        if c.is_chained() {
            if i == 0 {
                return false;
            }
            let ok = match c {
                Call::ModNest(sub) => k == Kind::Mods && max_depth > 0 && well_typed(sub, max_depth - 1),
                other => chained_calls(k).contains(other),
            };
            if !ok {
                return false;
            }
        } else if let Call::BpNest(sub) = c {
            if max_depth == 0 || !well_typed(sub, max_depth - 1) {
                return false;
            }
        } else if !bp_calls().contains(c) {
            return false;
        }
        k = kind_after(k, c);
    }
    true
}

// -------------------------------------------------------------------------------------------
// Enumerator E1: every well-typed call tree with at most `budget` calls and nesting depth ≤ 2.
// -------------------------------------------------------------------------------------------

/// Calls `k(seq, remaining_budget)` exactly once for every well-typed extension of `cur`
/// (including `cur` itself) that uses at most `budget` further calls.
pub fn gen_calls(
    budget: usize,
    depth: usize,
    kind: Kind,
    cur: &mut Vec<Call>,
    k: &mut dyn FnMut(&mut Vec<Call>, usize),
) {
    k(cur, budget);
    if budget == 0 {
        return;
    }
    let mut options = bp_calls();
    options.extend(chained_calls(kind));
    for c in options {
        let nk = kind_after(kind, &c);
        cur.push(c);
        gen_calls(budget - 1, depth, nk, cur, k);
        cur.pop();
    }
    if depth > 0 {
        // nest on the blueprint, or on the routing modifiers if that's what we are holding
        let mut variants = vec![false];
        if kind == Kind::Mods {
            variants.push(true);
        }
        for on_mods in variants {
            let mut sub = Vec::new();
            gen_calls(budget - 1, depth - 1, Kind::None, &mut sub, &mut |sub, rem| {
                cur.push(if on_mods { Call::ModNest(sub.clone()) } else { Call::BpNest(sub.clone()) });
                gen_calls(rem, depth, Kind::None, cur, k);
                cur.pop();
            });
        }
    }
}

// -------------------------------------------------------------------------------------------
// Enumerator E2: sequences of *compound operations* (a registration with its full chain of
// setters, a nesting with its chain of routing modifiers), the alphabet of DESIGN.md §C19.
// -------------------------------------------------------------------------------------------

/// Flat compound operations: each is a registration plus its chain of setters.
pub fn compound_flat() -> Vec<Vec<Call>> {
    use Call::*;
    vec![
        // route ± error handler
        vec![Route(0)],
        vec![Route(1), Eh(0)],
        // constructor × lifecycle override × cloning override × lint allow/warn/deny (± error handler)
        vec![Ctor(0)],
        vec![Ctor(0), Lifecycle(0), CloneIfNecessary, Lint(0, 0)],
        vec![Ctor(1), Lifecycle(1), NeverClone, Lint(1, 1), Eh(1)],
        vec![Ctor(0), Lifecycle(2), Cloning(1), Lint(2, 0), Lint(0, 1)],
        vec![Ctor(1), Lint(2, 1), Lint(0, 1), CloneIfNecessary, NeverClone, Lifecycle(0), Lifecycle(2)],
        // middlewares ± error handler
        vec![Wrap],
        vec![Wrap, Eh(0)],
        vec![Pre],
        vec![Pre, Eh(1)],
        vec![Post],
        vec![Post, Eh(0)],
        // observers and handlers
        vec![Observer],
        vec![ErrHandler(0)],
        vec![ErrHandler(1)],
        // prebuilt × cloning
        vec![Prebuilt(0)],
        vec![Prebuilt(0), CloneIfNecessary],
        vec![Prebuilt(1), NeverClone],
        // config × {cloning, default_if_missing/required, include_if_unused}
        vec![Config(0)],
        vec![Config(0), NeverClone, DefaultIfMissing],
        vec![Config(1), CloneIfNecessary, Required, IncludeIfUnused],
        vec![Config(1), DefaultIfMissing, Required],
        vec![Config(0), IncludeIfUnused],
        // fallback ± error handler
        vec![Fallback],
        vec![Fallback, Eh(1)],
        // imports
        vec![Import(0)],
        vec![Import(1)],
        vec![Routes(0)],
        // routing modifiers that are dropped without nesting anything (must register nothing)
        vec![BpPrefix(0)],
        // prefix → routes(from!) shorthand
        vec![BpPrefix(1), ModRoutes(0)],
        vec![BpDomain(0), ModPrefix(0), ModRoutes(1)],
    ]
}

/// Chains of routing modifiers in front of a `nest`. The empty chain is `bp.nest(..)`.
pub fn compound_nest_chains() -> Vec<Vec<Call>> {
    use Call::*;
    vec![
        vec![],                                        // nest
        vec![BpPrefix(0)],                             // prefix → nest
        vec![BpDomain(0)],                             // domain → nest
        vec![BpPrefix(1), ModDomain(1)],               // prefix → domain → nest
        vec![BpDomain(1), ModPrefix(0)],               // domain → prefix → nest
        vec![BpPrefix(0), ModPrefix(1)],               // prefix → prefix → nest (override)
        vec![BpDomain(0), ModDomain(1)],               // domain → domain → nest
        vec![BpPrefix(1), ModDomain(0), ModPrefix(0)], // prefix → domain → prefix → nest
    ]
}

/// Like `gen_calls`, but one unit of budget is one compound operation.
pub fn gen_compound(
    budget: usize,
    depth: usize,
    flat: &[Vec<Call>],
    chains: &[Vec<Call>],
    cur: &mut Vec<Call>,
    k: &mut dyn FnMut(&mut Vec<Call>, usize),
) {
    k(cur, budget);
    if budget == 0 {
        return;
    }
    for chunk in flat {
        let len = cur.len();
        cur.extend(chunk.iter().cloned());
        gen_compound(budget - 1, depth, flat, chains, cur, k);
        cur.truncate(len);
    }
    if depth > 0 {
        for chain in chains {
            let mut sub = Vec::new();
            gen_compound(budget - 1, depth - 1, flat, chains, &mut sub, &mut |sub, rem| {
                let len = cur.len();
                cur.extend(chain.iter().cloned());
                cur.push(if chain.is_empty() { Call::BpNest(sub.clone()) } else { Call::ModNest(sub.clone()) });
                gen_compound(rem, depth, flat, chains, cur, k);
                cur.truncate(len);
            });
        }
    }
}

// -------------------------------------------------------------------------------------------
// Source locations recorded by the driver
// -------------------------------------------------------------------------------------------

#[derive(Clone, Debug, PartialEq, Eq)]
pub struct Loc {
    pub file: &'static str,
    pub line: u32,
    pub column: u32,
}

impl Loc {
    pub fn to_schema(&self) -> s::Location {
        s::Location { line: self.line, column: self.column, file: self.file.to_string() }
    }
}

/// Filled in by the generated call sites, in execution order: one entry per call, preceded (for
/// the root and for every nested blueprint) by the location of its `Blueprint::new()`.
#[derive(Default)]
pub struct Rec {
    pub locs: Vec<Loc>,
}

impl Rec {
    #[inline]
    pub fn at(&mut self, file: &'static str, line: u32, column: u32) {
        self.locs.push(Loc { file, line, column });
    }
}

// -------------------------------------------------------------------------------------------
// Reference model
// -------------------------------------------------------------------------------------------

/// What two `.domain()` calls in one chain mean is not documented (for `.prefix()` it is: the
/// later one overrides). The reference is therefore evaluated under both readings.
#[derive(Clone, Copy, Debug, PartialEq, Eq)]
pub enum DomainPolicy {
    LastWins,
    FirstWins,
}

/// `CARGO_PKG_NAME` / `CARGO_PKG_VERSION` of the crate where the annotated components live (this one).
pub const PKG_NAME: &str = env!("CARGO_PKG_NAME");
pub const PKG_VERSION: &str = env!("CARGO_PKG_VERSION");

fn created_at() -> s::CreatedAt {
    s::CreatedAt { package_name: PKG_NAME.into(), package_version: PKG_VERSION.into() }
}

fn coords(id: &str, macro_name: &str) -> s::AnnotationCoordinates {
    s::AnnotationCoordinates { id: id.into(), created_at: created_at(), macro_name: macro_name.into() }
}

fn pick<'a>(i: u8, names: [&'a str; 2]) -> &'a str {
    names[i as usize]
}

fn eh(i: u8, loc: &Loc) -> s::ErrorHandler {
    s::ErrorHandler { coordinates: coords(pick(i, ["EH_A", "EH_B"]), "error_handler"), registered_at: loc.to_schema() }
}

fn cloning(i: u8) -> s::CloningPolicy {
    if i == 0 { s::CloningPolicy::CloneIfNecessary } else { s::CloningPolicy::NeverClone }
}

fn import_sources(i: u8, routes: bool) -> s::Sources {
    match (routes, i) {
        (false, 0) | (true, 1) => s::Sources::All,
        (false, _) => s::Sources::Some(vec!["crate::components".into(), "super::sibling".into(), "pavex".into()]),
        (true, _) => s::Sources::Some(vec!["crate::components".into()]),
    }
}

pub struct RefCtx<'a> {
    pub locs: std::slice::Iter<'a, Loc>,
    pub module_path: &'a str,
    pub policy: DomainPolicy,
}

impl RefCtx<'_> {
    fn next(&mut self) -> Result<Loc, String> {
        self.locs.next().cloned().ok_or_else(|| "driver recorded fewer locations than calls".to_string())
    }
}

/// The expected schema value for `calls`, given where each call was made from.
pub fn reference(calls: &[Call], locs: &[Loc], module_path: &str, policy: DomainPolicy) -> Result<s::Blueprint, String> {
    let mut ctx = RefCtx { locs: locs.iter(), module_path, policy };
    let bp = ref_bp(calls, &mut ctx)?;
    if ctx.locs.next().is_some() {
        return Err("driver recorded more locations than calls".into());
    }
    Ok(bp)
}

fn ref_bp(calls: &[Call], ctx: &mut RefCtx) -> Result<s::Blueprint, String> {
    let creation_location = ctx.next()?.to_schema();
    let mut comps: Vec<s::Component> = Vec::new();
    // Routing modifiers being assembled (path prefix, domain guard).
    let mut mods: Option<(Option<s::PathPrefix>, Option<s::Domain>)> = None;
    for c in calls {
        use Call::*;
        if !c.is_chained() {
            // a call on the blueprint drops whatever the previous call returned
            mods = None;
        }
        // Nested blueprints are built (and their locations recorded) before the `nest` call itself.
        let nested = match c {
            BpNest(sub) | ModNest(sub) => Some(ref_bp(sub, ctx)?),
            _ => None,
        };
        let loc = ctx.next()?;
        let at = loc.to_schema();
        match c {
            Route(i) => comps.push(s::Component::Route(s::Route {
                coordinates: coords(pick(*i, ["ROUTE_A", "ROUTE_B"]), "route"),
                registered_at: at,
                error_handler: None,
            })),
            Ctor(i) => comps.push(s::Component::Constructor(s::Constructor {
                coordinates: coords(pick(*i, ["CTOR_A", "SVC_BUILD"]), "constructor"),
                lifecycle: None,
                cloning_policy: None,
                error_handler: None,
                lints: Default::default(),
                registered_at: at,
            })),
            Wrap => comps.push(s::Component::WrappingMiddleware(s::WrappingMiddleware {
                coordinates: coords("WRAP_A", "wrap"),
                registered_at: at,
                error_handler: None,
            })),
            Pre => comps.push(s::Component::PreProcessingMiddleware(s::PreProcessingMiddleware {
                coordinates: coords("PRE_A", "pre_process"),
                registered_at: at,
                error_handler: None,
            })),
            Post => comps.push(s::Component::PostProcessingMiddleware(s::PostProcessingMiddleware {
                coordinates: coords("POST_A", "post_process"),
                registered_at: at,
                error_handler: None,
            })),
            Observer => comps.push(s::Component::ErrorObserver(s::ErrorObserver {
                coordinates: coords("OBS_A", "error_observer"),
                registered_at: at,
            })),
            ErrHandler(i) => comps.push(s::Component::ErrorHandler(eh(*i, &loc))),
            Prebuilt(i) => comps.push(s::Component::PrebuiltType(s::PrebuiltType {
                coordinates: coords(pick(*i, ["PREBUILT_A", "PB_B"]), "prebuilt"),
                cloning_policy: None,
                registered_at: at,
            })),
            Config(i) => comps.push(s::Component::ConfigType(s::ConfigType {
                coordinates: coords(pick(*i, ["CONFIG_A", "CFG_B"]), "config"),
                cloning_policy: None,
                default_if_missing: None,
                include_if_unused: None,
                registered_at: at,
            })),
            Fallback => comps.push(s::Component::FallbackRequestHandler(s::Fallback {
                coordinates: coords("FALLBACK_A", "fallback"),
                registered_at: at,
                error_handler: None,
            })),
            Import(i) => comps.push(s::Component::Import(s::Import {
                sources: import_sources(*i, false),
                relative_to: ctx.module_path.to_string(),
                created_at: created_at(),
                registered_at: at,
            })),
            Routes(i) => comps.push(s::Component::RoutesImport(s::RoutesImport {
                sources: import_sources(*i, true),
                relative_to: ctx.module_path.to_string(),
                created_at: created_at(),
                registered_at: at,
            })),
            BpPrefix(i) => {
                mods = Some((Some(s::PathPrefix { path_prefix: PREFIXES[*i as usize].into(), registered_at: at }), None))
            }
            BpDomain(i) => mods = Some((None, Some(s::Domain { domain: DOMAINS[*i as usize].into(), registered_at: at }))),
            ModPrefix(i) => {
                let m = mods.as_mut().ok_or("ill-typed case: .prefix() without routing modifiers")?;
                // Documented: "If a prefix has already been set, it will be overridden."
                m.0 = Some(s::PathPrefix { path_prefix: PREFIXES[*i as usize].into(), registered_at: at });
            }
            ModDomain(i) => {
                let m = mods.as_mut().ok_or("ill-typed case: .domain() without routing modifiers")?;
                if m.1.is_none() || ctx.policy == DomainPolicy::LastWins {
                    m.1 = Some(s::Domain { domain: DOMAINS[*i as usize].into(), registered_at: at });
                }
            }
            BpNest(_) => comps.push(s::Component::NestedBlueprint(s::NestedBlueprint {
                blueprint: nested.unwrap(),
                path_prefix: None,
                domain: None,
                nested_at: at,
            })),
            ModNest(_) => {
                let (path_prefix, domain) = mods.take().ok_or("ill-typed case: .nest() without routing modifiers")?;
                comps.push(s::Component::NestedBlueprint(s::NestedBlueprint {
                    blueprint: nested.unwrap(),
                    path_prefix,
                    domain,
                    nested_at: at,
                }))
            }
            ModRoutes(i) => {
                // `m.routes(import)` is documented as a shorthand for nesting a blueprint that only
                // contains `routes(import)`: everything happens at this one call site.
                let (path_prefix, domain) = mods.take().ok_or("ill-typed case: .routes() without routing modifiers")?;
                comps.push(s::Component::NestedBlueprint(s::NestedBlueprint {
                    blueprint: s::Blueprint {
                        creation_location: at.clone(),
                        components: vec![s::Component::RoutesImport(s::RoutesImport {
                            sources: import_sources(*i, true),
                            relative_to: ctx.module_path.to_string(),
                            created_at: created_at(),
                            registered_at: at.clone(),
                        })],
                    },
                    path_prefix,
                    domain,
                    nested_at: at,
                }))
            }
            // ---- setters on the component registered by this chain (= the last one)
            Eh(i) => {
                let h = Some(eh(*i, &loc));
                match comps.last_mut() {
                    Some(s::Component::Route(x)) => x.error_handler = h,
                    Some(s::Component::FallbackRequestHandler(x)) => x.error_handler = h,
                    Some(s::Component::WrappingMiddleware(x)) => x.error_handler = h,
                    Some(s::Component::PreProcessingMiddleware(x)) => x.error_handler = h,
                    Some(s::Component::PostProcessingMiddleware(x)) => x.error_handler = h,
                    Some(s::Component::Constructor(x)) => x.error_handler = h,
                    _ => return Err("ill-typed case: .error_handler()".into()),
                }
            }
            Lifecycle(i) => match comps.last_mut() {
                Some(s::Component::Constructor(x)) => {
                    x.lifecycle =
                        Some([s::Lifecycle::Singleton, s::Lifecycle::RequestScoped, s::Lifecycle::Transient][*i as usize])
                }
                _ => return Err("ill-typed case: .lifecycle()".into()),
            },
            CloneIfNecessary | NeverClone | Cloning(_) => {
                let p = Some(match c {
                    CloneIfNecessary => s::CloningPolicy::CloneIfNecessary,
                    NeverClone => s::CloningPolicy::NeverClone,
                    Cloning(i) => cloning(*i),
                    _ => unreachable!(),
                });
                match comps.last_mut() {
                    Some(s::Component::Constructor(x)) => x.cloning_policy = p,
                    Some(s::Component::PrebuiltType(x)) => x.cloning_policy = p,
                    Some(s::Component::ConfigType(x)) => x.cloning_policy = p,
                    _ => return Err("ill-typed case: cloning setter".into()),
                }
            }
            Lint(setting, lint) => match comps.last_mut() {
                Some(s::Component::Constructor(x)) => {
                    x.lints.insert(
                        [s::Lint::Unused, s::Lint::ErrorFallback][*lint as usize],
                        [s::LintSetting::Allow, s::LintSetting::Warn, s::LintSetting::Deny][*setting as usize],
                    );
                }
                _ => return Err("ill-typed case: lint setter".into()),
            },
            DefaultIfMissing | Required | IncludeIfUnused => match comps.last_mut() {
                Some(s::Component::ConfigType(x)) => match c {
                    DefaultIfMissing => x.default_if_missing = Some(true),
                    Required => x.default_if_missing = Some(false),
                    _ => x.include_if_unused = Some(true),
                },
                _ => return Err("ill-typed case: config setter".into()),
            },
        }
    }
    Ok(s::Blueprint { creation_location, components: comps })
}

// -------------------------------------------------------------------------------------------
// Diffing two schema values (for violation keys and messages)
// -------------------------------------------------------------------------------------------

/// First difference between two JSON renderings: (concrete path, abstract path, expected, observed).
pub fn first_diff(exp: &serde_json::Value, obs: &serde_json::Value) -> Option<(String, String, String, String)> {
    fn go(e: &serde_json::Value, o: &serde_json::Value, path: &mut Vec<String>) -> Option<(Vec<String>, String, String)> {
        use serde_json::Value::*;
        match (e, o) {
            (Object(a), Object(b)) => {
                let mut keys: Vec<&std::string::String> = a.keys().chain(b.keys()).collect();
                keys.sort();
                keys.dedup();
                for k in keys {
                    path.push(k.clone());
                    match (a.get(k), b.get(k)) {
                        (Some(x), Some(y)) => {
                            if let Some(d) = go(x, y, path) {
                                return Some(d);
                            }
                        }
                        (x, y) => {
                            return Some((
                                path.clone(),
                                x.map(|v| v.to_string()).unwrap_or("<absent>".into()),
                                y.map(|v| v.to_string()).unwrap_or("<absent>".into()),
                            ));
                        }
                    }
                    path.pop();
                }
                None
            }
            (Array(a), Array(b)) => {
                if a.len() != b.len() {
                    path.push("<len>".into());
                    return Some((path.clone(), a.len().to_string(), b.len().to_string()));
                }
                for (i, (x, y)) in a.iter().zip(b).enumerate() {
                    path.push(format!("[{i}]"));
                    if let Some(d) = go(x, y, path) {
                        return Some(d);
                    }
                    path.pop();
                }
                None
            }
            (x, y) if x == y => None,
            (x, y) => Some((path.clone(), x.to_string(), y.to_string())),
        }
    }
    let (path, e, o) = go(exp, obs, &mut Vec::new())?;
    let concrete = path.join(".");
    // Abstract path: drop indices, the (recursive) nesting prefix and the leaf of a source location
    // (`line`/`column`/`file` of one location are one defect); keep the last 2 field names.
    let mut fields: Vec<&std::string::String> = path.iter().filter(|p| !p.starts_with('[')).collect();
    if fields.len() > 1 && matches!(fields.last().map(|s| s.as_str()), Some("line" | "column" | "file")) {
        fields.pop();
    }
    let tail: Vec<&str> = fields.iter().rev().take(2).rev().map(|s| s.as_str()).collect();
    Some((concrete, tail.join("."), e, o))
}
