//! Part A: real builder → `Blueprint::persist` → `ron::de::from_reader` (as `pavexc_cli` does)
//! compared with the reference model, for every enumerated call tree.
use crate::model::{self, Call, DomainPolicy, Kind, Loc, Rec};
use crate::sites;
use pavex_bp_schema as s;
use serde_json::{Value, json};
use std::collections::BTreeMap;
use std::panic::{AssertUnwindSafe, catch_unwind};
use std::path::{Path, PathBuf};

pub const WORK_DIR: &str = "/verif/work/rt_bp";

#[derive(Debug, Clone, PartialEq, Eq)]
pub enum Outcome {
    /// Read-back value == reference (documented last-wins semantics everywhere).
    Equal,
    /// Only equal under the "first `.domain()` wins" reading (undocumented corner; accepted).
    EqualDomainFirstWins,
    Mismatch { path: String, abstract_path: String, expected: String, observed: String },
    Panic(String),
    PersistError(String),
    ReadError(String),
}

impl Outcome {
    pub fn label(&self) -> &'static str {
        match self {
            Outcome::Equal => "equal",
            Outcome::EqualDomainFirstWins => "equal_domain_first_wins",
            Outcome::Mismatch { .. } => "mismatch",
            Outcome::Panic(_) => "panic",
            Outcome::PersistError(_) => "persist_error",
            Outcome::ReadError(_) => "read_error",
        }
    }
    pub fn is_violation(&self) -> bool {
        !matches!(self, Outcome::Equal | Outcome::EqualDomainFirstWins)
    }
    /// Abstract key: all manifestations of one defect collapse to one key.
    pub fn key(&self) -> String {
        match self {
            Outcome::Mismatch { abstract_path, .. } => format!("bp-roundtrip:{abstract_path}"),
            other => format!("bp-roundtrip:{}", other.label()),
        }
    }
    pub fn what(&self) -> String {
        match self {
            Outcome::Mismatch { path, expected, observed, .. } => {
                format!("blueprint read back by the compiler differs from what was registered at `{path}`: expected {expected}, observed {observed}")
            }
            Outcome::Panic(m) => format!("builder/persist/read-back panicked: {m}"),
            Outcome::PersistError(m) => format!("Blueprint::persist failed: {m}"),
            Outcome::ReadError(m) => format!("ron::de::from_reader (as in pavexc_cli) failed on the persisted blueprint: {m}"),
            _ => "no violation".into(),
        }
    }
}

pub struct CaseRun {
    pub outcome: Outcome,
    pub expected: Option<s::Blueprint>,
    pub observed: Option<s::Blueprint>,
    pub locs: Vec<Loc>,
}

fn panic_msg(p: Box<dyn std::any::Any + Send>) -> String {
    if let Some(s) = p.downcast_ref::<&str>() {
        s.to_string()
    } else if let Some(s) = p.downcast_ref::<String>() {
        s.clone()
    } else {
        "<non-string panic payload>".into()
    }
}

/// Exactly what `pavexc_cli::generate` does with its `--blueprint` argument.
fn read_like_pavexc_cli(path: &Path) -> Result<s::Blueprint, String> {
    let file = fs_err::OpenOptions::new().read(true).open(path).map_err(|e| e.to_string())?;
    ron::de::from_reader(&file).map_err(|e| e.to_string())
}

fn has_domain_override(calls: &[Call]) -> bool {
    let mut have = false;
    for c in calls {
        match c {
            Call::BpDomain(_) => have = true,
            Call::ModDomain(_) => {
                if have {
                    return true;
                }
                have = true;
            }
            Call::ModPrefix(_) => {}
            Call::BpPrefix(_) => have = false,
            Call::BpNest(sub) | Call::ModNest(sub) => {
                if has_domain_override(sub) {
                    return true;
                }
                have = false;
            }
            other => {
                if !other.is_chained() {
                    have = false;
                }
            }
        }
    }
    false
}

/// What is at `path` when `Blueprint::persist` is called (it goes through `persist_if_changed`).
#[derive(Clone, Copy, Debug, PartialEq, Eq)]
pub enum PersistMode {
    /// No file yet (removed first). The common case: avoids ext4's replace-via-truncate flush.
    Fresh,
    /// The file persisted by the previous case is still there: compare, truncate, rewrite.
    OverPrevious,
    /// Fresh, then persisted a second time: the "unchanged, do not write" path.
    Twice,
}

pub fn run_case(calls: &[Call], path: &Path, mode: PersistMode) -> CaseRun {
    let mut rec = Rec::default();
    if mode != PersistMode::OverPrevious {
        let _ = std::fs::remove_file(path);
    }
    // 1. real builder + real persist
    let built = catch_unwind(AssertUnwindSafe(|| {
        let bp = sites::build_root(calls, &mut rec);
        bp.persist(path).map_err(|e| format!("{e:#}"))?;
        if mode == PersistMode::Twice {
            bp.persist(path).map_err(|e| format!("{e:#}"))?;
        }
        Ok::<(), String>(())
    }));
    let locs = rec.locs;
    let expected = match model::reference(calls, &locs, sites::MODULE_PATH, DomainPolicy::LastWins) {
        Ok(e) => Some(e),
        Err(e) => {
            if built.is_ok() {
                verif_common::machinery_error(&format!("reference model rejected case {calls:?}: {e}"))
            }
            None
        }
    };
    match built {
        Err(p) => return CaseRun { outcome: Outcome::Panic(panic_msg(p)), expected, observed: None, locs },
        Ok(Err(e)) => return CaseRun { outcome: Outcome::PersistError(e), expected, observed: None, locs },
        Ok(Ok(())) => {}
    }
    // 2. read back the way the compiler does
    let observed = match catch_unwind(|| read_like_pavexc_cli(path)) {
        Err(p) => return CaseRun { outcome: Outcome::Panic(panic_msg(p)), expected, observed: None, locs },
        Ok(Err(e)) => return CaseRun { outcome: Outcome::ReadError(e), expected, observed: None, locs },
        Ok(Ok(o)) => o,
    };
    let expected = expected.unwrap();
    // 3. compare
    if observed == expected {
        return CaseRun { outcome: Outcome::Equal, expected: Some(expected), observed: Some(observed), locs };
    }
    if has_domain_override(calls) {
        let alt = model::reference(calls, &locs, sites::MODULE_PATH, DomainPolicy::FirstWins).unwrap();
        if observed == alt {
            return CaseRun { outcome: Outcome::EqualDomainFirstWins, expected: Some(expected), observed: Some(observed), locs };
        }
    }
    let ev = serde_json::to_value(&expected).unwrap();
    let ov = serde_json::to_value(&observed).unwrap();
    // The JSON rendering goes through the schema's own `Serialize` impls: if those drop information (e.g. a
    // `skip_serializing_if`), two different values can render alike. Fall back to the `Debug` renderings, which are derived.
    let (path_, abstract_path, e, o) = model::first_diff(&ev, &ov).unwrap_or_else(|| {
        let (ed, od) = (format!("{expected:?}"), format!("{observed:?}"));
        let at = ed.bytes().zip(od.bytes()).position(|(a, b)| a != b).unwrap_or(ed.len().min(od.len()));
        let win = |s: &str| s.get(at.saturating_sub(60)..(at + 60).min(s.len())).unwrap_or("").to_string();
        (
            "<not visible in the serialized form>".to_string(),
            "serialize-loses-information".to_string(),
            win(&ed),
            win(&od),
        )
    });
    CaseRun {
        outcome: Outcome::Mismatch { path: path_, abstract_path, expected: e, observed: o },
        expected: Some(expected),
        observed: Some(observed),
        locs,
    }
}

/// A self-contained, replayable case: `calls`, optionally persisted over the file left by `prev`,
/// optionally persisted twice.
#[derive(Clone, Debug, PartialEq, Eq, serde::Serialize, serde::Deserialize)]
pub struct Spec {
    pub calls: Vec<Call>,
    #[serde(default)]
    pub prev: Option<Vec<Call>>,
    #[serde(default)]
    pub twice: bool,
}

impl Spec {
    pub fn fresh(calls: &[Call]) -> Spec {
        Spec { calls: calls.to_vec(), prev: None, twice: false }
    }
    pub fn key_suffix(&self) -> &'static str {
        if self.prev.is_some() {
            "@persist-over-existing-file"
        } else if self.twice {
            "@persist-twice"
        } else {
            ""
        }
    }
}

pub fn run_spec(spec: &Spec, path: &Path) -> CaseRun {
    match &spec.prev {
        Some(prev) => {
            let _ = run_case(prev, path, PersistMode::Fresh);
            run_case(&spec.calls, path, PersistMode::OverPrevious)
        }
        None => run_case(&spec.calls, path, if spec.twice { PersistMode::Twice } else { PersistMode::Fresh }),
    }
}

/// The columns `build.rs` computes must be the ones rustc reports to `#[track_caller]` callees.
pub fn calibrate() {
    let mut rec = Rec::default();
    let seen = sites::calibrate(&mut rec);
    let claimed: Vec<s::Location> = rec.locs.iter().map(|l| l.to_schema()).collect();
    if claimed != seen || seen.len() != 4 {
        verif_common::machinery_error(&format!(
            "call-site calibration failed: build.rs claims {claimed:?}, rustc's #[track_caller] reports {seen:?}"
        ));
    }
}

#[derive(Default, Clone)]
pub struct Stats {
    pub evaluations: u64,
    pub e1_cases: u64,
    pub e2_cases: u64,
    pub nontrivial_hashes: Vec<u64>,
    pub by_size: BTreeMap<usize, u64>,
    pub by_depth: BTreeMap<usize, u64>,
    pub by_call: BTreeMap<&'static str, u64>,
    pub by_outcome: BTreeMap<&'static str, u64>,
    pub features: BTreeMap<&'static str, u64>,
    pub components_compared: u64,
    pub locations_compared: u64,
    pub max_components: usize,
    pub violations: Vec<(Outcome, Spec)>,
    pub violations_total: u64,
    pub samples: Vec<Value>,
}

impl Stats {
    fn merge(&mut self, o: Stats) {
        self.evaluations += o.evaluations;
        self.e1_cases += o.e1_cases;
        self.e2_cases += o.e2_cases;
        self.nontrivial_hashes.extend(o.nontrivial_hashes);
        for (k, v) in o.by_size {
            *self.by_size.entry(k).or_default() += v;
        }
        for (k, v) in o.by_depth {
            *self.by_depth.entry(k).or_default() += v;
        }
        for (k, v) in o.by_call {
            *self.by_call.entry(k).or_default() += v;
        }
        for (k, v) in o.by_outcome {
            *self.by_outcome.entry(k).or_default() += v;
        }
        for (k, v) in o.features {
            *self.features.entry(k).or_default() += v;
        }
        self.components_compared += o.components_compared;
        self.locations_compared += o.locations_compared;
        self.max_components = self.max_components.max(o.max_components);
        self.violations.extend(o.violations);
        self.violations_total += o.violations_total;
        self.samples.extend(o.samples);
    }
}

fn count_components(bp: &s::Blueprint) -> usize {
    bp.components
        .iter()
        .map(|c| match c {
            s::Component::NestedBlueprint(n) => 1 + count_components(&n.blueprint),
            _ => 1,
        })
        .sum()
}

fn hash_case(calls: &[Call]) -> u64 {
    use sha2::Digest;
    let mut h = sha2::Sha256::new();
    h.update(format!("{calls:?}").as_bytes());
    let d = h.finalize();
    u64::from_le_bytes(d[..8].try_into().unwrap())
}

fn fast_hash(calls: &[Call]) -> u64 {
    // FNV-1a over the Debug-free structural hash; collisions only make `distinct` an undercount.
    use std::hash::{Hash, Hasher};
    struct Fnv(u64);
    impl Hasher for Fnv {
        fn finish(&self) -> u64 {
            self.0
        }
        fn write(&mut self, bytes: &[u8]) {
            for b in bytes {
                self.0 ^= *b as u64;
                self.0 = self.0.wrapping_mul(0x100000001b3);
            }
        }
    }
    let mut h = Fnv(0xcbf29ce484222325);
    calls.hash(&mut h);
    // final avalanche
    let mut x = h.finish();
    x ^= x >> 33;
    x = x.wrapping_mul(0xff51afd7ed558ccd);
    x ^= x >> 33;
    x
}

fn note_features(calls: &[Call], st: &mut Stats) {
    fn walk(calls: &[Call], f: &mut BTreeMap<&'static str, bool>, by_call: &mut BTreeMap<&'static str, u64>) {
        let mut kind = Kind::None;
        let mut prefix_set = false;
        let mut domain_set = false;
        let mut setters: Vec<&'static str> = Vec::new();
        for (i, c) in calls.iter().enumerate() {
            *by_call.entry(c.name()).or_default() += 1;
            if !c.is_chained() {
                if kind == Kind::Mods {
                    *f.entry("routing_modifiers_dropped_without_nest").or_default() = true;
                }
                prefix_set = false;
                domain_set = false;
                setters.clear();
            }
            match c {
                Call::BpPrefix(_) => prefix_set = true,
                Call::BpDomain(_) => domain_set = true,
                Call::ModPrefix(_) => {
                    if prefix_set {
                        *f.entry("prefix_after_prefix").or_default() = true;
                    }
                    prefix_set = true;
                }
                Call::ModDomain(_) => {
                    if domain_set {
                        *f.entry("domain_after_domain").or_default() = true;
                    }
                    domain_set = true;
                }
                Call::BpNest(sub) | Call::ModNest(sub) => {
                    *f.entry("nesting").or_default() = true;
                    if prefix_set && domain_set {
                        *f.entry("nest_with_prefix_and_domain").or_default() = true;
                    }
                    if sub.is_empty() {
                        *f.entry("empty_nested_blueprint").or_default() = true;
                    }
                    walk(sub, f, by_call);
                }
                Call::ModRoutes(_) => *f.entry("modifiers_routes_shorthand").or_default() = true,
                Call::Eh(_) => *f.entry("error_handler_setter").or_default() = true,
                Call::Lint(..) => *f.entry("lint_setter").or_default() = true,
                _ => {}
            }
            if c.is_chained() && !matches!(c, Call::ModNest(_) | Call::ModRoutes(_)) {
                let group = match c {
                    Call::CloneIfNecessary | Call::NeverClone | Call::Cloning(_) => "cloning",
                    Call::DefaultIfMissing | Call::Required => "default_if_missing",
                    Call::Lint(_, 0) => "lint_unused",
                    Call::Lint(_, _) => "lint_error_fallback",
                    other => other.name(),
                };
                if setters.contains(&group) {
                    *f.entry("setter_called_twice_(override)").or_default() = true;
                }
                setters.push(group);
            }
            kind = model::kind_after(kind, c);
            if i + 1 == calls.len() && kind == Kind::Mods {
                *f.entry("routing_modifiers_dropped_without_nest").or_default() = true;
            }
        }
    }
    let mut f = BTreeMap::new();
    walk(calls, &mut f, &mut st.by_call);
    for (k, v) in f {
        if v {
            *st.features.entry(k).or_default() += 1;
        }
    }
}

pub struct Bounds {
    /// E1: max number of builder calls in a call tree.
    pub e1_calls: usize,
    /// E2: max number of compound operations.
    pub e2_ops: usize,
    pub max_depth: usize,
}

pub fn bounds(thorough: bool) -> Bounds {
    if thorough {
        Bounds { e1_calls: 5, e2_ops: 4, max_depth: 2 }
    } else {
        Bounds { e1_calls: 4, e2_ops: 3, max_depth: 2 }
    }
}

pub fn explore(b: &Bounds, seed: i64, workers: usize, persist_dir: &str) -> Stats {
    std::fs::create_dir_all(persist_dir)
        .unwrap_or_else(|e| verif_common::machinery_error(&format!("cannot create {persist_dir}: {e}")));
    let flat = model::compound_flat();
    let chains = model::compound_nest_chains();
    for chunk in flat.iter().chain(chains.iter()) {
        // chains are prefixes of programs: close them with an empty nest for the type check
        let mut prog = chunk.clone();
        if chains.contains(chunk) && !chunk.is_empty() {
            prog.push(Call::ModNest(vec![]));
        }
        if !model::well_typed(&prog, 2) {
            verif_common::machinery_error(&format!("compound op {chunk:?} is not well typed"));
        }
    }
    let shift = seed.unsigned_abs() as usize;
    let handles: Vec<_> = (0..workers)
        .map(|w| {
            let (flat, chains) = (flat.clone(), chains.clone());
            let (e1, e2, md) = (b.e1_calls, b.e2_ops, b.max_depth);
            let persist_dir = persist_dir.to_string();
            std::thread::Builder::new()
                .stack_size(64 << 20)
                .spawn(move || {
                    // one directory per worker: no contention on a shared directory's lock
                    let dir = format!("{persist_dir}/w{w}");
                    std::fs::create_dir_all(&dir)
                        .unwrap_or_else(|e| verif_common::machinery_error(&format!("cannot create {dir}: {e}")));
                    let path = PathBuf::from(format!("{dir}/blueprint.ron"));
                    let mut st = Stats::default();
                    let mut idx: usize = 0;
                    // the case whose blueprint is currently in `path`
                    let mut last_ok: Option<Vec<Call>> = None;
                    let mut exec = |calls: &[Call], st: &mut Stats, is_e1: bool| {
                        idx += 1;
                        if (idx + shift) % workers != w {
                            return;
                        }
                        if idx % 4096 == 1 && !model::well_typed(calls, md) {
                            verif_common::machinery_error(&format!("enumerator produced an ill-typed case {calls:?}"));
                        }
                        let mode = match st.evaluations % 8 {
                            0 if last_ok.is_some() => PersistMode::OverPrevious,
                            4 => PersistMode::Twice,
                            _ => PersistMode::Fresh,
                        };
                        let run = run_case(calls, &path, mode);
                        st.evaluations += 1;
                        *st.features
                            .entry(match mode {
                                PersistMode::Fresh => "persist_to_new_file",
                                PersistMode::OverPrevious => "persist_over_previous_case_file",
                                PersistMode::Twice => "persist_twice_(unchanged_path)",
                            })
                            .or_default() += 1;
                        if is_e1 {
                            st.e1_cases += 1
                        } else {
                            st.e2_cases += 1
                        }
                        *st.by_size.entry(model::size(calls)).or_default() += 1;
                        *st.by_depth.entry(model::depth(calls)).or_default() += 1;
                        *st.by_outcome.entry(run.outcome.label()).or_default() += 1;
                        note_features(calls, st);
                        let ncomp = run.expected.as_ref().map(count_components).unwrap_or(0);
                        if ncomp > 0 {
                            st.nontrivial_hashes.push(fast_hash(calls));
                        }
                        st.max_components = st.max_components.max(ncomp);
                        if !run.outcome.is_violation() {
                            st.components_compared += ncomp as u64;
                            st.locations_compared += run.locs.len() as u64;
                        } else {
                            st.violations_total += 1;
                            // Make the case self-contained: does it also fail on a fresh file?
                            let mut spec = Spec::fresh(calls);
                            if mode != PersistMode::Fresh {
                                let fresh = run_case(calls, &path, PersistMode::Fresh);
                                if fresh.outcome.key() != run.outcome.key() {
                                    spec = match mode {
                                        PersistMode::Twice => Spec { calls: calls.to_vec(), prev: None, twice: true },
                                        _ => Spec { calls: calls.to_vec(), prev: last_ok.clone(), twice: false },
                                    };
                                }
                            }
                            let key = format!("{}{}", run.outcome.key(), spec.key_suffix());
                            // keep the smallest case per key
                            match st.violations.iter_mut().find(|(o, sp)| format!("{}{}", o.key(), sp.key_suffix()) == key) {
                                Some(slot) => {
                                    if model::size(calls) < model::size(&slot.1.calls) {
                                        *slot = (run.outcome.clone(), spec);
                                    }
                                }
                                None => st.violations.push((run.outcome.clone(), spec)),
                            }
                        }
                        if matches!(run.outcome, Outcome::Equal | Outcome::EqualDomainFirstWins) {
                            last_ok = Some(calls.to_vec());
                        } else {
                            // whatever is on disk now is not a known blueprint: start the next case afresh
                            let _ = std::fs::remove_file(&path);
                            last_ok = None;
                        }
                        let deep = model::depth(calls) == 2 && model::size(calls) >= 4;
                        if w == 0
                            && ((st.samples.len() < 4 && model::size(calls) >= 3 && (st.evaluations % 997 == 3))
                                || (deep && st.samples.iter().filter(|s| s["nesting_depth"] == 2).count() < 2 && st.evaluations % 13 == 5))
                        {
                            st.samples.push(json!({
                                "calls": calls,
                                "outcome": run.outcome.label(),
                                "nesting_depth": model::depth(calls),
                                "persisted_components": ncomp,
                                "locations": run.locs.iter().map(|l| format!("{}:{}", l.line, l.column)).collect::<Vec<_>>(),
                            }));
                        }
                    };
                    let mut cur = Vec::new();
                    model::gen_calls(e1, md, Kind::None, &mut cur, &mut |c, _| exec(c, &mut st, true));
                    let mut cur = Vec::new();
                    // E2 cases small enough to be in E1 already are skipped by the distinct count, not here.
                    let mut st2 = Stats::default();
                    model::gen_compound(e2, md, &flat, &chains, &mut cur, &mut |c, _| exec(c, &mut st2, false));
                    st.merge(st2);
                    st
                })
                .unwrap()
        })
        .collect();
    let mut total = Stats::default();
    for h in handles {
        match h.join() {
            Ok(st) => total.merge(st),
            Err(_) => verif_common::machinery_error("a worker thread of the explorer crashed"),
        }
    }
    total
}

pub fn case_json(spec: &Spec) -> Value {
    json!({
        "part": "A",
        "calls": spec.calls,
        "prev": spec.prev,
        "twice": spec.twice,
        "id": format!("{:016x}", hash_case(&spec.calls)),
    })
}

pub fn replay(case: &Value) -> i32 {
    let spec: Spec = serde_json::from_value(case.clone())
        .unwrap_or_else(|e| verif_common::machinery_error(&format!("replay file has no valid part-A case: {e}")));
    if !model::well_typed(&spec.calls, 2) || !spec.prev.as_ref().map(|p| model::well_typed(p, 2)).unwrap_or(true) {
        verif_common::machinery_error("replay case is not a well-typed call tree of depth ≤ 2");
    }
    std::fs::create_dir_all(format!("{WORK_DIR}/persist")).ok();
    let path = PathBuf::from(format!("{WORK_DIR}/persist/replay-{}.ron", std::process::id()));
    let _ = std::fs::remove_file(&path);
    let run = run_spec(&spec, &path);
    println!("case: {}", serde_json::to_string(&spec).unwrap());
    println!("call sites (line:column in {}):", run.locs.first().map(|l| l.file).unwrap_or("?"));
    println!("  {}", run.locs.iter().map(|l| format!("{}:{}", l.line, l.column)).collect::<Vec<_>>().join(" "));
    if let Some(e) = &run.expected {
        println!("expected (reference model):\n{}", ron::ser::to_string_pretty(e, Default::default()).unwrap());
    }
    match &run.observed {
        Some(o) => println!("observed (read back as pavexc_cli does):\n{}", ron::ser::to_string_pretty(o, Default::default()).unwrap()),
        None => println!("observed: <none>"),
    }
    println!("outcome: {} — {}", run.outcome.label(), run.outcome.what());
    let _ = std::fs::remove_file(&path);
    if run.outcome.is_violation() { 1 } else { 0 }
}
