//! Part B: attribute arguments → (real macros) → `#[diagnostic::pavex::*]` → rustdoc JSON →
//! (real `pavexc_annotations::parse_pavex_attributes`, i.e. `pavexc_attr_parser::parse`) →
//! `AnnotationProperties`, compared with what was written in the attribute.
use crate::part_a::WORK_DIR;
use pavex_bp_schema::{CloningPolicy, Lifecycle, MethodGuard};
use pavexc_attr_parser::AnnotationProperties as P;
use serde_json::{Value, json};
use sha2::Digest;
use std::collections::{BTreeMap, BTreeSet};
use std::path::{Path, PathBuf};

pub const REPO_ROOT: &str = env!("RT_BP_REPO_ROOT");
pub const DOCS_TOOLCHAIN: &str = "nightly";

#[derive(Clone, Debug)]
pub struct Item {
    /// Name of the annotated Rust item (unique in the crate).
    pub name: String,
    /// `Some(type name)` if the item is a method in a `#[pavex::methods]` impl block.
    pub container: Option<String>,
    /// The attribute as the user writes it.
    pub attr: String,
    /// Source of the item (attribute included; for methods: the method only).
    pub source: String,
    pub expected: P,
}

fn alpha(mut n: usize) -> String {
    let mut s = String::new();
    for _ in 0..3 {
        s.insert(0, (b'a' + (n % 26) as u8) as char);
        n /= 26;
    }
    s
}

fn upper_camel(snake: &str) -> String {
    snake
        .split('_')
        .map(|w| {
            let mut c = w.chars();
            match c.next() {
                Some(f) => f.to_uppercase().collect::<String>() + c.as_str(),
                None => String::new(),
            }
        })
        .collect()
}

fn join_args(parts: Vec<Option<String>>, rotate: usize) -> String {
    let mut v: Vec<String> = parts.into_iter().flatten().collect();
    if !v.is_empty() {
        let k = rotate % v.len();
        v.rotate_left(k);
    }
    v.join(", ")
}

fn attr(path: &str, args: &str) -> String {
    if args.is_empty() { format!("#[{path}]") } else { format!("#[{path}({args})]") }
}

fn allow_arg(flags: &[&str]) -> Option<String> {
    if flags.is_empty() { None } else { Some(format!("allow({})", flags.join(", "))) }
}

fn flag(b: bool) -> Option<bool> {
    if b { Some(true) } else { None }
}

const STANDARD: [&str; 9] = ["CONNECT", "GET", "POST", "PUT", "DELETE", "PATCH", "HEAD", "OPTIONS", "TRACE"];

fn set(ms: &[&str]) -> MethodGuard {
    MethodGuard::Some(ms.iter().map(|m| m.to_string()).collect::<BTreeSet<_>>())
}

struct Gen {
    items: Vec<Item>,
    n: usize,
}

impl Gen {
    /// (fn name, explicit id or None, expected id)
    fn fn_name(&mut self, stem: &str, explicit_id: bool) -> (String, Option<String>, String) {
        let name = format!("{stem}_{}", alpha(self.n));
        self.n += 1;
        if explicit_id {
            let id = format!("ID_{}_X", name.to_uppercase());
            (name, Some(id.clone()), id)
        } else {
            let id = name.to_uppercase();
            (name, None, id)
        }
    }
    fn ty_name(&mut self, stem: &str, explicit_id: bool) -> (String, Option<String>, String) {
        let (snake, id, exp) = self.fn_name(stem, explicit_id);
        (upper_camel(&snake), id, exp)
    }
    fn push_fn(&mut self, name: &str, attr: String, sig_args: &str, expected: P) {
        let source = format!("{attr}\npub fn {name}({sig_args}) {{}}\n");
        self.items.push(Item { name: name.into(), container: None, attr, source, expected });
    }
}

fn id_arg(id: &Option<String>) -> Option<String> {
    id.as_ref().map(|i| format!("id = \"{i}\""))
}

/// One annotated item per legal combination of attribute arguments.
pub fn items() -> Vec<Item> {
    let mut g = Gen { items: Vec::new(), n: 0 };
    let bools = [false, true];

    // ---- method shorthands: #[pavex::get(path, id?, allow(error_fallback)?)]
    for (mac, method) in
        [("get", "GET"), ("post", "POST"), ("put", "PUT"), ("patch", "PATCH"), ("delete", "DELETE"), ("head", "HEAD"), ("options", "OPTIONS")]
    {
        for path in ["/", "/users/{id}", "/files/{*rest}"] {
            for explicit in bools {
                for ef in bools {
                    let (name, id, exp_id) = g.fn_name(&format!("sh_{mac}"), explicit);
                    let args = join_args(
                        vec![Some(format!("path = \"{path}\"")), id_arg(&id), allow_arg(if ef { &["error_fallback"] } else { &[] })],
                        g.n,
                    );
                    let expected =
                        P::Route { id: exp_id, method: set(&[method]), path: path.into(), allow_error_fallback: flag(ef) };
                    g.push_fn(&name, attr(&format!("pavex::{mac}"), &args), "", expected);
                }
            }
        }
    }

    // ---- #[pavex::route(method?, path, id?, allow(..)?)]
    // (method argument as written, needs allow(non_standard_methods), allow(any_method), expected guard)
    let mut specs: Vec<(Option<String>, bool, bool, MethodGuard)> = Vec::new();
    for m in STANDARD {
        specs.push((Some(format!("method = \"{m}\"")), false, false, set(&[m])));
    }
    let lists: [&[&str]; 6] =
        [&["GET", "HEAD"], &["POST", "GET"], &["GET", "GET"], &["DELETE"], &STANDARD, &["TRACE", "CONNECT", "PATCH"]];
    for l in lists {
        let lit = l.iter().map(|m| format!("\"{m}\"")).collect::<Vec<_>>().join(", ");
        specs.push((Some(format!("method = [{lit}]")), false, false, set(l)));
    }
    specs.push((Some("method = \"QUERY\"".into()), true, false, set(&["QUERY"])));
    specs.push((Some("method = \"get\"".into()), true, false, set(&["get"])));
    specs.push((Some("method = \"M-SEARCH\"".into()), true, false, set(&["M-SEARCH"])));
    specs.push((Some("method = [\"QUERY\", \"PURGE\"]".into()), true, false, set(&["QUERY", "PURGE"])));
    specs.push((Some("method = [\"GET\", \"QUERY\"]".into()), true, false, set(&["GET", "QUERY"])));
    specs.push((Some("method = [\"QUERY\", \"GET\", \"QUERY\"]".into()), true, false, set(&["GET", "QUERY"])));
    // "any_method: Match any HTTP method. It matches non-standard methods if non_standard_methods is also enabled."
    specs.push((None, false, true, set(&STANDARD)));
    specs.push((None, true, true, MethodGuard::Any));
    for (method_arg, non_standard, any, guard) in &specs {
        for path in ["/r", "/r/{a}/{b}"] {
            for explicit in bools {
                for ef in bools {
                    let (name, id, exp_id) = g.fn_name("rt", explicit);
                    let mut allows: Vec<&str> = Vec::new();
                    if *non_standard {
                        allows.push("non_standard_methods");
                    }
                    if *any {
                        allows.push("any_method");
                    }
                    if ef {
                        allows.push("error_fallback");
                    }
                    if g.n % 2 == 1 {
                        allows.reverse();
                    }
                    let args = join_args(
                        vec![method_arg.clone(), Some(format!("path = \"{path}\"")), id_arg(&id), allow_arg(&allows)],
                        g.n,
                    );
                    let expected =
                        P::Route { id: exp_id, method: guard.clone(), path: path.into(), allow_error_fallback: flag(ef) };
                    g.push_fn(&name, attr("pavex::route", &args), "", expected);
                }
            }
        }
    }

    // ---- constructors: #[pavex::singleton|request_scoped|transient(id?, cloning?, allow(..)?)]
    let cloning_opts = [(None, None), (Some("clone_if_necessary"), Some(CloningPolicy::CloneIfNecessary)), (Some("never_clone"), Some(CloningPolicy::NeverClone))];
    for (mac, lifecycle) in
        [("singleton", Lifecycle::Singleton), ("request_scoped", Lifecycle::RequestScoped), ("transient", Lifecycle::Transient)]
    {
        for (clone_flag, policy) in cloning_opts {
            for (unused, ef) in [(false, false), (true, false), (false, true), (true, true)] {
                for explicit in bools {
                    let (name, id, exp_id) = g.fn_name(&format!("ct_{mac}"), explicit);
                    let mut allows: Vec<&str> = Vec::new();
                    if unused {
                        allows.push("unused");
                    }
                    if ef {
                        allows.push("error_fallback");
                    }
                    if g.n % 2 == 1 {
                        allows.reverse();
                    }
                    let args = join_args(vec![id_arg(&id), clone_flag.map(String::from), allow_arg(&allows)], g.n);
                    let expected = P::Constructor {
                        id: exp_id,
                        lifecycle,
                        cloning_policy: policy,
                        allow_unused: flag(unused),
                        allow_error_fallback: flag(ef),
                    };
                    g.push_fn(&name, attr(&format!("pavex::{mac}"), &args), "", expected);
                }
            }
        }
    }

    // ---- prebuilt types: #[pavex::prebuilt(id?, cloning?, allow(unused)?)]
    for (clone_flag, policy) in cloning_opts {
        for unused in bools {
            for explicit in bools {
                let (name, id, exp_id) = g.ty_name("pb", explicit);
                let args =
                    join_args(vec![id_arg(&id), clone_flag.map(String::from), allow_arg(if unused { &["unused"] } else { &[] })], g.n);
                let a = attr("pavex::prebuilt", &args);
                let body = match g.n % 3 {
                    0 => format!("pub struct {name};"),
                    1 => format!("pub enum {name} {{ A, B(u8) }}"),
                    _ => format!("pub struct {name}<T>(pub T);"),
                };
                let source = format!("{a}\n#[derive(Clone)]\n{body}\n");
                let expected = P::Prebuilt { id: exp_id, allow_unused: flag(unused), cloning_policy: policy };
                g.items.push(Item { name, container: None, attr: a, source, expected });
            }
        }
    }
    // a type alias and a re-export
    {
        let (name, _, exp_id) = g.ty_name("pb_alias", false);
        let a = attr("pavex::prebuilt", "never_clone");
        let source = format!("{a}\npub type {name} = std::sync::Arc<u64>;\n");
        let expected = P::Prebuilt { id: exp_id, allow_unused: None, cloning_policy: Some(CloningPolicy::NeverClone) };
        g.items.push(Item { name, container: None, attr: a, source, expected });
        let (name, id, exp_id) = g.ty_name("pb_reexport", true);
        let a = attr("pavex::prebuilt", &join_args(vec![id_arg(&id), Some("clone_if_necessary".into())], 0));
        let source = format!("{a}\npub use std::string::String as {name};\n");
        let expected = P::Prebuilt { id: exp_id, allow_unused: None, cloning_policy: Some(CloningPolicy::CloneIfNecessary) };
        g.items.push(Item { name, container: None, attr: a, source, expected });
    }

    // ---- config types: #[pavex::config(key, id?, cloning?, default_if_missing?, include_if_unused?)]
    let keys = ["server", "db_pool", "a1_b2", "x"];
    for (clone_flag, policy) in cloning_opts {
        for dim in bools {
            for iiu in bools {
                for explicit in bools {
                    let (name, id, exp_id) = g.ty_name("cfg", explicit);
                    let key = keys[g.n % keys.len()];
                    let args = join_args(
                        vec![
                            Some(format!("key = \"{key}\"")),
                            id_arg(&id),
                            clone_flag.map(String::from),
                            dim.then(|| "default_if_missing".to_string()),
                            iiu.then(|| "include_if_unused".to_string()),
                        ],
                        g.n,
                    );
                    let a = attr("pavex::config", &args);
                    let source = format!("{a}\n#[derive(Clone, Default)]\npub struct {name} {{ pub v: u8 }}\n");
                    let expected = P::Config {
                        id: exp_id,
                        key: key.into(),
                        cloning_policy: policy,
                        default_if_missing: flag(dim),
                        include_if_unused: flag(iiu),
                    };
                    g.items.push(Item { name, container: None, attr: a, source, expected });
                }
            }
        }
    }

    // ---- middlewares: #[pavex::wrap|pre_process|post_process(id?, allow(error_fallback)?)]
    for mac in ["wrap", "pre_process", "post_process"] {
        for explicit in bools {
            for ef in bools {
                let (name, id, exp_id) = g.fn_name(&format!("mw_{mac}"), explicit);
                let args = join_args(vec![id_arg(&id), allow_arg(if ef { &["error_fallback"] } else { &[] })], g.n);
                let expected = match mac {
                    "wrap" => P::WrappingMiddleware { id: exp_id, allow_error_fallback: flag(ef) },
                    "pre_process" => P::PreProcessingMiddleware { id: exp_id, allow_error_fallback: flag(ef) },
                    _ => P::PostProcessingMiddleware { id: exp_id, allow_error_fallback: flag(ef) },
                };
                g.push_fn(&name, attr(&format!("pavex::{mac}"), &args), "", expected);
            }
        }
    }

    // ---- error observers
    for explicit in bools {
        let (name, id, exp_id) = g.fn_name("obs", explicit);
        g.push_fn(&name, attr("pavex::error_observer", &join_args(vec![id_arg(&id)], 0)), "_e: &pavex::Error", P::ErrorObserver { id: exp_id });
    }

    // ---- error handlers: #[pavex::error_handler(id?, default = bool?)] × position of the error reference
    for default in [None, Some(true), Some(false)] {
        for explicit in bools {
            for (sig, idx) in [
                ("_e: &pavex::Error", 0usize),
                ("#[px(error_ref)] _e: &pavex::Error, _x: u8", 0),
                ("_x: u8, #[px(error_ref)] _e: &pavex::Error, _y: u16", 1),
            ] {
                let (name, id, exp_id) = g.fn_name("eh", explicit);
                let args = join_args(vec![id_arg(&id), default.map(|d| format!("default = {d}"))], g.n);
                let expected = P::ErrorHandler { id: exp_id, error_ref_input_index: idx, default };
                g.push_fn(&name, attr("pavex::error_handler", &args), sig, expected);
            }
        }
    }

    // ---- fallbacks
    for explicit in bools {
        for ef in bools {
            let (name, id, exp_id) = g.fn_name("fb", explicit);
            let args = join_args(vec![id_arg(&id), allow_arg(if ef { &["error_fallback"] } else { &[] })], g.n);
            g.push_fn(&name, attr("pavex::fallback", &args), "", P::Fallback { id: exp_id, allow_error_fallback: flag(ef) });
        }
    }

    // ---- methods inside `#[pavex::methods]` impl blocks (short and `pavex::`-qualified helper attributes)
    let method_specs: Vec<(&str, &str, &str, Box<dyn Fn(String) -> P>)> = vec![
        ("singleton", "", "", Box::new(|id| P::Constructor { id, lifecycle: Lifecycle::Singleton, cloning_policy: None, allow_unused: None, allow_error_fallback: None })),
        ("request_scoped", "clone_if_necessary, allow(unused)", "", Box::new(|id| P::Constructor { id, lifecycle: Lifecycle::RequestScoped, cloning_policy: Some(CloningPolicy::CloneIfNecessary), allow_unused: Some(true), allow_error_fallback: None })),
        ("transient", "never_clone", "&self", Box::new(|id| P::Constructor { id, lifecycle: Lifecycle::Transient, cloning_policy: Some(CloningPolicy::NeverClone), allow_unused: None, allow_error_fallback: None })),
        ("get", "path = \"/m/{id}\"", "&self", Box::new(|id| P::Route { id, method: set(&["GET"]), path: "/m/{id}".into(), allow_error_fallback: None })),
        ("delete", "path = \"/m\", allow(error_fallback)", "", Box::new(|id| P::Route { id, method: set(&["DELETE"]), path: "/m".into(), allow_error_fallback: Some(true) })),
        ("route", "method = [\"PUT\", \"PATCH\"], path = \"/m2\"", "", Box::new(|id| P::Route { id, method: set(&["PUT", "PATCH"]), path: "/m2".into(), allow_error_fallback: None })),
        ("route", "path = \"/m3\", allow(any_method, non_standard_methods)", "", Box::new(|id| P::Route { id, method: MethodGuard::Any, path: "/m3".into(), allow_error_fallback: None })),
        ("error_handler", "default = false", "&self, #[px(error_ref)] _e: &pavex::Error", Box::new(|id| P::ErrorHandler { id, error_ref_input_index: 1, default: Some(false) })),
        ("error_handler", "", "_e: &pavex::Error", Box::new(|id| P::ErrorHandler { id, error_ref_input_index: 0, default: None })),
        ("fallback", "", "", Box::new(|id| P::Fallback { id, allow_error_fallback: None })),
        ("wrap", "allow(error_fallback)", "", Box::new(|id| P::WrappingMiddleware { id, allow_error_fallback: Some(true) })),
        ("pre_process", "", "", Box::new(|id| P::PreProcessingMiddleware { id, allow_error_fallback: None })),
        ("post_process", "", "", Box::new(|id| P::PostProcessingMiddleware { id, allow_error_fallback: None })),
        ("error_observer", "", "_e: &pavex::Error", Box::new(|id| P::ErrorObserver { id })),
    ];
    for (i, (mac, args, sig, mk)) in method_specs.iter().enumerate() {
        for qualified in bools {
            for explicit in bools {
                let ty = upper_camel(&format!("holder_{}", alpha(g.n)));
                let (method, id, _) = g.fn_name("meth", explicit);
                // Default id for methods: `<TypeName>_<method>` in UPPER_SNAKE_CASE.
                let exp_id = id.clone().unwrap_or_else(|| format!("HOLDER_{}_{}", ty["Holder".len()..].to_uppercase(), method.to_uppercase()));
                let all = join_args(vec![(!args.is_empty()).then(|| args.to_string()), id_arg(&id)], i);
                let a = attr(&if qualified { format!("pavex::{mac}") } else { mac.to_string() }, &all);
                let source = format!("    {a}\n    pub fn {method}({sig}) {{}}\n");
                g.items.push(Item { name: method, container: Some(ty), attr: a, source, expected: mk(exp_id) });
            }
        }
    }
    g.items
}

/// (item name, attribute) — undocumented-but-accepted arguments.
pub fn probes() -> Vec<(&'static str, &'static str)> {
    vec![("probe_shorthand_error_handler", "#[pavex::get(path = \"/probe\", error_handler = \"crate::probe_handler\")]")]
}

/// `src/lib.rs` of the scratch crate.
pub fn render_crate(items: &[Item], with_probes: bool) -> String {
    let mut out = String::from(
        "//! @generated by /verif/engines/rt_bp (property C19, part B). One annotated item per legal\n//! combination of attribute arguments.\n#![allow(dead_code, unused_variables, clippy::all)]\n\n",
    );
    for it in items.iter().filter(|i| i.container.is_none()) {
        out.push_str(&it.source);
        out.push('\n');
    }
    for it in items.iter().filter(|i| i.container.is_some()) {
        let ty = it.container.as_ref().unwrap();
        out.push_str(&format!("pub struct {ty};\n\n#[pavex::methods]\nimpl {ty} {{\n{}}}\n\n", it.source));
    }
    // Probes: arguments the macros accept although the reference docs ("exhaustive list of all the
    // arguments") do not list them. Reported in the evidence as observations, never as violations.
    for (name, attr) in probes().into_iter().filter(|_| with_probes) {
        out.push_str(&format!("{attr}\npub fn {name}() {{}}\n\n"));
    }
    // A few items without any Pavex attribute: the compiler must see nothing on them.
    out.push_str("#[inline]\npub fn plain_function() {}\n\n#[derive(Clone, Debug, Default)]\n#[non_exhaustive]\npub struct PlainStruct { pub a: u8 }\n\n#[doc(hidden)]\npub mod plain_module { pub const X: u8 = 1; }\n");
    out
}

pub fn render_manifest() -> String {
    format!(
        "[package]\nname = \"attr_crate\"\nversion = \"0.1.0\"\nedition = \"2024\"\n\n[lib]\npath = \"src/lib.rs\"\n\n[dependencies]\npavex = {{ path = \"{REPO_ROOT}/runtime/pavex\" }}\n\n[workspace]\n"
    )
}

fn hash_dir(h: &mut sha2::Sha256, dir: &Path) {
    let mut entries: Vec<PathBuf> = match std::fs::read_dir(dir) {
        Ok(rd) => rd.filter_map(|e| e.ok().map(|e| e.path())).collect(),
        Err(e) => verif_common::machinery_error(&format!("cannot list {}: {e}", dir.display())),
    };
    entries.sort();
    for p in entries {
        if p.is_dir() {
            hash_dir(h, &p);
        } else {
            h.update(p.to_string_lossy().as_bytes());
            h.update(std::fs::read(&p).unwrap_or_default());
        }
    }
}

pub struct Docs {
    pub krate: rustdoc_types::Crate,
    pub cache_hit: bool,
    pub cache_key: String,
    pub rustdoc_wall_s: f64,
    pub json_path: PathBuf,
    pub probes_rejected_at_compile_time: Option<String>,
}

/// Document the scratch crate the way pavexc does (`cargo rustdoc … --output-format json
/// -- --document-private-items --document-hidden-items` on the docs toolchain), with a cache keyed
/// by everything that can influence the emitted attributes.
pub fn ensure_docs(items: &[Item]) -> Docs {
    // The probes use arguments outside the documented set: if the macros (rightly) reject them at
    // compile time, document the crate without them.
    match try_docs(items, true) {
        Ok(d) => d,
        Err(with_probes_error) => match try_docs(items, false) {
            Ok(mut d) => {
                d.probes_rejected_at_compile_time = Some(with_probes_error);
                d
            }
            // The generated crate only uses documented argument combinations: if the real macros reject
            // one of them, that is either a harness bug or a macro regression; never a silent pass.
            Err(e) => verif_common::machinery_error(&e),
        },
    }
}

fn try_docs(items: &[Item], with_probes: bool) -> Result<Docs, String> {
    let lib = render_crate(items, with_probes);
    let manifest = render_manifest();
    let toolchain_version = std::process::Command::new("rustup")
        .args(["run", DOCS_TOOLCHAIN, "rustc", "-V"])
        .output()
        .map(|o| String::from_utf8_lossy(&o.stdout).to_string())
        .unwrap_or_default();
    if toolchain_version.trim().is_empty() {
        verif_common::machinery_error(&format!("docs toolchain `{DOCS_TOOLCHAIN}` is not available"));
    }
    let mut h = sha2::Sha256::new();
    h.update(lib.as_bytes());
    h.update(manifest.as_bytes());
    h.update(toolchain_version.as_bytes());
    hash_dir(&mut h, Path::new(&format!("{REPO_ROOT}/runtime/pavex_macros/src")));
    hash_dir(&mut h, Path::new(&format!("{REPO_ROOT}/compiler/pavexc_attr_parser/src")));
    h.update(std::fs::read(format!("{REPO_ROOT}/runtime/pavex_macros/Cargo.toml")).unwrap_or_default());
    let key: String = h.finalize().iter().take(12).map(|b| format!("{b:02x}")).collect();

    let cache_dir = format!("{WORK_DIR}/attr_cache");
    std::fs::create_dir_all(&cache_dir).ok();
    let cached = PathBuf::from(format!("{cache_dir}/{key}.json"));
    let mut wall = 0.0;
    let cache_hit = cached.exists();
    if !cache_hit {
        // (a separate directory when built against a scratch copy of /repo, i.e. for mutants)
        let crate_dir = if REPO_ROOT == "/repo" {
            format!("{WORK_DIR}/attr_crate")
        } else {
            format!("{WORK_DIR}/attr_crate-{}", REPO_ROOT.replace('/', "_"))
        };
        std::fs::create_dir_all(format!("{crate_dir}/src")).ok();
        let write = |p: String, c: &[u8]| {
            if std::fs::read(&p).ok().as_deref() != Some(c) {
                std::fs::write(&p, c).unwrap_or_else(|e| verif_common::machinery_error(&format!("cannot write {p}: {e}")));
            }
        };
        write(format!("{crate_dir}/src/lib.rs"), lib.as_bytes());
        write(format!("{crate_dir}/Cargo.toml"), manifest.as_bytes());
        // Same dependency versions as /repo.
        let lock = std::fs::read(format!("{REPO_ROOT}/Cargo.lock"))
            .unwrap_or_else(|e| verif_common::machinery_error(&format!("cannot read {REPO_ROOT}/Cargo.lock: {e}")));
        std::fs::write(format!("{crate_dir}/Cargo.lock"), lock).ok();
        let target_dir = format!("{WORK_DIR}/attr_target");
        let started = std::time::Instant::now();
        let mut cmd = std::process::Command::new("rustup");
        cmd.current_dir(&crate_dir)
            .args(["run", DOCS_TOOLCHAIN, "cargo", "rustdoc", "-q", "--offline", "--lib"])
            .args(["--target-dir", &target_dir])
            .args(["-Zunstable-options", "--output-format", "json", "--"])
            .args(["--document-private-items", "--document-hidden-items"]);
        for v in ["RUSTUP_TOOLCHAIN", "CARGO_TARGET_DIR", "CARGO_BUILD_TARGET_DIR", "RUSTFLAGS", "RUSTDOCFLAGS", "CARGO_ENCODED_RUSTFLAGS", "RUSTC", "RUSTDOC", "RUSTC_WRAPPER"] {
            cmd.env_remove(v);
        }
        let out = cmd.output().unwrap_or_else(|e| verif_common::machinery_error(&format!("cannot run cargo rustdoc: {e}")));
        wall = started.elapsed().as_secs_f64();
        if !out.status.success() {
            let stderr = String::from_utf8_lossy(&out.stderr);
            let tail: String = stderr.lines().rev().take(40).collect::<Vec<_>>().into_iter().rev().collect::<Vec<_>>().join("\n");
            return Err(format!("`cargo rustdoc` failed on the generated attribute crate ({crate_dir}):\n{tail}"));
        }
        let produced = format!("{target_dir}/doc/attr_crate.json");
        std::fs::copy(&produced, &cached)
            .unwrap_or_else(|e| verif_common::machinery_error(&format!("rustdoc JSON not found at {produced}: {e}")));
    }
    let file = std::fs::File::open(&cached).unwrap_or_else(|e| verif_common::machinery_error(&format!("cannot open {}: {e}", cached.display())));
    let mut de = serde_json::Deserializer::from_reader(std::io::BufReader::new(file));
    de.disable_recursion_limit();
    let krate: rustdoc_types::Crate = serde::Deserialize::deserialize(&mut de).unwrap_or_else(|e| {
        let _ = std::fs::remove_file(&cached);
        verif_common::machinery_error(&format!("rustdoc JSON does not deserialize into /repo's rustdoc_types::Crate (format_version {}): {e}", rustdoc_types::FORMAT_VERSION))
    });
    if krate.format_version != rustdoc_types::FORMAT_VERSION {
        verif_common::machinery_error(&format!("rustdoc JSON format_version {} != {}", krate.format_version, rustdoc_types::FORMAT_VERSION));
    }
    Ok(Docs { krate, cache_hit, cache_key: key, rustdoc_wall_s: wall, json_path: cached, probes_rejected_at_compile_time: None })
}

/// `None ≡ Some(false)` for the boolean flags: pavexc only ever tests them for `Some(true)`
/// (`if let Some(true) = allow_unused`, `include_if_unused.unwrap_or(false)`,
/// `default_if_missing: None => Required`). `ErrorHandler::default` is compared exactly.
pub fn normalize(p: &P) -> P {
    let n = |b: &Option<bool>| if *b == Some(true) { Some(true) } else { None };
    match p.clone() {
        P::Constructor { id, lifecycle, cloning_policy, allow_unused, allow_error_fallback } => {
            P::Constructor { id, lifecycle, cloning_policy, allow_unused: n(&allow_unused), allow_error_fallback: n(&allow_error_fallback) }
        }
        P::Prebuilt { id, allow_unused, cloning_policy } => P::Prebuilt { id, allow_unused: n(&allow_unused), cloning_policy },
        P::Config { id, key, cloning_policy, default_if_missing, include_if_unused } => {
            P::Config { id, key, cloning_policy, default_if_missing: n(&default_if_missing), include_if_unused: n(&include_if_unused) }
        }
        P::WrappingMiddleware { id, allow_error_fallback } => P::WrappingMiddleware { id, allow_error_fallback: n(&allow_error_fallback) },
        P::PreProcessingMiddleware { id, allow_error_fallback } => P::PreProcessingMiddleware { id, allow_error_fallback: n(&allow_error_fallback) },
        P::PostProcessingMiddleware { id, allow_error_fallback } => P::PostProcessingMiddleware { id, allow_error_fallback: n(&allow_error_fallback) },
        P::Route { id, method, path, allow_error_fallback } => P::Route { id, method, path, allow_error_fallback: n(&allow_error_fallback) },
        P::Fallback { id, allow_error_fallback } => P::Fallback { id, allow_error_fallback: n(&allow_error_fallback) },
        other => other,
    }
}

#[derive(Debug, Clone)]
pub enum AttrOutcome {
    Exact,
    EqualModuloFlagNormalisation,
    Differs { field: String, expected: String, observed: String },
    ParseError(String),
    NotSeen,
    ItemMissingFromDocs,
}

impl AttrOutcome {
    pub fn label(&self) -> &'static str {
        match self {
            AttrOutcome::Exact => "exact",
            AttrOutcome::EqualModuloFlagNormalisation => "equal_modulo_none_vs_some_false",
            AttrOutcome::Differs { .. } => "differs",
            AttrOutcome::ParseError(_) => "parse_error",
            AttrOutcome::NotSeen => "attribute_not_seen",
            AttrOutcome::ItemMissingFromDocs => "item_missing_from_docs",
        }
    }
    pub fn is_violation(&self) -> bool {
        !matches!(self, AttrOutcome::Exact | AttrOutcome::EqualModuloFlagNormalisation)
    }
}

fn kind_name(p: &P) -> String {
    p.kind().to_string()
}

pub fn item_name(item: &rustdoc_types::Item) -> Option<String> {
    match &item.inner {
        rustdoc_types::ItemEnum::Use(u) => Some(u.name.clone()),
        _ => item.name.clone(),
    }
}

pub fn raw_attrs(item: &rustdoc_types::Item) -> Vec<String> {
    item.attrs
        .iter()
        .map(|a| match a {
            rustdoc_types::Attribute::Other(s) => s.clone(),
            other => format!("{other:?}"),
        })
        .collect()
}

pub fn judge(expected: &P, item: Option<&rustdoc_types::Item>) -> AttrOutcome {
    let Some(item) = item else { return AttrOutcome::ItemMissingFromDocs };
    // The real entry point used by pavexc's indexer and annotation queue.
    let parsed = std::panic::catch_unwind(|| pavexc_annotations::parse_pavex_attributes(&item.attrs));
    match parsed {
        Err(_) => AttrOutcome::ParseError("the attribute parser panicked".into()),
        Ok(Err(e)) => AttrOutcome::ParseError(e.to_string()),
        Ok(Ok(None)) => AttrOutcome::NotSeen,
        Ok(Ok(Some(p))) => {
            if &p == expected {
                AttrOutcome::Exact
            } else if normalize(&p) == normalize(expected) {
                AttrOutcome::EqualModuloFlagNormalisation
            } else {
                let ev = serde_json::to_value(normalize(expected)).unwrap();
                let ov = serde_json::to_value(normalize(&p)).unwrap();
                // JSON shape: {"<Variant>": {"<field>": …}} — the key names the field, not what is inside it.
                let (concrete, _, _, _) = crate::model::first_diff(&ev, &ov).unwrap_or_default();
                let field = concrete.split('.').nth(1).unwrap_or("kind").to_string();
                let get = |v: &Value| {
                    v.as_object()
                        .and_then(|m| m.values().next())
                        .and_then(|inner| inner.get(&field))
                        .map(|x| x.to_string())
                        .unwrap_or_else(|| v.to_string())
                };
                AttrOutcome::Differs { expected: get(&ev), observed: get(&ov), field }
            }
        }
    }
}

pub fn key_for(expected: &P, o: &AttrOutcome) -> String {
    match o {
        AttrOutcome::Differs { field, .. } => format!("attr:{}:{field}", kind_name(expected)),
        other => format!("attr:{}:{}", kind_name(expected), other.label()),
    }
}

pub struct BOutcome {
    pub evaluations: u64,
    pub histogram: BTreeMap<String, u64>,
    pub by_kind: BTreeMap<String, u64>,
    pub unannotated_checked: u64,
    pub violations: Vec<(String, String, Value)>,
    pub samples: Vec<Value>,
    pub docs_cache_hit: bool,
    pub docs_cache_key: String,
    pub rustdoc_wall_s: f64,
    pub distinct_expected: usize,
    pub probes: Vec<Value>,
}

fn index_items(krate: &rustdoc_types::Crate) -> (BTreeMap<String, Vec<&rustdoc_types::Item>>, BTreeMap<(String, String), &rustdoc_types::Item>) {
    // top-level items by name; methods by (self type name, method name)
    let mut by_name: BTreeMap<String, Vec<&rustdoc_types::Item>> = BTreeMap::new();
    let mut methods = BTreeMap::new();
    for item in krate.index.values() {
        if item.crate_id != 0 {
            continue;
        }
        if let Some(n) = item_name(item) {
            by_name.entry(n).or_default().push(item);
        }
        if let rustdoc_types::ItemEnum::Impl(imp) = &item.inner {
            if imp.trait_.is_some() {
                continue;
            }
            let rustdoc_types::Type::ResolvedPath(p) = &imp.for_ else { continue };
            let ty = p.path.rsplit("::").next().unwrap_or(&p.path).to_string();
            for id in &imp.items {
                if let Some(m) = krate.index.get(id) {
                    if let Some(n) = &m.name {
                        methods.insert((ty.clone(), n.clone()), m);
                    }
                }
            }
        }
    }
    (by_name, methods)
}

fn find<'a>(
    it: &Item,
    by_name: &BTreeMap<String, Vec<&'a rustdoc_types::Item>>,
    methods: &BTreeMap<(String, String), &'a rustdoc_types::Item>,
) -> Option<&'a rustdoc_types::Item> {
    match &it.container {
        Some(ty) => methods.get(&(ty.clone(), it.name.clone())).copied(),
        None => {
            let v = by_name.get(&it.name)?;
            // the annotated item, not the constant the macro generates (different name anyway)
            v.iter().copied().find(|i| {
                matches!(
                    i.inner,
                    rustdoc_types::ItemEnum::Function(_)
                        | rustdoc_types::ItemEnum::Struct(_)
                        | rustdoc_types::ItemEnum::Enum(_)
                        | rustdoc_types::ItemEnum::TypeAlias(_)
                        | rustdoc_types::ItemEnum::Use(_)
                )
            })
        }
    }
}

pub fn case_json(it: &Item, observed_attrs: &[String], o: &AttrOutcome) -> Value {
    json!({
        "part": "B",
        "item": it.name,
        "container": it.container,
        "attribute_as_written": it.attr,
        "source": it.source,
        "expected": format!("{:?}", it.expected),
        "attrs_in_rustdoc_json": observed_attrs,
        "outcome": format!("{o:?}"),
    })
}

pub fn check() -> BOutcome {
    let items = items();
    {
        let mut names = BTreeSet::new();
        for it in &items {
            if !names.insert((it.container.clone(), it.name.clone())) {
                verif_common::machinery_error(&format!("duplicate generated item {}", it.name));
            }
        }
    }
    let docs = ensure_docs(&items);
    let (by_name, methods) = index_items(&docs.krate);
    let mut out = BOutcome {
        evaluations: 0,
        histogram: BTreeMap::new(),
        by_kind: BTreeMap::new(),
        unannotated_checked: 0,
        violations: Vec::new(),
        samples: Vec::new(),
        docs_cache_hit: docs.cache_hit,
        docs_cache_key: docs.cache_key.clone(),
        rustdoc_wall_s: docs.rustdoc_wall_s,
        distinct_expected: items.iter().map(|i| format!("{:?}", i.expected)).collect::<BTreeSet<_>>().len(),
        probes: Vec::new(),
    };
    let mut annotated_ids = BTreeSet::new();
    for (n, it) in items.iter().enumerate() {
        let found = find(it, &by_name, &methods);
        if let Some(f) = found {
            annotated_ids.insert(f.id);
        }
        let o = judge(&it.expected, found);
        out.evaluations += 1;
        *out.histogram.entry(o.label().to_string()).or_default() += 1;
        *out.by_kind.entry(kind_name(&it.expected)).or_default() += 1;
        let attrs = found.map(raw_attrs).unwrap_or_default();
        if n % 41 == 0 && out.samples.len() < 12 {
            out.samples.push(json!({
                "attribute_as_written": it.attr,
                "item": it.name,
                "attrs_in_rustdoc_json": attrs,
                "parsed_as_expected": format!("{:?}", it.expected),
                "outcome": o.label(),
            }));
        }
        if o.is_violation() {
            // determinism: judge again
            let o2 = judge(&it.expected, found);
            if o2.label() != o.label() {
                verif_common::machinery_error(&format!("nondeterministic attribute verdict for {}", it.name));
            }
            let what = match &o {
                AttrOutcome::Differs { field, expected, observed } => format!(
                    "`{}` on `{}`: the compiler sees {field} = {observed}, the attribute says {expected}",
                    it.attr, it.name
                ),
                AttrOutcome::ParseError(e) => format!("`{}` on `{}`: what the macro emitted is rejected by the compiler's attribute parser: {e}", it.attr, it.name),
                other => format!("`{}` on `{}`: {}", it.attr, it.name, other.label()),
            };
            out.violations.push((key_for(&it.expected, &o), what, case_json(it, &attrs, &o)));
        }
    }
    if let Some(e) = &docs.probes_rejected_at_compile_time {
        let last = e.lines().find(|l| l.trim_start().starts_with("error")).unwrap_or("");
        out.probes.push(json!({
            "undocumented_attributes": probes().iter().map(|p| p.1).collect::<Vec<_>>(),
            "rejected_by_the_macros_at_compile_time": last,
        }));
    }
    for (name, attr) in probes().into_iter().filter(|_| docs.probes_rejected_at_compile_time.is_none()) {
        let found = by_name.get(name).and_then(|v| v.iter().copied().find(|i| matches!(i.inner, rustdoc_types::ItemEnum::Function(_))));
        if let Some(f) = found {
            annotated_ids.insert(f.id);
        }
        let seen = found.map(|f| match pavexc_annotations::parse_pavex_attributes(&f.attrs) {
            Ok(p) => format!("Ok({p:?})"),
            Err(e) => format!("Err({e})"),
        });
        out.probes.push(json!({
            "undocumented_but_accepted_attribute": attr,
            "attrs_in_rustdoc_json": found.map(raw_attrs),
            "compiler_side_parse_result": seen,
        }));
    }
    // Everything else in the crate must carry no Pavex annotation, except impl blocks (`methods`).
    for item in docs.krate.index.values() {
        if item.crate_id != 0 || annotated_ids.contains(&item.id) {
            continue;
        }
        out.unannotated_checked += 1;
        let parsed = pavexc_annotations::parse_pavex_attributes(&item.attrs);
        let ok = match (&item.inner, &parsed) {
            (_, Ok(None)) => true,
            (rustdoc_types::ItemEnum::Impl(_), Ok(Some(P::Methods))) => true,
            _ => false,
        };
        *out.histogram.entry(if ok { "unannotated_item_clean".into() } else { "unannotated_item_has_annotation".into() }).or_default() += 1;
        if !ok {
            out.violations.push((
                "attr:spurious-annotation".into(),
                format!("item {:?} carries no Pavex attribute in the source but the compiler sees {parsed:?}", item.name),
                json!({"part": "B", "item": item.name, "attrs_in_rustdoc_json": raw_attrs(item)}),
            ));
        }
    }
    out
}

pub fn replay(case: &Value) -> i32 {
    let items = items();
    let name = case["item"].as_str().unwrap_or_default();
    let container = case["container"].as_str().map(String::from);
    let Some(it) = items.iter().find(|i| i.name == name && i.container == container) else {
        // spurious-annotation cases name an item that is not in the table
        let docs = ensure_docs(&items);
        for item in docs.krate.index.values() {
            if item.crate_id == 0 && item.name.as_deref() == Some(name) {
                let parsed = pavexc_annotations::parse_pavex_attributes(&item.attrs);
                println!("item {name}: attrs {:?} → {parsed:?}", raw_attrs(item));
                return if matches!(parsed, Ok(None)) { 0 } else { 1 };
            }
        }
        verif_common::machinery_error(&format!("replay: no generated item named {name}"));
    };
    let docs = ensure_docs(&items);
    let (by_name, methods) = index_items(&docs.krate);
    let found = find(it, &by_name, &methods);
    let o = judge(&it.expected, found);
    println!("item: {}{}", it.container.as_ref().map(|c| format!("{c}::")).unwrap_or_default(), it.name);
    println!("source:\n{}", it.source);
    println!("rustdoc JSON: {} (cache {})", docs.json_path.display(), if docs.cache_hit { "hit" } else { "miss" });
    println!("attrs in rustdoc JSON: {:?}", found.map(raw_attrs).unwrap_or_default());
    println!("expected: {:?}", it.expected);
    println!("observed: {:?}", found.map(|f| pavexc_annotations::parse_pavex_attributes(&f.attrs)));
    println!("outcome: {o:?}");
    if o.is_violation() { 1 } else { 0 }
}
