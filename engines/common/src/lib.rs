//! Shared plumbing for every engine: argument parsing, evidence files, violation / known-finding
//! reporting and replay artefacts. Conventions are fixed in /verif/DESIGN.md §2.3.
//!
//! Exit codes: 0 = property held on everything explored (known findings allowed),
//! 1 = at least one violation not listed in /verif/known_findings.json,
//! 2 = machinery error (never a verdict).
use serde_json::{Value, json};
use sha2::{Digest, Sha256};
use std::collections::BTreeSet;
use std::path::PathBuf;
use std::time::Instant;

pub const VERIF_ROOT: &str = "/verif";

#[derive(Debug, Clone, Copy, PartialEq, Eq)]
pub enum Tier {
    Quick,
    Thorough,
}

impl Tier {
    pub fn as_str(&self) -> &'static str {
        match self {
            Tier::Quick => "quick",
            Tier::Thorough => "thorough",
        }
    }
    pub fn is_thorough(&self) -> bool {
        matches!(self, Tier::Thorough)
    }
}

#[derive(Debug, Clone)]
pub struct Args {
    pub property: String,
    pub tier: Tier,
    pub seed: i64,
    pub replay: Option<PathBuf>,
    /// Extra `--key value` pairs, engine specific.
    pub extra: Vec<(String, String)>,
}

impl Args {
    /// `--property Cxx --tier quick|thorough [--replay path] [--key value]*`
    /// Seed comes from `VERIF_SEED` (only ever used to permute enumeration order).
    pub fn parse() -> Args {
        let mut property = String::new();
        let mut tier = match std::env::var("VERIF_TIER").ok().as_deref() {
            Some("thorough") => Tier::Thorough,
            _ => Tier::Quick,
        };
        let mut replay = None;
        let mut extra = Vec::new();
        let argv: Vec<String> = std::env::args().skip(1).collect();
        let mut i = 0;
        while i < argv.len() {
            let k = argv[i].as_str();
            let v = argv.get(i + 1).cloned();
            match k {
                "--property" => property = v.clone().unwrap_or_else(|| machinery_error("--property needs a value")),
                "--tier" => {
                    tier = match v.as_deref() {
                        Some("quick") => Tier::Quick,
                        Some("thorough") => Tier::Thorough,
                        _ => machinery_error("--tier quick|thorough"),
                    }
                }
                "--replay" => replay = Some(PathBuf::from(v.clone().unwrap_or_else(|| machinery_error("--replay needs a path")))),
                other if other.starts_with("--") => {
                    extra.push((other[2..].to_string(), v.clone().unwrap_or_default()));
                }
                other => machinery_error(&format!("unexpected argument {other}")),
            }
            i += 2;
        }
        let seed = std::env::var("VERIF_SEED")
            .ok()
            .and_then(|s| s.parse::<i64>().ok())
            .unwrap_or(0);
        Args {
            property,
            tier,
            seed,
            replay,
            extra,
        }
    }
    pub fn extra(&self, key: &str) -> Option<&str> {
        self.extra
            .iter()
            .find(|(k, _)| k == key)
            .map(|(_, v)| v.as_str())
    }
}

pub fn machinery_error(msg: &str) -> ! {
    println!("MACHINERY-ERROR {msg}");
    eprintln!("MACHINERY-ERROR {msg}");
    std::process::exit(2)
}

/// One recorded violation.
#[derive(Debug, Clone)]
pub struct Violation {
    /// Canonical key of the failing case, used to match /verif/known_findings.json.
    pub key: String,
    pub what: String,
    pub replay_path: PathBuf,
    pub known: bool,
}

/// Collects violations for one property, writes replay files, prints the interface lines and
/// finally the evidence file.
pub struct Reporter {
    pub property: String,
    pub tier: Tier,
    pub seed: i64,
    started: Instant,
    known_keys: BTreeSet<String>,
    pub violations: Vec<Violation>,
    seen_keys: BTreeSet<String>,
    /// do not write more than this many replay files per run (all are still counted)
    pub max_replay_files: usize,
    pub suppressed: usize,
}

impl Reporter {
    pub fn new(property: &str, tier: Tier, seed: i64) -> Reporter {
        let mut known_keys = BTreeSet::new();
        let p = format!("{VERIF_ROOT}/known_findings.json");
        if let Ok(s) = std::fs::read_to_string(&p) {
            let v: Value = serde_json::from_str(&s)
                .unwrap_or_else(|e| machinery_error(&format!("known_findings.json unreadable: {e}")));
            if let Some(arr) = v.get("findings").and_then(|f| f.as_array()) {
                for f in arr {
                    if f.get("property").and_then(|p| p.as_str()) == Some(property)
                        && let Some(k) = f.get("key").and_then(|k| k.as_str())
                    {
                        known_keys.insert(k.to_string());
                    }
                }
            }
        }
        Reporter {
            property: property.to_string(),
            tier,
            seed,
            started: Instant::now(),
            known_keys,
            violations: Vec::new(),
            seen_keys: BTreeSet::new(),
            max_replay_files: 20,
            suppressed: 0,
        }
    }

    pub fn from_args(args: &Args) -> Reporter {
        Reporter::new(&args.property, args.tier, args.seed)
    }

    pub fn is_known(&self, key: &str) -> bool {
        self.known_keys.contains(key)
    }

    /// Record a violation. `key` identifies the failing case canonically; `replay` is the
    /// self-contained artefact (`--replay <file>` re-executes exactly this case).
    /// Violations with a key already reported in this run are counted but not re-printed.
    pub fn violation(&mut self, key: &str, what: &str, replay: Value) {
        let known = self.known_keys.contains(key);
        if !self.seen_keys.insert(key.to_string()) {
            self.suppressed += 1;
            return;
        }
        let mut h = Sha256::new();
        h.update(key.as_bytes());
        let digest = h.finalize();
        let short: String = digest.iter().take(6).map(|b| format!("{b:02x}")).collect();
        let dir = PathBuf::from(format!("{VERIF_ROOT}/replays/{}", self.property));
        let path = dir.join(format!("{short}.json"));
        if self.violations.len() < self.max_replay_files {
            let _ = std::fs::create_dir_all(&dir);
            let doc = json!({
                "property": self.property,
                "key": key,
                "what": what,
                "case": replay,
            });
            if let Err(e) = std::fs::write(&path, serde_json::to_string_pretty(&doc).unwrap()) {
                machinery_error(&format!("cannot write replay file {}: {e}", path.display()));
            }
        }
        if known {
            println!("KNOWN-FINDING: property={} {} [key={}]", self.property, what, key);
        } else {
            println!(
                "VIOLATION property={} replay={}",
                self.property,
                path.display()
            );
            println!("  detail: {what} [key={key}]");
        }
        self.violations.push(Violation {
            key: key.to_string(),
            what: what.to_string(),
            replay_path: path,
            known,
        });
    }

    pub fn new_violations(&self) -> usize {
        self.violations.iter().filter(|v| !v.known).count()
    }

    pub fn wall_s(&self) -> f64 {
        self.started.elapsed().as_secs_f64()
    }

    /// Write /verif/evidence/<id>.json and return the process exit code.
    /// `level` is one of the schema's enum values; `coverage` must contain the keys the level needs.
    pub fn finish(&self, level: &str, coverage: Value, assumptions: &[&str]) -> i32 {
        let mut coverage = coverage;
        if let Some(obj) = coverage.as_object_mut() {
            obj.insert(
                "known_findings_matched".into(),
                json!(self.violations.iter().filter(|v| v.known).map(|v| v.key.clone()).collect::<Vec<_>>()),
            );
            obj.insert(
                "violation_keys".into(),
                json!(self.violations.iter().filter(|v| !v.known).map(|v| v.key.clone()).collect::<Vec<_>>()),
            );
            obj.insert("duplicate_key_violations_suppressed".into(), json!(self.suppressed));
        }
        let doc = json!({
            "property_id": self.property,
            "tier": self.tier.as_str(),
            "seed": self.seed,
            "level": level,
            "coverage": coverage,
            "assumptions": assumptions,
            "wall_s": self.wall_s(),
            "violations": self.new_violations(),
        });
        let dir = format!("{VERIF_ROOT}/evidence");
        let _ = std::fs::create_dir_all(&dir);
        let path = format!("{dir}/{}.json", self.property);
        if let Err(e) = std::fs::write(&path, serde_json::to_string_pretty(&doc).unwrap()) {
            machinery_error(&format!("cannot write evidence {path}: {e}"));
        }
        let n = self.new_violations();
        println!(
            "RESULT property={} tier={} violations={} known_findings={} wall_s={:.1}",
            self.property,
            self.tier.as_str(),
            n,
            self.violations.len() - n,
            self.wall_s()
        );
        if n > 0 { 1 } else { 0 }
    }
}

/// Load the `case` member of a replay file.
pub fn load_replay(path: &std::path::Path) -> Value {
    let s = std::fs::read_to_string(path)
        .unwrap_or_else(|e| machinery_error(&format!("cannot read replay {}: {e}", path.display())));
    let v: Value = serde_json::from_str(&s)
        .unwrap_or_else(|e| machinery_error(&format!("replay {} is not JSON: {e}", path.display())));
    v.get("case").cloned().unwrap_or(v)
}

/// Deterministic permutation helper: rotate a vector by `seed` (the *set* never changes).
pub fn rotate_by_seed<T>(v: &mut Vec<T>, seed: i64) {
    if v.is_empty() {
        return;
    }
    let k = (seed.unsigned_abs() as usize) % v.len();
    v.rotate_left(k);
}

/// Keep at most `n` samples (first ones in enumeration order) for the evidence file.
pub struct Samples {
    pub items: Vec<Value>,
    cap: usize,
}
impl Samples {
    pub fn new(cap: usize) -> Self {
        Samples {
            items: Vec::new(),
            cap,
        }
    }
    pub fn push(&mut self, f: impl FnOnce() -> Value) {
        if self.items.len() < self.cap {
            self.items.push(f());
        }
    }
}
