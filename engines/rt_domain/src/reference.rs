//! Reference model for C20, written from the property statement and
//! `/repo/docs/guide/routing/domain_guards.md` only (never from `domain.rs`).
//!
//! Documented rules for a guard:
//!  * not empty; a single trailing `.` (absolute form) is allowed and ignored;
//!  * labels are separated by `.`, no label is empty;
//!  * a plain label consists of ASCII alphanumerics and `-`, starts and ends with an alphanumeric;
//!  * a templated label is `{name}` or `{*name}` followed by an optional plain tail: the parameter
//!    is at the beginning of its label, at most one parameter per label ("separated by a `.`"),
//!    the name is a Rust identifier;
//!  * a catch-all `{*name}` may only be the very first thing of the guard (hence at most one);
//!  * a label is at most 63 characters, the whole name at most 253, a parameter counting for the
//!    one character it must at least stand for.
//!
//! Documented matching (property statement): literal labels compare equal, `{p}` is a non-empty
//! leading part of one label, a leading `{*p}` is one or more labels, one trailing dot is ignored
//! on either side.

#[derive(Debug, Clone, PartialEq, Eq, Hash, PartialOrd, Ord)]
pub enum Kind {
    Plain,
    Param,
    CatchAll,
}

/// One label of an accepted guard: an optional parameter followed by a literal tail.
#[derive(Debug, Clone, PartialEq, Eq, Hash, PartialOrd, Ord)]
pub struct Label {
    pub kind: Kind,
    pub name: String,
    pub tail: String,
}

#[derive(Debug, Clone, PartialEq, Eq, Hash, PartialOrd, Ord)]
pub struct Guard {
    pub labels: Vec<Label>,
}

#[derive(Debug, Clone, Copy, PartialEq, Eq, Hash, PartialOrd, Ord)]
pub enum Reject {
    Empty,
    EmptyLabel,
    PlainLabelSyntax,
    UnclosedParam,
    EmptyParamName,
    ParamNameNotIdent,
    TailSyntax,
    CatchAllNotLeading,
    LabelTooLong,
    TotalTooLong,
}

impl Reject {
    pub fn as_str(&self) -> &'static str {
        match self {
            Reject::Empty => "empty",
            Reject::EmptyLabel => "empty-label",
            Reject::PlainLabelSyntax => "plain-label-syntax",
            Reject::UnclosedParam => "unclosed-param",
            Reject::EmptyParamName => "empty-param-name",
            Reject::ParamNameNotIdent => "param-name-not-ident",
            Reject::TailSyntax => "tail-syntax-or-second-param",
            Reject::CatchAllNotLeading => "catch-all-not-leading",
            Reject::LabelTooLong => "label-too-long",
            Reject::TotalTooLong => "total-too-long",
        }
    }
}

fn alnum(c: char) -> bool {
    c.is_ascii_alphanumeric()
}

/// `^[A-Za-z0-9-]*$` ending with an alphanumeric unless empty.
fn tail_ok(t: &str) -> bool {
    t.chars().all(|c| alnum(c) || c == '-') && t.chars().last().map(alnum).unwrap_or(true)
}

const KEYWORDS: &[&str] = &[
    "_", "abstract", "as", "async", "await", "become", "box", "break", "const", "continue", "crate",
    "do", "dyn", "else", "enum", "extern", "false", "final", "fn", "for", "if", "impl", "in", "let",
    "loop", "macro", "match", "mod", "move", "mut", "override", "priv", "pub", "ref", "return",
    "Self", "self", "static", "struct", "super", "trait", "true", "try", "type", "typeof", "unsafe",
    "unsized", "use", "virtual", "where", "while", "yield",
];

/// ASCII Rust identifier that is not a keyword (and not the lone underscore).
pub fn is_rust_ident(s: &str) -> bool {
    let mut cs = s.chars();
    let Some(f) = cs.next() else { return false };
    if !(f.is_ascii_alphabetic() || f == '_') {
        return false;
    }
    if !cs.all(|c| c.is_ascii_alphanumeric() || c == '_') {
        return false;
    }
    !KEYWORDS.contains(&s)
}

fn parse_label(label: &str) -> Result<Label, Reject> {
    if label.is_empty() {
        return Err(Reject::EmptyLabel);
    }
    if let Some(rest) = label.strip_prefix('{') {
        let Some(close) = rest.find('}') else {
            return Err(Reject::UnclosedParam);
        };
        let inner = &rest[..close];
        let tail = &rest[close + 1..];
        let (kind, name) = match inner.strip_prefix('*') {
            Some(n) => (Kind::CatchAll, n),
            None => (Kind::Param, inner),
        };
        if name.is_empty() {
            return Err(Reject::EmptyParamName);
        }
        if !is_rust_ident(name) {
            return Err(Reject::ParamNameNotIdent);
        }
        if !tail_ok(tail) {
            return Err(Reject::TailSyntax);
        }
        Ok(Label {
            kind,
            name: name.to_string(),
            tail: tail.to_string(),
        })
    } else {
        let first = label.chars().next().unwrap();
        if !alnum(first) || !tail_ok(label) {
            return Err(Reject::PlainLabelSyntax);
        }
        Ok(Label {
            kind: Kind::Plain,
            name: String::new(),
            tail: label.to_string(),
        })
    }
}

/// The reference validator.
pub fn validate(input: &str) -> Result<Guard, Reject> {
    if input.is_empty() {
        return Err(Reject::Empty);
    }
    let body = input.strip_suffix('.').unwrap_or(input);
    let mut labels = Vec::new();
    for (i, raw) in body.split('.').enumerate() {
        let l = parse_label(raw)?;
        if l.kind == Kind::CatchAll && i != 0 {
            return Err(Reject::CatchAllNotLeading);
        }
        labels.push(l);
    }
    let mut total = labels.len() - 1;
    for l in &labels {
        let n = l.tail.chars().count() + if l.kind == Kind::Plain { 0 } else { 1 };
        if n > 63 {
            return Err(Reject::LabelTooLong);
        }
        total += n;
    }
    if total > 253 {
        return Err(Reject::TotalTooLong);
    }
    Ok(Guard { labels })
}

impl Guard {
    /// The guard with parameter names erased: two guards with the same shape match the same hosts.
    pub fn shape(&self) -> String {
        let mut s = String::new();
        for (i, l) in self.labels.iter().enumerate() {
            if i > 0 {
                s.push('.');
            }
            match l.kind {
                Kind::Plain => {}
                Kind::Param => s.push_str("{}"),
                Kind::CatchAll => s.push_str("{*}"),
            }
            s.push_str(&l.tail);
        }
        s
    }

    /// Coarse class of a guard for violation keys, e.g. `C.L` / `Pt.L.P`.
    pub fn class(&self) -> String {
        self.labels
            .iter()
            .map(|l| {
                let t = !l.tail.is_empty();
                match (&l.kind, t) {
                    (Kind::Plain, _) => "L",
                    (Kind::Param, false) => "P",
                    (Kind::Param, true) => "Pt",
                    (Kind::CatchAll, false) => "C",
                    (Kind::CatchAll, true) => "Ct",
                }
            })
            .collect::<Vec<_>>()
            .join(".")
    }

    /// Parameter names, left to right as written by the user.
    pub fn param_names(&self) -> Vec<String> {
        self.labels
            .iter()
            .filter(|l| l.kind != Kind::Plain)
            .map(|l| l.name.clone())
            .collect()
    }
}

/// A host split for matching.
#[derive(Debug, Clone)]
pub struct Host {
    pub raw: String,
    /// labels after ignoring one trailing dot
    pub labels: Vec<String>,
    /// every label non-empty (so at most one trailing dot, no leading / doubled dot)
    pub well_formed: bool,
    pub trailing_dot: bool,
}

impl Host {
    pub fn new(raw: &str) -> Host {
        let body = raw.strip_suffix('.').unwrap_or(raw);
        let labels: Vec<String> = body.split('.').map(|s| s.to_string()).collect();
        let well_formed = labels.iter().all(|l| !l.is_empty());
        Host {
            raw: raw.to_string(),
            labels,
            well_formed,
            trailing_dot: raw.ends_with('.'),
        }
    }
}

#[derive(Debug, Clone, Copy, PartialEq, Eq)]
pub enum Verdict {
    Match,
    NoMatch,
    /// The documentation and the property statement read differently; either outcome is accepted.
    /// Only arises for a catch-all with a literal tail (`{*p}b.com`) against a host whose label in
    /// that position is *exactly* the tail (`x.b.com`): the guide says the catch-all "matches
    /// everything before" the rest (so `x.` would do), the property says it "stands for one or
    /// more labels" (so something must be left in front of `b` inside the label).
    Unspecified,
}

/// The reference matcher. Only defined for well-formed hosts.
pub fn matches(g: &Guard, h: &Host) -> Verdict {
    debug_assert!(h.well_formed);
    let gl = &g.labels;
    let hl = &h.labels;
    let first = &gl[0];
    if first.kind == Kind::CatchAll {
        if hl.len() < gl.len() {
            return Verdict::NoMatch;
        }
    } else if hl.len() != gl.len() {
        return Verdict::NoMatch;
    }
    // Right-aligned comparison of every guard label but the first.
    for k in 1..gl.len() {
        let g_l = &gl[gl.len() - k];
        let h_l = &hl[hl.len() - k];
        if !label_matches(g_l, h_l) {
            return Verdict::NoMatch;
        }
    }
    let pos = hl.len() - gl.len(); // host label aligned with the first guard label
    let h_l = &hl[pos];
    match first.kind {
        Kind::Plain | Kind::Param => {
            if label_matches(first, h_l) {
                Verdict::Match
            } else {
                Verdict::NoMatch
            }
        }
        Kind::CatchAll => {
            if !h_l.ends_with(first.tail.as_str()) {
                return Verdict::NoMatch;
            }
            if h_l.len() > first.tail.len() {
                // one or more labels, the last one completed by the tail
                Verdict::Match
            } else if pos >= 1 {
                // host label == tail exactly, more labels in front of it
                Verdict::Unspecified
            } else {
                Verdict::NoMatch
            }
        }
    }
}

fn label_matches(g: &Label, h: &str) -> bool {
    match g.kind {
        Kind::Plain => g.tail == h,
        Kind::Param => h.len() > g.tail.len() && h.ends_with(g.tail.as_str()),
        Kind::CatchAll => unreachable!("catch-all is only legal in the first label"),
    }
}
