//! Everything that touches the code under test: hook H4, the conflict detector's router insert,
//! and the host normalisation that `codegen/router.rs::domain_router` emits.
use std::panic::{AssertUnwindSafe, catch_unwind};

/// Outcome of the real validator (+ real `matchit_pattern`) through hook H4.
#[derive(Debug, Clone, PartialEq, Eq)]
pub enum Real {
    Accepted { pattern: String },
    Rejected { message: String },
    Panicked { message: String },
}

thread_local! {
    /// true while the code under test runs (its panics are an outcome, not noise)
    pub static IN_SUBJECT: std::cell::Cell<bool> = const { std::cell::Cell::new(false) };
}

pub fn real_guard(raw: &str) -> Real {
    IN_SUBJECT.with(|f| f.set(true));
    let r = catch_unwind(AssertUnwindSafe(|| pavexc::verif_domain_guard(raw)));
    IN_SUBJECT.with(|f| f.set(false));
    match r {
        Ok(Ok(pattern)) => Real::Accepted { pattern },
        Ok(Err(message)) => Real::Rejected { message },
        Err(p) => Real::Panicked {
            message: panic_message(p),
        },
    }
}

pub fn panic_message(p: Box<dyn std::any::Any + Send>) -> String {
    if let Some(s) = p.downcast_ref::<&str>() {
        s.to_string()
    } else if let Some(s) = p.downcast_ref::<String>() {
        s.clone()
    } else {
        "<non-string panic payload>".into()
    }
}

/// Coarse class of the real validator's error message (for violation keys only).
pub fn error_class(msg: &str) -> &'static str {
    if msg.contains("can't be empty") {
        "empty"
    } else if msg.contains("empty DNS label") {
        "empty-label"
    } else if msg.contains("Catch-all parameters must appear") {
        "catch-all-not-first"
    } else if msg.contains("unclosed domain parameter") {
        "unclosed-param"
    } else if msg.contains("must be named") {
        "empty-param-name"
    } else if msg.contains("not a valid Rust identifier") {
        "param-name-not-ident"
    } else if msg.contains("must start with") {
        "label-start"
    } else if msg.contains("must end with") {
        "label-end"
    } else if msg.contains("must only contain") {
        "label-chars"
    } else if msg.contains("at most 63") {
        "label-too-long"
    } else if msg.contains("beginning of the DNS label") {
        "param-not-at-start"
    } else if msg.contains("at most one domain parameter") {
        "too-many-params"
    } else if msg.contains("maximum allowed length is 253") {
        "total-too-long"
    } else {
        "other"
    }
}

// ---------------------------------------------------------------------------------------------
// Conflict detector.
//
// /repo/compiler/pavexc/src/compiler/analyses/user_components/router.rs, detect_domain_conflicts:
//
//     let mut router = matchit::Router::new();
//     ...
//     for guard in aux.domain_guard2locations.keys() {
//         let pattern = guard.matchit_pattern();
//         pattern2guard.insert(pattern.clone(), guard);
//         let Err(e) = router.insert(pattern, ()) else { continue; };
//         has_errored = true;
//         let matchit::InsertError::Conflict { with } = e else { unreachable!(...) };
//         ...
//     }
//     if has_errored { Err(()) } else { Ok(()) }
//
// i.e. exactly `guard.matchit_pattern()` (what H4 returns) is inserted, one insert per distinct
// (normalised) guard, in the iteration order of an IndexMap (registration order); a `Conflict`
// rejects the blueprint, any other insert error hits `unreachable!`.
// The generated server (`domain_router_init` in codegen/router.rs) re-inserts the same patterns in
// `BTreeMap<DomainGuard, _>` order (sorted by the guard string) and `.unwrap()`s every insert, which
// is why the verdict must not depend on the insertion order.
// ---------------------------------------------------------------------------------------------

#[derive(Debug, Clone, PartialEq, Eq)]
pub enum Detect {
    Accepted,
    Conflict { with: String },
    /// `unreachable!` in the compiler
    OtherInsertError { error: String },
    /// `matchit::Router::insert` itself panicked (the compiler / the generated server would too)
    Panicked { message: String },
    /// this insertion order cannot occur (detector and generated code both insert sorted)
    NotApplicable,
}

/// In which order `detect_domain_conflicts` inserts, recovered from its source text.
#[derive(Debug, Clone, Copy, PartialEq, Eq)]
pub enum DetectorOrder {
    /// `for guard in aux.domain_guard2locations.keys()` — an IndexMap, i.e. registration order,
    /// which the user chooses: both orders of a pair are possible.
    Registration,
    /// keys collected and sorted first — the same order as the generated `domain_router()`
    /// (`BTreeMap<DomainGuard, _>`); form introduced by `fix-matchit-leading-slash.patch`.
    Sorted,
}

/// What the engine's replica of `detect_domain_conflicts` has to do, per its source text.
#[derive(Debug, Clone, Copy, PartialEq, Eq)]
pub struct DetectorModel {
    pub order: DetectorOrder,
    /// after matchit accepted everything, every pair goes through `is_ambiguous_with`
    /// (form introduced by `fix-ambiguous-overlap.patch`; needs hook H4b)
    pub ambiguity_check: bool,
}

const DETECTOR_LOOP_REGISTRATION: &str = "forguardinaux.domain_guard2locations.keys(){";
const DETECTOR_LOOP_SORTED: &str =
    "letmutguards:Vec<_>=aux.domain_guard2locations.keys().collect();guards.sort();forguardinguards{";
const DETECTOR_LOOP_SORTED_BORROWED: &str =
    "letmutguards:Vec<_>=aux.domain_guard2locations.keys().collect();guards.sort();forguardin&guards{letguard=*guard;";
const DETECTOR_AMBIGUITY: &str = "if!has_errored{for(i,first)inguards.iter().enumerate(){forsecondin&guards[i+1..]{iffirst.is_ambiguous_with(second){has_errored=true;Self::push_domain_conflict_diagnostic(aux,first,second,diagnostics);}}}}";

/// Hook H4b, if the linked pavexc has it.
#[cfg(has_ambiguity_hook)]
pub fn ambiguous_hook(a: &str, b: &str) -> Option<Result<bool, String>> {
    Some(pavexc::verif_domain_guards_ambiguous(a, b))
}
#[cfg(not(has_ambiguity_hook))]
pub fn ambiguous_hook(_a: &str, _b: &str) -> Option<Result<bool, String>> {
    None
}
const DETECTOR_BODY: &[&str] = &[
    "letmutrouter=matchit::Router::new();",
    "letpattern=guard.matchit_pattern();",
    "letErr(e)=router.insert(pattern,())else{continue;};",
    "letmatchit::InsertError::Conflict{with}=eelse{unreachable!(",
    "ifhas_errored{Err(())}else{Ok(())}",
];
/// The generated `domain_router()` must still insert `guard.matchit_pattern()` of every key of a
/// `BTreeMap<DomainGuard, PathRouter>` and unwrap.
const INIT_BODY: &[&str] = &[
    "fndomain_router_init(domain2path_router:&BTreeMap<DomainGuard,PathRouter>,",
    "letinserts=domain2path_router.keys().enumerate().map(|(i,guard)|{letpattern=guard.matchit_pattern();",
    "#router.insert(#pattern,#i).unwrap();",
];

/// Self-check of the replica of `detect_domain_conflicts` / `domain_router_init` against their
/// source text. Anything unexpected is a machinery error for the caller.
pub fn detector_model_from_source() -> Result<DetectorModel, String> {
    let file = format!(
        "{}/src/compiler/analyses/user_components/router.rs",
        env!("PAVEXC_DIR")
    );
    let src = std::fs::read_to_string(&file).map_err(|e| format!("cannot read {file}: {e}"))?;
    let flat = strip_comments_and_ws(&src);
    let start = flat
        .find("fndetect_domain_conflicts(")
        .ok_or_else(|| format!("{file}: fn detect_domain_conflicts not found"))?;
    let end = flat[start..]
        .find("fnpush_domain_conflict_diagnostic(")
        .map(|e| start + e)
        .unwrap_or(flat.len());
    let body = &flat[start..end];
    for needle in DETECTOR_BODY {
        if !body.contains(needle) {
            return Err(format!(
                "{file}: detect_domain_conflicts no longer contains `{needle}`; the engine's replica (subject::detect) must be re-derived"
            ));
        }
    }
    let ambiguity_check = body.contains("is_ambiguous_with");
    if ambiguity_check {
        if !body.contains(DETECTOR_AMBIGUITY) {
            return Err(format!(
                "{file}: detect_domain_conflicts calls is_ambiguous_with in a way rt_domain does not know"
            ));
        }
        if ambiguous_hook("a", "a").is_none() {
            return Err(format!(
                "{file}: detect_domain_conflicts runs a pairwise ambiguity check but the linked pavexc has no hook pavexc::verif_domain_guards_ambiguous to replicate it"
            ));
        }
    }
    let order = if body.contains(DETECTOR_LOOP_SORTED) || body.contains(DETECTOR_LOOP_SORTED_BORROWED) {
        DetectorOrder::Sorted
    } else if body.contains(DETECTOR_LOOP_REGISTRATION) {
        DetectorOrder::Registration
    } else {
        return Err(format!(
            "{file}: detect_domain_conflicts iterates the guards in a way rt_domain does not know"
        ));
    };
    let file2 = format!("{}/src/compiler/codegen/router.rs", env!("PAVEXC_DIR"));
    let src2 = std::fs::read_to_string(&file2).map_err(|e| format!("cannot read {file2}: {e}"))?;
    let flat2 = strip_comments_and_ws(&src2);
    for needle in INIT_BODY {
        if !flat2.contains(needle) {
            return Err(format!(
                "{file2}: domain_router_init no longer contains `{needle}`; the engine's assumption about the generated router must be re-derived"
            ));
        }
    }
    Ok(DetectorModel {
        order,
        ambiguity_check,
    })
}

/// Insert the patterns in the given order, as `detect_domain_conflicts` does; value = index.
/// The router is returned unless an insert panicked.
pub fn detect(patterns: &[&str]) -> (Detect, Option<matchit::Router<u32>>) {
    IN_SUBJECT.with(|f| f.set(true));
    let r = catch_unwind(AssertUnwindSafe(|| {
        let mut router = matchit::Router::new();
        let mut verdict = Detect::Accepted;
        for (i, p) in patterns.iter().enumerate() {
            match router.insert(p.to_string(), i as u32) {
                Ok(()) => {}
                Err(matchit::InsertError::Conflict { with }) => {
                    if verdict == Detect::Accepted {
                        verdict = Detect::Conflict { with };
                    }
                }
                Err(e) => {
                    if !matches!(verdict, Detect::OtherInsertError { .. }) {
                        verdict = Detect::OtherInsertError {
                            error: format!("{e:?}"),
                        };
                    }
                }
            }
        }
        (verdict, router)
    }));
    IN_SUBJECT.with(|f| f.set(false));
    match r {
        Ok((v, router)) => (v, Some(router)),
        Err(p) => (
            Detect::Panicked {
                message: panic_message(p),
            },
            None,
        ),
    }
}

// ---------------------------------------------------------------------------------------------
// Host normalisation.
//
// /repo/compiler/pavexc/src/compiler/codegen/router.rs, fn domain_router, inside `quote!`:
//
//     let host: Option<String> = #request
//         .headers()
//         .get(#pavex::http::header::HOST)
//         .map(|h| #pavex::http::uri::Authority::try_from(h.as_bytes()).ok())
//         .flatten()
//         .map(|a| a.host()
//             // Normalize the host by removing the trailing dot, if it exists.
//             .trim_end_matches('.')
//             // Replace dots with slashes, since that's the separator that `matchit` understands.
//             .replace('.', "/")
//             // Reverse the string to maximise shared prefixes in the underlying `matchit` router.
//             .chars().rev().collect()
//         );
//
//     if let Some(host) = host {
//         if let Ok(m) = self.domain_router.at(host.as_str()) {
//             return match m.value { ... };
//         }
//     }
//     // No domain matched, or the request did not contain a valid `Host` header.
// ---------------------------------------------------------------------------------------------

/// The normalisation exactly as quoted above (the engine's hard-wired copy).
pub fn normalise_as_quoted(header_value: &[u8]) -> Option<String> {
    http::uri::Authority::try_from(header_value).ok().map(|a| {
        a.host()
            .trim_end_matches('.')
            .replace('.', "/")
            .chars()
            .rev()
            .collect()
    })
}

// Second known form — the one proposed in `fix-matchit-leading-slash.patch` (patterns and hosts
// both get a leading `/`, which keeps matchit away from its empty-common-prefix panic):
//
//         .map(|a| {
//             let host = a.host()
//                 // Normalize the host by removing the trailing dot, if it exists.
//                 .trim_end_matches('.')
//                 // Replace dots with slashes, since that's the separator that `matchit` understands.
//                 .replace('.', "/");
//             // Reverse the string to maximise shared prefixes in the underlying `matchit` router.
//             // All domain patterns start with a `/`, like paths do.
//             ::std::iter::once('/').chain(host.chars().rev()).collect()
//         });
pub fn normalise_as_quoted_leading_slash(header_value: &[u8]) -> Option<String> {
    http::uri::Authority::try_from(header_value).ok().map(|a| {
        let host = a.host().trim_end_matches('.').replace('.', "/");
        ::std::iter::once('/').chain(host.chars().rev()).collect()
    })
}

#[derive(Debug, Clone, Copy, PartialEq, Eq)]
pub enum Step {
    TrimEndDots,
    DotsToSlashes,
    Reverse,
    AsciiLower,
    PrependSlash,
}

const STEP_TOKENS: &[(&str, Step)] = &[
    (".trim_end_matches('.')", Step::TrimEndDots),
    (".replace('.',\"/\")", Step::DotsToSlashes),
    (".chars().rev().collect()", Step::Reverse),
    (".to_ascii_lowercase()", Step::AsciiLower),
    (".to_lowercase()", Step::AsciiLower),
];

/// Closure bodies (comments and whitespace removed) the engine has a hard-wired copy of.
pub const KNOWN_BODIES: &[(&str, fn(&[u8]) -> Option<String>)] = &[
    (
        "a.host().trim_end_matches('.').replace('.',\"/\").chars().rev().collect()",
        normalise_as_quoted,
    ),
    (
        "{lethost=a.host().trim_end_matches('.').replace('.',\"/\");::std::iter::once('/').chain(host.chars().rev()).collect()}",
        normalise_as_quoted_leading_slash,
    ),
];
pub const EXPECTED_PRELUDE: &str =
    ".map(|h|#pavex::http::uri::Authority::try_from(h.as_bytes()).ok()).flatten().map(|a|";
pub const EXPECTED_LOOKUP: &str = "self.domain_router.at(host.as_str())";
const LET_FORM_HEAD: &str = "{lethost=a.host()";
const LET_FORM_TAIL: &str = ";::std::iter::once('/').chain(host.chars().rev()).collect()}";

/// What the generator source says the generated code does with the host.
#[derive(Debug, Clone)]
pub struct GeneratedNormaliser {
    pub source_file: String,
    /// body of the `.map(|a| …)` closure, comments and whitespace removed
    pub chain_text: String,
    pub steps: Vec<Step>,
    /// the hard-wired copy for this exact text, if the engine has one
    pub hard_wired: Option<fn(&[u8]) -> Option<String>>,
    pub identical_to_expected: bool,
}

fn strip_comments_and_ws(src: &str) -> String {
    let mut out = String::new();
    for line in src.lines() {
        let l = match line.find("//") {
            Some(i) => &line[..i],
            None => line,
        };
        out.extend(l.chars().filter(|c| !c.is_whitespace()));
    }
    out
}

/// `text` starts right after an opening `(`; returns what precedes the matching `)`.
fn until_matching_paren(text: &str) -> Option<&str> {
    let b = text.as_bytes();
    let mut depth = 1usize;
    let mut i = 0;
    while i < b.len() {
        match b[i] {
            b'\'' if i + 2 < b.len() && b[i + 2] == b'\'' => i += 2, // char literal
            b'"' => {
                i += 1;
                while i < b.len() && b[i] != b'"' {
                    i += 1;
                }
            }
            b'(' | b'{' | b'[' => depth += 1,
            b')' | b'}' | b']' => {
                depth -= 1;
                if depth == 0 {
                    return Some(&text[..i]);
                }
            }
            _ => {}
        }
        i += 1;
    }
    None
}

fn tokenise(mut chain: &str, whole: &str, file: &str) -> Result<Vec<Step>, String> {
    let mut steps = Vec::new();
    'outer: while !chain.is_empty() {
        for (tok, step) in STEP_TOKENS {
            if let Some(rest) = chain.strip_prefix(tok) {
                steps.push(*step);
                chain = rest;
                continue 'outer;
            }
        }
        return Err(format!(
            "{file}: unrecognised step in the generated host normalisation at `{chain}` \
             (whole closure body `{whole}`); teach rt_domain about it"
        ));
    }
    Ok(steps)
}

impl GeneratedNormaliser {
    /// Read `codegen/router.rs` of the pavexc crate this binary is linked against and recover what
    /// the `.map(|a| …)` closure does to `a.host()`. Unknown steps are a machinery error (the
    /// engine must be taught about them), known steps in a different composition are *followed*,
    /// so that a semantic change of the generated normalisation shows up as routing violations.
    pub fn from_source() -> Result<GeneratedNormaliser, String> {
        let file = format!("{}/src/compiler/codegen/router.rs", env!("PAVEXC_DIR"));
        let src = std::fs::read_to_string(&file).map_err(|e| format!("cannot read {file}: {e}"))?;
        let flat = strip_comments_and_ws(&src);
        let start = flat
            .find("fndomain_router(domain2path_router:")
            .ok_or_else(|| format!("{file}: `fn domain_router(domain2path_router:` not found"))?;
        let body = &flat[start..];
        let pre = body.find(EXPECTED_PRELUDE).ok_or_else(|| {
            format!("{file}: the generated code no longer obtains the host via `{EXPECTED_PRELUDE}`")
        })?;
        if !body.contains(EXPECTED_LOOKUP) {
            return Err(format!(
                "{file}: the generated code no longer looks the host up via `{EXPECTED_LOOKUP}`"
            ));
        }
        let closure = until_matching_paren(&body[pre + EXPECTED_PRELUDE.len()..])
            .ok_or_else(|| format!("{file}: end of the `.map(|a| …)` closure not found"))?;
        let chain_text = closure.to_string();
        let steps = if let Some(chain) = closure.strip_prefix("a.host()") {
            let steps = tokenise(chain, closure, &file)?;
            if steps.last() != Some(&Step::Reverse) {
                return Err(format!(
                    "{file}: generated host normalisation `{chain_text}` does not end in \
                     `.chars().rev().collect()`; teach rt_domain about it"
                ));
            }
            steps
        } else if let Some(mid) = closure
            .strip_prefix(LET_FORM_HEAD)
            .and_then(|r| r.strip_suffix(LET_FORM_TAIL))
        {
            let mut steps = tokenise(mid, closure, &file)?;
            if steps.contains(&Step::Reverse) {
                return Err(format!("{file}: generated host normalisation `{chain_text}` reverses twice"));
            }
            steps.push(Step::Reverse);
            steps.push(Step::PrependSlash);
            steps
        } else {
            return Err(format!(
                "{file}: the `.map(|a| …)` closure `{chain_text}` has an unknown structure; teach rt_domain about it"
            ));
        };
        let hard_wired = KNOWN_BODIES.iter().find(|(t, _)| *t == chain_text).map(|(_, f)| *f);
        Ok(GeneratedNormaliser {
            source_file: file,
            identical_to_expected: hard_wired.is_some(),
            hard_wired,
            chain_text,
            steps,
        })
    }

    /// Apply the steps found in the generator source.
    pub fn apply(&self, header_value: &[u8]) -> Option<String> {
        let a = http::uri::Authority::try_from(header_value).ok()?;
        let mut s: String = a.host().to_string();
        for st in &self.steps {
            s = match st {
                Step::TrimEndDots => s.trim_end_matches('.').to_string(),
                Step::DotsToSlashes => s.replace('.', "/"),
                Step::Reverse => s.chars().rev().collect(),
                Step::AsciiLower => s.to_ascii_lowercase(),
                Step::PrependSlash => format!("/{s}"),
            };
        }
        Some(s)
    }
}
