//! Everything that touches the code under test: hook H4, the conflict detector's router insert,
//! and the host normalisation that `codegen/router.rs::domain_router` emits.
use std::panic::{AssertUnwindSafe, catch_unwind};

/// Outcome of the real validator (+ real `matchit_pattern`) through hook H4.
#[derive(Debug, Clone, PartialEq, Eq)]
pub enum Real {
    Accepted { pattern: String },
    Rejected { message: String },
    Panicked { message: String },
}

thread_local! {
    /// true while the code under test runs (its panics are an outcome, not noise)
    pub static IN_SUBJECT: std::cell::Cell<bool> = const { std::cell::Cell::new(false) };
}

pub fn real_guard(raw: &str) -> Real {
    IN_SUBJECT.with(|f| f.set(true));
    let r = catch_unwind(AssertUnwindSafe(|| pavexc::verif_domain_guard(raw)));
    IN_SUBJECT.with(|f| f.set(false));
    match r {
        Ok(Ok(pattern)) => Real::Accepted { pattern },
        Ok(Err(message)) => Real::Rejected { message },
        Err(p) => Real::Panicked {
            message: panic_message(p),
        },
    }
}

pub fn panic_message(p: Box<dyn std::any::Any + Send>) -> String {
    if let Some(s) = p.downcast_ref::<&str>() {
        s.to_string()
    } else if let Some(s) = p.downcast_ref::<String>() {
        s.clone()
    } else {
        "<non-string panic payload>".into()
    }
}

/// Coarse class of the real validator's error message (for violation keys only).
pub fn error_class(msg: &str) -> &'static str {
    if msg.contains("can't be empty") {
        "empty"
    } else if msg.contains("empty DNS label") {
        "empty-label"
    } else if msg.contains("Catch-all parameters must appear") {
        "catch-all-not-first"
    } else if msg.contains("unclosed domain parameter") {
        "unclosed-param"
    } else if msg.contains("must be named") {
        "empty-param-name"
    } else if msg.contains("not a valid Rust identifier") {
        "param-name-not-ident"
    } else if msg.contains("must start with") {
        "label-start"
    } else if msg.contains("must end with") {
        "label-end"
    } else if msg.contains("must only contain") {
        "label-chars"
    } else if msg.contains("at most 63") {
        "label-too-long"
    } else if msg.contains("beginning of the DNS label") {
        "param-not-at-start"
    } else if msg.contains("at most one domain parameter") {
        "too-many-params"
    } else if msg.contains("maximum allowed length is 253") {
        "total-too-long"
    } else {
        "other"
    }
}

// ---------------------------------------------------------------------------------------------
// Conflict detector.
//
// /repo/compiler/pavexc/src/compiler/analyses/user_components/router.rs, detect_domain_conflicts:
//
//     let mut router = matchit::Router::new();
//     ...
//     for guard in aux.domain_guard2locations.keys() {
//         let pattern = guard.matchit_pattern();
//         pattern2guard.insert(pattern.clone(), guard);
//         let Err(e) = router.insert(pattern, ()) else { continue; };
//         has_errored = true;
//         let matchit::InsertError::Conflict { with } = e else { unreachable!(...) };
//         ...
//     }
//     if has_errored { Err(()) } else { Ok(()) }
//
// i.e. exactly `guard.matchit_pattern()` (what H4 returns) is inserted, one insert per distinct
// (normalised) guard, in the iteration order of an IndexMap (registration order); a `Conflict`
// rejects the blueprint, any other insert error hits `unreachable!`.
// The generated server (`domain_router_init` in codegen/router.rs) re-inserts the same patterns in
// `BTreeMap<DomainGuard, _>` order (sorted by the guard string) and `.unwrap()`s every insert, which
// is why the verdict must not depend on the insertion order.
// ---------------------------------------------------------------------------------------------

#[derive(Debug, Clone, PartialEq, Eq)]
pub enum Detect {
    Accepted,
    Conflict { with: String },
    /// `unreachable!` in the compiler
    OtherInsertError { error: String },
    /// `matchit::Router::insert` itself panicked (the compiler / the generated server would too)
    Panicked { message: String },
    /// this insertion order cannot occur (detector and generated code both insert sorted)
    NotApplicable,
}

/// In which order `detect_domain_conflicts` inserts, recovered from its source text.
#[derive(Debug, Clone, Copy, PartialEq, Eq)]
pub enum DetectorOrder {
    /// `for guard in aux.domain_guard2locations.keys()` — an IndexMap, i.e. registration order,
    /// which the user chooses: both orders of a pair are possible.
    Registration,
    /// keys collected and sorted first — the same order as the generated `domain_router()`
    /// (`BTreeMap<DomainGuard, _>`); form introduced by `fix-matchit-leading-slash.patch`.
    Sorted,
}

/// What the engine's replica of `detect_domain_conflicts` has to do, per its source text.
#[derive(Debug, Clone, Copy, PartialEq, Eq)]
pub struct DetectorModel {
    pub order: DetectorOrder,
    /// after matchit accepted everything, every pair goes through `is_ambiguous_with`
    /// (form introduced by `fix-ambiguous-overlap.patch`; needs hook H4b)
    pub ambiguity_check: bool,
}

const DETECTOR_LOOP_REGISTRATION: &str = "forguardinaux.domain_guard2locations.keys(){";
const DETECTOR_LOOP_SORTED: &str =
    "letmutguards:Vec<_>=aux.domain_guard2locations.keys().collect();guards.sort();forguardinguards{";
const DETECTOR_LOOP_SORTED_BORROWED: &str =
    "letmutguards:Vec<_>=aux.domain_guard2locations.keys().collect();guards.sort();forguardin&guards{letguard=*guard;";
const DETECTOR_AMBIGUITY: &str = "if!has_errored{for(i,first)inguards.iter().enumerate(){forsecondin&guards[i+1..]{iffirst.is_ambiguous_with(second){has_errored=true;Self::push_domain_conflict_diagnostic(aux,first,second,diagnostics);}}}}";

/// Hook H4b, if the linked pavexc has it.
#[cfg(has_ambiguity_hook)]
pub fn ambiguous_hook(a: &str, b: &str) -> Option<Result<bool, String>> {
    Some(pavexc::verif_domain_guards_ambiguous(a, b))
}
#[cfg(not(has_ambiguity_hook))]
pub fn ambiguous_hook(_a: &str, _b: &str) -> Option<Result<bool, String>> {
    None
}
const DETECTOR_BODY: &[&str] = &[
    "letmutrouter=matchit::Router::new();",
    "letpattern=guard.matchit_pattern();",
    "letErr(e)=router.insert(pattern,())else{continue;};",
    "letmatchit::InsertError::Conflict{with}=eelse{unreachable!(",
    "ifhas_errored{Err(())}else{Ok(())}",
];

/// A place where the source of the code under test no longer has the structure the engine's
/// replica was derived from. Never a verdict and never a machinery error: the engine prints
/// `NOTE replica-out-of-sync: …`, records it in the evidence and skips (only) what depends on it.
#[derive(Debug, Clone)]
pub struct ReplicaNote {
    pub component: &'static str,
    pub what: String,
    pub snippet: String,
    pub consequence: &'static str,
}

fn clip(s: &str) -> String {
    if s.len() > 600 {
        format!("{}…", &s[..s.char_indices().map(|(i, _)| i).take_while(|i| *i <= 600).last().unwrap_or(0)])
    } else {
        s.to_string()
    }
}

fn read_flat(rel: &str) -> (String, String) {
    let file = format!("{}/{rel}", env!("PAVEXC_DIR"));
    match std::fs::read_to_string(&file) {
        Ok(src) => (file, strip_comments_and_ws(&src)),
        // An unreadable source tree is an environment problem, not a change of the subject.
        Err(e) => verif_common::machinery_error(&format!("cannot read {file}: {e}")),
    }
}

/// Replica check of `detect_domain_conflicts`. `None` = structure not recognised (note pushed).
pub fn detector_model_from_source(notes: &mut Vec<ReplicaNote>) -> Option<DetectorModel> {
    let (file, flat) = read_flat("src/compiler/analyses/user_components/router.rs");
    let consequence = "the pair law (oracle 3) is not judged in this run: it needs to know which pairs the compiler accepts";
    let Some(start) = flat.find("fndetect_domain_conflicts(") else {
        notes.push(ReplicaNote {
            component: "detect_domain_conflicts",
            what: format!("{file}: fn detect_domain_conflicts not found"),
            snippet: String::new(),
            consequence,
        });
        return None;
    };
    let end = flat[start..]
        .find("fnpush_domain_conflict_diagnostic(")
        .map(|e| start + e)
        .unwrap_or(flat.len());
    let body = &flat[start..end];
    let mut bail = |what: String| {
        notes.push(ReplicaNote {
            component: "detect_domain_conflicts",
            what,
            snippet: clip(body),
            consequence,
        });
    };
    for needle in DETECTOR_BODY {
        if !body.contains(needle) {
            bail(format!("{file}: detect_domain_conflicts no longer contains `{needle}`"));
            return None;
        }
    }
    let ambiguity_check = body.contains("is_ambiguous_with");
    if ambiguity_check {
        if !body.contains(DETECTOR_AMBIGUITY) {
            bail(format!("{file}: detect_domain_conflicts calls is_ambiguous_with in a way rt_domain does not know"));
            return None;
        }
        if ambiguous_hook("a", "a").is_none() {
            bail(format!("{file}: detect_domain_conflicts runs a pairwise ambiguity check but the linked pavexc has no hook pavexc::verif_domain_guards_ambiguous to replicate it"));
            return None;
        }
    }
    let order = if body.contains(DETECTOR_LOOP_SORTED) || body.contains(DETECTOR_LOOP_SORTED_BORROWED) {
        DetectorOrder::Sorted
    } else if body.contains(DETECTOR_LOOP_REGISTRATION) {
        DetectorOrder::Registration
    } else {
        bail(format!("{file}: detect_domain_conflicts iterates the guards in a way rt_domain does not know"));
        return None;
    };
    Some(DetectorModel {
        order,
        ambiguity_check,
    })
}

// ---------------------------------------------------------------------------------------------
// Domain ids.
//
// codegen/router.rs numbers the per-domain path routers by the position of the guard in
// `domain2path_router: BTreeMap<DomainGuard, PathRouter>`:
//
//   router_impl:        for (i, sub_router) in router.domain2path_router.values().enumerate() {
//                           … format_ident!("domain_{i}_router") … format_ident!("domain_{i}") …
//                           route_request.sig.ident = format_ident!("route_domain_{i}");
//   domain_router:      let domain_dispatch_arms = domain2path_router.iter().enumerate().map(|(i, _)| {
//                           let domain_router_method_name = format_ident!("route_domain_{i}");
//                           let i = i as u32;
//                           quote! { #i => self.#domain_router_method_name(…).await, }
//   domain_router_init: let inserts = domain2path_router.keys().enumerate().map(|(i, guard)| {
//                           let pattern = guard.matchit_pattern();
//                           let i = i as u32;
//                           quote! { #router.insert(#pattern, #i).unwrap(); }
//
// so the value stored in the generated domain router for a guard must be that same position.
// ---------------------------------------------------------------------------------------------

#[derive(Debug, Clone, PartialEq, Eq)]
pub enum IdAssignment {
    /// `domain2path_router.keys().enumerate()` (or `.iter().enumerate()`): id = sorted position
    Canonical,
    /// `.enumerate()` is applied to a sequence that the source itself reorders / filters first
    Reordered {
        enumerated: String,
        because: String,
        statement: String,
    },
    /// not recognised either way
    Unknown,
}

const DISPATCH_NEEDLES: &[&str] = &[
    "for(i,sub_router)inrouter.domain2path_router.values().enumerate(){",
    "letrouter_init_method_name=format_ident!(\"domain_{i}_router\");",
    "&format_ident!(\"domain_{i}\"),",
    "route_request.sig.ident=format_ident!(\"route_domain_{i}\");",
    "letdomain_dispatch_arms=domain2path_router.iter().enumerate().map(|(i,_)|{letdomain_router_method_name=format_ident!(\"route_domain_{i}\");leti=iasu32;quote!{#i=>self.#domain_router_method_name(",
    "letfields=init_fns.iter().enumerate().map(|(i,init_fn)|{letfield_name=format_ident!(\"domain_{i}\");",
];

/// Operations that change which element sits at which position.
const REORDERING_OPS: &[&str] = &[
    "partition(", ".rev()", ".chain(", "sort_by(", "sort_by_key(", "sort_unstable_by(",
    "sort_unstable_by_key(", "sort_by_cached_key(", ".reverse()", ".filter(", ".filter_map(",
    ".skip(", ".step_by(", ".skip_while(", ".rotate_left(", ".rotate_right(", ".swap(", ".retain(",
    ".dedup", "BinaryHeap", "HashMap", "HashSet",
];

/// Replica check of `domain_router_init` and of the dispatch-table numbering.
/// Returns the id assignment and whether the init function still inserts
/// `guard.matchit_pattern()` of every key and unwraps.
pub fn id_assignment_from_source(notes: &mut Vec<ReplicaNote>) -> IdAssignment {
    let (file, flat) = read_flat("src/compiler/codegen/router.rs");
    let consequence = "the agreement between the ids stored in the generated domain router and the domain_{i} / route_domain_{i} numbering is not judged in-process (the e2e half probes it), and `accepted at compile time but the generated router fails to build` is not judged";
    let Some(start) = flat.find("fndomain_router_init(") else {
        notes.push(ReplicaNote {
            component: "domain_router_init",
            what: format!("{file}: fn domain_router_init not found"),
            snippet: String::new(),
            consequence,
        });
        return IdAssignment::Unknown;
    };
    let end = flat[start..]
        .find("fndomain_router(domain2path_router:")
        .map(|e| start + e)
        .unwrap_or(flat.len());
    let body = &flat[start..end];
    let mut unknown = |what: String| {
        notes.push(ReplicaNote {
            component: "domain_router_init",
            what,
            snippet: clip(body),
            consequence,
        });
        IdAssignment::Unknown
    };
    // the dispatch table must still be numbered by sorted position
    for needle in DISPATCH_NEEDLES {
        if !flat.contains(needle) {
            return unknown(format!("{file}: the domain_{{i}} / route_domain_{{i}} numbering no longer contains `{needle}`"));
        }
    }
    if !body.starts_with("fndomain_router_init(domain2path_router:&BTreeMap<DomainGuard,PathRouter>,") {
        return unknown(format!("{file}: domain_router_init no longer takes the sorted `BTreeMap<DomainGuard, PathRouter>`"));
    }
    if !body.contains(".matchit_pattern()") {
        return unknown(format!("{file}: domain_router_init no longer inserts `guard.matchit_pattern()`"));
    }
    // `#router.insert(#<pattern>, #<id>).unwrap();`
    let Some(ins) = body.find(".insert(#") else {
        return unknown(format!("{file}: domain_router_init: no `#router.insert(#pattern, #id)` found"));
    };
    let args = &body[ins + ".insert(#".len()..];
    let Some(close) = args.find(')') else {
        return unknown(format!("{file}: domain_router_init: malformed insert"));
    };
    let mut parts = args[..close].split(",#");
    let (Some(_pat_var), Some(id_var), None) = (parts.next(), parts.next(), parts.next()) else {
        return unknown(format!("{file}: domain_router_init: insert arguments `{}` not understood", &args[..close]));
    };
    if !args[close..].starts_with(").unwrap();") {
        return unknown(format!("{file}: domain_router_init: the insert is no longer unwrapped"));
    }
    // the id must be the index of exactly one `.enumerate()`
    if body.matches(".enumerate()").count() != 1 {
        return unknown(format!("{file}: domain_router_init: expected exactly one `.enumerate()`, found {}", body.matches(".enumerate()").count()));
    }
    let en = body.find(".enumerate()").unwrap();
    let after = &body[en + ".enumerate()".len()..];
    // what is enumerated: back to the start of the statement
    let stmt_start = body[..en].rfind(|c| c == ';' || c == '{').map(|i| i + 1).unwrap_or(0);
    let stmt = &body[stmt_start..en];
    // `<seq>.enumerate().map(|(i, guard)| …)` or `for (i, guard) in <seq>.enumerate() {`
    let (idx_var, enumerated) = if let Some(closure) = after.strip_prefix(".map(|(") {
        let enumerated = match stmt.find('=') {
            Some(eq) if stmt.starts_with("let") => &stmt[eq + 1..],
            _ => stmt,
        };
        (closure.split(',').next().unwrap_or_default(), enumerated)
    } else if let (true, Some(pat)) = (after.starts_with('{'), stmt.strip_prefix("for(")) {
        let Some(in_at) = pat.find(")in") else {
            return unknown(format!("{file}: domain_router_init: `for` over `.enumerate()` not understood"));
        };
        (pat.split(',').next().unwrap_or_default(), &pat[in_at + 3..])
    } else {
        return unknown(format!("{file}: domain_router_init: `.enumerate()` is followed neither by `.map(|(i, …)|` nor by a `for` body"));
    };
    let id_is_index = id_var == idx_var
        && (body.contains(&format!("let{id_var}={idx_var}asu32;")) || !body.contains(&format!("let{id_var}=")));
    if !id_is_index {
        return unknown(format!("{file}: domain_router_init: the inserted id `#{id_var}` is not plainly the enumerate index `{idx_var}`"));
    }
    if enumerated == "domain2path_router.keys()" || enumerated == "domain2path_router.iter()" {
        return IdAssignment::Canonical;
    }
    // Not the map itself. Did the source reorder / filter what it enumerates?
    let prelude = &body[..en];
    if let Some(op) = REORDERING_OPS.iter().find(|op| prelude.contains(**op)) {
        return IdAssignment::Reordered {
            enumerated: enumerated.to_string(),
            because: op.to_string(),
            statement: clip(prelude),
        };
    }
    unknown(format!("{file}: domain_router_init enumerates `{enumerated}` instead of `domain2path_router.keys()`"))
}

/// Insert the patterns in the given order, as `detect_domain_conflicts` does; value = index.
/// The router is returned unless an insert panicked.
pub fn detect(patterns: &[&str]) -> (Detect, Option<matchit::Router<u32>>) {
    IN_SUBJECT.with(|f| f.set(true));
    let r = catch_unwind(AssertUnwindSafe(|| {
        let mut router = matchit::Router::new();
        let mut verdict = Detect::Accepted;
        for (i, p) in patterns.iter().enumerate() {
            match router.insert(p.to_string(), i as u32) {
                Ok(()) => {}
                Err(matchit::InsertError::Conflict { with }) => {
                    if verdict == Detect::Accepted {
                        verdict = Detect::Conflict { with };
                    }
                }
                Err(e) => {
                    if !matches!(verdict, Detect::OtherInsertError { .. }) {
                        verdict = Detect::OtherInsertError {
                            error: format!("{e:?}"),
                        };
                    }
                }
            }
        }
        (verdict, router)
    }));
    IN_SUBJECT.with(|f| f.set(false));
    match r {
        Ok((v, router)) => (v, Some(router)),
        Err(p) => (
            Detect::Panicked {
                message: panic_message(p),
            },
            None,
        ),
    }
}

// ---------------------------------------------------------------------------------------------
// Host normalisation.
//
// /repo/compiler/pavexc/src/compiler/codegen/router.rs, fn domain_router, inside `quote!`:
//
//     let host: Option<String> = #request
//         .headers()
//         .get(#pavex::http::header::HOST)
//         .map(|h| #pavex::http::uri::Authority::try_from(h.as_bytes()).ok())
//         .flatten()
//         .map(|a| a.host()
//             // Normalize the host by removing the trailing dot, if it exists.
//             .trim_end_matches('.')
//             // Replace dots with slashes, since that's the separator that `matchit` understands.
//             .replace('.', "/")
//             // Reverse the string to maximise shared prefixes in the underlying `matchit` router.
//             .chars().rev().collect()
//         );
//
//     if let Some(host) = host {
//         if let Ok(m) = self.domain_router.at(host.as_str()) {
//             return match m.value { ... };
//         }
//     }
//     // No domain matched, or the request did not contain a valid `Host` header.
// ---------------------------------------------------------------------------------------------

/// The normalisation exactly as quoted above (the engine's hard-wired copy).
pub fn normalise_as_quoted(header_value: &[u8]) -> Option<String> {
    http::uri::Authority::try_from(header_value).ok().map(|a| {
        a.host()
            .trim_end_matches('.')
            .replace('.', "/")
            .chars()
            .rev()
            .collect()
    })
}

// Second known form — the one proposed in `fix-matchit-leading-slash.patch` (patterns and hosts
// both get a leading `/`, which keeps matchit away from its empty-common-prefix panic):
//
//         .map(|a| {
//             let host = a.host()
//                 // Normalize the host by removing the trailing dot, if it exists.
//                 .trim_end_matches('.')
//                 // Replace dots with slashes, since that's the separator that `matchit` understands.
//                 .replace('.', "/");
//             // Reverse the string to maximise shared prefixes in the underlying `matchit` router.
//             // All domain patterns start with a `/`, like paths do.
//             ::std::iter::once('/').chain(host.chars().rev()).collect()
//         });
pub fn normalise_as_quoted_leading_slash(header_value: &[u8]) -> Option<String> {
    http::uri::Authority::try_from(header_value).ok().map(|a| {
        let host = a.host().trim_end_matches('.').replace('.', "/");
        ::std::iter::once('/').chain(host.chars().rev()).collect()
    })
}

#[derive(Debug, Clone, Copy, PartialEq, Eq)]
pub enum Step {
    TrimEndDots,
    TrimStartDots,
    DotsToSlashes,
    Reverse,
    AsciiLower,
    PrependSlash,
}

/// Known steps, in any order and any number. `None` = changes the Rust type only
/// (`&str` / `String` / `impl Iterator<char>`), not the characters.
const STEP_TOKENS: &[(&str, Option<Step>)] = &[
    (".trim_end_matches('.')", Some(Step::TrimEndDots)),
    (".trim_end_matches(\".\")", Some(Step::TrimEndDots)),
    (".trim_start_matches('.')", Some(Step::TrimStartDots)),
    (".trim_start_matches(\".\")", Some(Step::TrimStartDots)),
    (".replace('.',\"/\")", Some(Step::DotsToSlashes)),
    (".replace(\".\",\"/\")", Some(Step::DotsToSlashes)),
    (".chars().rev()", Some(Step::Reverse)),
    (".to_ascii_lowercase()", Some(Step::AsciiLower)),
    (".to_lowercase()", Some(Step::AsciiLower)),
    (".collect::<String>()", None),
    (".collect()", None),
    (".to_string()", None),
    (".to_owned()", None),
    (".as_str()", None),
    (".chars()", None),
];

/// Closure bodies (comments and whitespace removed) the engine has a hard-wired copy of.
pub const KNOWN_BODIES: &[(&str, fn(&[u8]) -> Option<String>)] = &[
    (
        "a.host().trim_end_matches('.').replace('.',\"/\").chars().rev().collect()",
        normalise_as_quoted,
    ),
    (
        "{lethost=a.host().trim_end_matches('.').replace('.',\"/\");::std::iter::once('/').chain(host.chars().rev()).collect()}",
        normalise_as_quoted_leading_slash,
    ),
];
pub const EXPECTED_PRELUDE: &str =
    ".map(|h|#pavex::http::uri::Authority::try_from(h.as_bytes()).ok()).flatten().map(|a|";
pub const EXPECTED_LOOKUP: &str = "self.domain_router.at(host.as_str())";

/// What the generator source says the generated code does with the host.
#[derive(Debug, Clone)]
pub struct GeneratedNormaliser {
    pub source_file: String,
    /// body of the `.map(|a| …)` closure, comments and whitespace removed
    pub chain_text: String,
    pub steps: Vec<Step>,
    /// the hard-wired copy for this exact text, if the engine has one
    pub hard_wired: Option<fn(&[u8]) -> Option<String>>,
    pub identical_to_expected: bool,
    /// false = the source was not understood and `steps` are the last known-good ones
    pub followed_from_source: bool,
}

fn strip_comments_and_ws(src: &str) -> String {
    let mut out = String::new();
    for line in src.lines() {
        let l = match line.find("//") {
            Some(i) => &line[..i],
            None => line,
        };
        out.extend(l.chars().filter(|c| !c.is_whitespace()));
    }
    out
}

/// `text` starts right after an opening `(`; returns what precedes the matching `)`.
fn until_matching_paren(text: &str) -> Option<&str> {
    let b = text.as_bytes();
    let mut depth = 1usize;
    let mut i = 0;
    while i < b.len() {
        match b[i] {
            b'\'' if i + 2 < b.len() && b[i + 2] == b'\'' => i += 2, // char literal
            b'"' => {
                i += 1;
                while i < b.len() && b[i] != b'"' {
                    i += 1;
                }
            }
            b'(' | b'{' | b'[' => depth += 1,
            b')' | b'}' | b']' => {
                depth -= 1;
                if depth == 0 {
                    return Some(&text[..i]);
                }
            }
            _ => {}
        }
        i += 1;
    }
    None
}

/// Split at top-level `;` (not inside brackets / literals).
fn split_statements(text: &str) -> Vec<&str> {
    let b = text.as_bytes();
    let (mut depth, mut i, mut last) = (0usize, 0usize, 0usize);
    let mut out = Vec::new();
    while i < b.len() {
        match b[i] {
            b'\'' if i + 2 < b.len() && b[i + 2] == b'\'' => i += 2,
            b'"' => {
                i += 1;
                while i < b.len() && b[i] != b'"' {
                    i += 1;
                }
            }
            b'(' | b'{' | b'[' => depth += 1,
            b')' | b'}' | b']' => depth = depth.saturating_sub(1),
            b';' if depth == 0 => {
                out.push(&text[last..i]);
                last = i + 1;
            }
            _ => {}
        }
        i += 1;
    }
    out.push(&text[last..]);
    out
}

type Env = Vec<(String, Vec<Step>)>;

/// `a.host()<steps>` or `<bound variable><steps>`, the known steps in any order.
fn follow_chain(expr: &str, env: &Env) -> Result<Vec<Step>, String> {
    let (mut steps, mut rest) = if let Some(r) = expr.strip_prefix("a.host()") {
        (Vec::new(), r)
    } else if let Some((name, st)) = env
        .iter()
        .rev()
        .find(|(n, _)| expr.strip_prefix(n.as_str()).map(|r| r.is_empty() || r.starts_with('.')).unwrap_or(false))
    {
        (st.clone(), &expr[name.len()..])
    } else {
        return Err(format!("`{expr}` starts neither with `a.host()` nor with a variable bound to it"));
    };
    'outer: while !rest.is_empty() {
        for (tok, step) in STEP_TOKENS {
            if let Some(r) = rest.strip_prefix(tok) {
                if let Some(st) = step {
                    steps.push(*st);
                }
                rest = r;
                continue 'outer;
            }
        }
        return Err(format!("unrecognised step at `{rest}`"));
    }
    Ok(steps)
}

/// The whole closure body: a chain, or a block of `let x = <chain>;` followed by a chain,
/// optionally wrapped in one of the known "prepend a slash" forms.
fn follow_body(body: &str) -> Result<Vec<Step>, String> {
    let mut env: Env = Vec::new();
    let last = if let Some(inner) = body.strip_prefix('{').and_then(|b| b.strip_suffix('}')) {
        let stmts = split_statements(inner);
        let (last, lets) = stmts.split_last().unwrap();
        for st in lets {
            let Some(l) = st.strip_prefix("let") else {
                return Err(format!("statement `{st}` is not a `let`"));
            };
            let l = l.strip_prefix("mut").unwrap_or(l);
            let Some(eq) = l.find('=') else {
                return Err(format!("statement `{st}` has no initialiser"));
            };
            let name = l[..eq].split(':').next().unwrap().to_string();
            if name.is_empty() || !name.chars().all(|c| c.is_ascii_alphanumeric() || c == '_') {
                return Err(format!("binding `{}` not understood", &l[..eq]));
            }
            let steps = follow_chain(&l[eq + 1..], &env)?;
            env.push((name, steps));
        }
        *last
    } else {
        body
    };
    // `::std::iter::once('/').chain(<chain>).collect()` / `format!("/{}", <chain>)`
    for (head, tail) in [
        ("::std::iter::once('/').chain(", ").collect()"),
        ("std::iter::once('/').chain(", ").collect()"),
        ("::std::iter::once('/').chain(", ").collect::<String>()"),
        ("std::iter::once('/').chain(", ").collect::<String>()"),
        ("format!(\"/{}\",", ")"),
    ] {
        if let Some(inner) = last.strip_prefix(head).and_then(|l| l.strip_suffix(tail)) {
            let mut steps = follow_chain(inner, &env)?;
            steps.push(Step::PrependSlash);
            return Ok(steps);
        }
    }
    follow_chain(last, &env)
}

impl GeneratedNormaliser {
    /// Read `codegen/router.rs` of the pavexc crate this binary is linked against and recover what
    /// the `.map(|a| …)` closure does to `a.host()`.
    ///
    /// * Any composition (order, repetition) of the known steps is *followed*, so a semantic change
    ///   of the generated normalisation shows up as routing violations.
    /// * Anything else: a `ReplicaNote`, and the last known-good normalisation (the quoted copy
    ///   that fits the pattern format, `leading_slash`) is used instead, labelled as such.
    pub fn from_source(leading_slash: bool, notes: &mut Vec<ReplicaNote>) -> GeneratedNormaliser {
        let (file, flat) = read_flat("src/compiler/codegen/router.rs");
        let (kg_text, kg_fn) = KNOWN_BODIES[leading_slash as usize];
        let consequence = "hosts are normalised with the last known-good copy of the generated normalisation instead of the current one: a change of the normalisation itself cannot be seen in this run (validator, patterns, matching and the pair law are still judged)";
        let mut fallback = |what: String, snippet: &str, notes: &mut Vec<ReplicaNote>| {
            notes.push(ReplicaNote {
                component: "host-normalisation",
                what,
                snippet: clip(snippet),
                consequence,
            });
            GeneratedNormaliser {
                source_file: file.clone(),
                chain_text: kg_text.to_string(),
                steps: follow_body(kg_text).expect("known-good body is followable"),
                hard_wired: Some(kg_fn),
                identical_to_expected: false,
                followed_from_source: false,
            }
        };
        let Some(start) = flat.find("fndomain_router(domain2path_router:") else {
            return fallback(format!("{file}: `fn domain_router(domain2path_router:` not found"), "", notes);
        };
        let body = &flat[start..];
        let Some(pre) = body.find(EXPECTED_PRELUDE) else {
            let around = body.find(".headers()").map(|i| &body[i..]).unwrap_or(body);
            return fallback(
                format!("{file}: the generated code no longer obtains the host via `{EXPECTED_PRELUDE}`"),
                around,
                notes,
            );
        };
        if !body.contains(EXPECTED_LOOKUP) {
            return fallback(
                format!("{file}: the generated code no longer looks the host up via `{EXPECTED_LOOKUP}`"),
                &body[pre..],
                notes,
            );
        }
        let Some(closure) = until_matching_paren(&body[pre + EXPECTED_PRELUDE.len()..]) else {
            return fallback(format!("{file}: end of the `.map(|a| …)` closure not found"), &body[pre..], notes);
        };
        match follow_body(closure) {
            Ok(steps) => {
                let hard_wired = KNOWN_BODIES.iter().find(|(t, _)| *t == closure).map(|(_, f)| *f);
                GeneratedNormaliser {
                    source_file: file,
                    identical_to_expected: hard_wired.is_some(),
                    hard_wired,
                    chain_text: closure.to_string(),
                    steps,
                    followed_from_source: true,
                }
            }
            Err(e) => fallback(
                format!("{file}: the host normalisation closure is not a composition of the steps rt_domain knows: {e}"),
                closure,
                notes,
            ),
        }
    }

    /// Apply the steps found in the generator source.
    pub fn apply(&self, header_value: &[u8]) -> Option<String> {
        let a = http::uri::Authority::try_from(header_value).ok()?;
        let mut s: String = a.host().to_string();
        for st in &self.steps {
            s = match st {
                Step::TrimEndDots => s.trim_end_matches('.').to_string(),
                Step::TrimStartDots => s.trim_start_matches('.').to_string(),
                Step::DotsToSlashes => s.replace('.', "/"),
                Step::Reverse => s.chars().rev().collect(),
                Step::AsciiLower => s.to_ascii_lowercase(),
                Step::PrependSlash => format!("/{s}"),
            };
        }
        Some(s)
    }
}
