//! rt_domain — in-process half of property C20 (domain guards).
//!
//! Bounded-exhaustive enumeration of guard strings, hosts and guard pairs, executed against the
//! real validator + `matchit_pattern` of pavexc (hook H4), a real `matchit::Router` (same crate
//! version as the compiler's conflict detector and the generated server) and a replica of the
//! generated host normalisation (checked against the generator source at run time), compared with
//! the reference model in `reference.rs`.
mod reference;
mod subject;

use reference::{Guard, Host, Verdict};
use serde_json::{Value, json};
use std::collections::{BTreeMap, BTreeSet, HashMap};
use std::sync::Mutex;
use std::sync::atomic::{AtomicUsize, Ordering};
use subject::{Detect, GeneratedNormaliser, Real};
use verif_common::{Tier, machinery_error};

/// Insertion order of the compiler's conflict detector, recovered from its source at start-up.
/// `None` = the detector's source was not recognised: the pair law is not judged.
static DETECTOR: std::sync::OnceLock<Option<subject::DetectorModel>> = std::sync::OnceLock::new();
/// How the generated `domain_router()` assigns ids, recovered from `domain_router_init`.
static ID_ASSIGNMENT: std::sync::OnceLock<subject::IdAssignment> = std::sync::OnceLock::new();

fn pair_law_judged() -> bool {
    DETECTOR.get().expect("detector model initialised in main").is_some()
}

fn detector() -> subject::DetectorModel {
    DETECTOR.get().expect("detector model initialised in main").expect("only called when the pair law is judged")
}

/// The generated router is known to insert `matchit_pattern()` of every guard in sorted order.
fn generated_router_replica_in_sync() -> bool {
    *ID_ASSIGNMENT.get().expect("id assignment initialised in main") == subject::IdAssignment::Canonical
}

/// Oracle 4 (source-level): the ids stored in the generated domain router must be the positions
/// used for `domain_{i}` / `route_domain_{i}`.
fn check_codegen_ids() -> Option<Finding> {
    let mut notes = Vec::new();
    match subject::id_assignment_from_source(&mut notes) {
        subject::IdAssignment::Reordered { enumerated, because, statement } => Some(Finding {
            key: "codegen:domain-ids-do-not-match-dispatch-table".into(),
            what: format!(
                "codegen/router.rs::domain_router_init numbers the guard patterns with `.enumerate()` applied to `{enumerated}`, a sequence the function itself rearranges (`{because}` in `{statement}`), while the per-domain routers and the dispatch arms (domain_{{i}}, route_domain_{{i}}) are numbered by the position of the guard in the sorted BTreeMap domain2path_router: whenever the rearrangement moves a guard (for a literal/templated partition e.g. `api.{{tenant}}.example.com` + `example.com`: sorted order puts the templated one first), a Host that fits guard A is dispatched to the routes registered under guard B"
            ),
            case: json!({"kind": "codegen-ids"}),
        }),
        _ => None,
    }
}

fn sorted_only() -> bool {
    detector().order == subject::DetectorOrder::Sorted
}

/// Conflict detection for a pair of (guard, pattern) in the order (first, second), replicating
/// `detect_domain_conflicts`; `NotApplicable` if neither the compiler nor the generated code can
/// ever insert in this order.
fn detect_pair(first: (&str, &str), second: (&str, &str), is_sorted_order: bool) -> (Detect, Option<matchit::Router<u32>>) {
    if !is_sorted_order && sorted_only() {
        return (Detect::NotApplicable, None);
    }
    let (d, r) = subject::detect(&[first.1, second.1]);
    if d == Detect::Accepted && detector().ambiguity_check {
        match subject::ambiguous_hook(first.0, second.0) {
            Some(Ok(true)) => return (Detect::Conflict { with: format!("{} (is_ambiguous_with)", first.0) }, r),
            Some(Ok(false)) => {}
            other => machinery_error(&format!("ambiguity hook failed on accepted guards {:?} / {:?}: {other:?}", first.0, second.0)),
        }
    }
    (d, r)
}

const GUARD_ALPHABET: &[u8] = b"a1-.{}*_";
const HOST_ALPHABET: &[u8] = b"ab1-.";

struct Cfg {
    /// all guard strings up to this length
    guard_len: usize,
    /// guards up to this length enter the pair square
    pair_guard_len: usize,
    /// all host strings up to this length (well-formed ones get a verdict)
    host_len: usize,
    /// plus every host of <= 3 labels whose labels have at most this many characters
    host_label_len: usize,
    /// pairs of guards that both have at most this length: full square, hosts up to pair_host_len
    pair_full_len: usize,
    /// host strings up to this length are used for the pair law (full-square pairs)
    pair_host_len: usize,
    /// all other pairs: same-shape pairs and pairs of shape representatives only, hosts up to this
    pair_host_len_small: usize,
}

fn cfg_for(tier: Tier, args: &verif_common::Args) -> Cfg {
    let mut c = match tier {
        Tier::Quick => Cfg {
            guard_len: 6,
            pair_guard_len: 6,
            pair_full_len: 0,
            host_len: 6,
            host_label_len: 2,
            pair_host_len: 5,
            pair_host_len_small: 5,
        },
        Tier::Thorough => Cfg {
            guard_len: 9,
            pair_guard_len: 7,
            pair_full_len: 6,
            host_len: 7,
            host_label_len: 2,
            pair_host_len: 6,
            pair_host_len_small: 5,
        },
    };
    let num = |k: &str| args.extra(k).and_then(|v| v.parse::<usize>().ok());
    if let Some(v) = num("guard-len") {
        c.guard_len = v;
    }
    if let Some(v) = num("pair-guard-len") {
        c.pair_guard_len = v;
    }
    if let Some(v) = num("host-len") {
        c.host_len = v;
    }
    if let Some(v) = num("pair-host-len") {
        c.pair_host_len = v;
    }
    if let Some(v) = num("pair-full-len") {
        c.pair_full_len = v;
    }
    if let Some(v) = num("pair-host-len-small") {
        c.pair_host_len_small = v;
    }
    c.pair_host_len_small = c.pair_host_len_small.min(c.pair_host_len);
    c
}

// ---------------------------------------------------------------------------------------------
// Violations
// ---------------------------------------------------------------------------------------------

#[derive(Debug, Clone)]
struct Finding {
    key: String,
    what: String,
    case: Value,
}

/// One defect, few keys: routing mismatches are first keyed by the guard's feature set
/// (`route:real-…:ref-…:guard[L,P,dot]:host[dot]`). If, for the same outcome and host form,
/// * the same feature set without `dot` also fails, the `dot` variant is folded into it;
/// * the plainest guards (`[L]`, literal labels only) fail too, the guard is irrelevant and
///   everything is folded into `guard[any]`.
fn collapse_route_keys(findings: &mut [Finding]) {
    let keys: BTreeSet<String> = findings.iter().map(|f| f.key.clone()).collect();
    let split = |k: &str| -> Option<(String, String, String)> {
        let k = k.strip_prefix("route:")?;
        let g = k.find(":guard[")?;
        let h = k.find("]:host[")?;
        Some((k[..g].to_string(), k[g + 7..h].to_string(), k[h + 7..k.len() - 1].to_string()))
    };
    for f in findings.iter_mut() {
        let Some((outcome, feats, host)) = split(&f.key) else { continue };
        let mk = |feats: &str| format!("route:{outcome}:guard[{feats}]:host[{host}]");
        if keys.contains(&mk("L")) {
            f.key = mk("any");
            continue;
        }
        if let Some(base) = feats.strip_suffix(",dot") {
            if keys.contains(&mk(base)) {
                f.key = mk(base);
            }
        }
    }
}

fn feature_set(g: &Guard, raw: &str) -> String {
    let mut s: BTreeSet<&str> = g.class().split('.').map(|x| match x {
        "L" => "L",
        "P" => "P",
        "Pt" => "Pt",
        "C" => "C",
        _ => "Ct",
    }).collect();
    if raw.ends_with('.') {
        s.insert("dot");
    }
    s.into_iter().collect::<Vec<_>>().join(",")
}

/// Names of the parameters of a matchit pattern, in pattern order.
fn pattern_param_names(pattern: &str) -> Vec<String> {
    let mut out = Vec::new();
    let mut rest = pattern;
    while let Some(i) = rest.find('{') {
        let after = &rest[i + 1..];
        let Some(j) = after.find('}') else { break };
        out.push(after[..j].trim_start_matches('*').to_string());
        rest = &after[j + 1..];
    }
    out
}

/// Oracle 1 (validator) + oracle 1b (parameter names survive into the pattern, the pattern is
/// accepted by matchit). Slow path, used for confirmation and replay.
fn check_validator(guard: &str) -> Option<Finding> {
    let real = subject::real_guard(guard);
    let refv = reference::validate(guard);
    let case = json!({"kind": "validator", "guard": guard});
    match (&real, &refv) {
        (Real::Panicked { message }, _) => Some(Finding {
            key: "validator:panic".into(),
            what: format!("validator panicked on guard {guard:?}: {message}"),
            case,
        }),
        (Real::Accepted { pattern }, Err(r)) => Some(Finding {
            key: format!("validator:real-accepts:ref-rejects({})", r.as_str()),
            what: format!(
                "guard {guard:?} is accepted by the real validator (pattern {pattern:?}) but the documented rules reject it: {}",
                r.as_str()
            ),
            case,
        }),
        (Real::Rejected { message }, Ok(g)) => Some(Finding {
            key: format!("validator:real-rejects({}):ref-accepts", subject::error_class(message)),
            what: format!(
                "guard {guard:?} (class {}) is valid under the documented rules but the real validator rejects it: {message}",
                g.class()
            ),
            case,
        }),
        (Real::Rejected { .. }, Err(_)) => None,
        (Real::Accepted { pattern }, Ok(g)) => {
            let mut names = pattern_param_names(pattern);
            names.reverse();
            if names != g.param_names() {
                return Some(Finding {
                    key: "pattern:param-names-not-preserved".into(),
                    what: format!(
                        "guard {guard:?} names its parameters {:?} but the router pattern {pattern:?} binds {:?}",
                        g.param_names(),
                        names
                    ),
                    case,
                });
            }
            let (d, _) = subject::detect(&[pattern.as_str()]);
            if d != Detect::Accepted {
                return Some(Finding {
                    key: format!("matchit-rejects-accepted-guard({})", feature_set(g, guard)),
                    what: format!(
                        "guard {guard:?} is accepted, but its pattern {pattern:?} cannot be inserted in a matchit router: {d:?} (the compiler hits unreachable!/the generated server panics at start-up)"
                    ),
                    case,
                });
            }
            None
        }
    }
}

fn verdict_str(v: Verdict) -> &'static str {
    match v {
        Verdict::Match => "match",
        Verdict::NoMatch => "nomatch",
        Verdict::Unspecified => "unspecified",
    }
}

/// Oracle 2 (routing of one host through a single-guard router). Slow path.
/// Returns (real routed?, reference verdict, finding).
fn check_route(norm: &GeneratedNormaliser, guard: &str, host: &str) -> (Option<bool>, Option<Verdict>, Option<Finding>) {
    let (Real::Accepted { pattern }, Ok(g)) = (subject::real_guard(guard), reference::validate(guard)) else {
        return (None, None, None);
    };
    let (d, router) = subject::detect(&[pattern.as_str()]);
    if d != Detect::Accepted {
        return (None, None, None);
    }
    let router = router.unwrap();
    let h = Host::new(host);
    if !h.well_formed {
        return (None, None, None);
    }
    let real = match norm.apply(host.as_bytes()) {
        Some(n) => router.at(&n).is_ok(),
        None => false,
    };
    let refv = reference::matches(&g, &h);
    let bad = match refv {
        Verdict::Match => !real,
        Verdict::NoMatch => real,
        Verdict::Unspecified => false,
    };
    let f = bad.then(|| Finding {
        key: format!(
            "route:real-{}:ref-{}:guard[{}]:host[{}]",
            if real { "match" } else { "nomatch" },
            verdict_str(refv),
            feature_set(&g, guard),
            if h.trailing_dot { "dot" } else { "nodot" }
        ),
        what: format!(
            "guard {guard:?} (pattern {pattern:?}) vs Host {host:?} (normalised {:?}): the router {} but the documented semantics say {}",
            norm.apply(host.as_bytes()),
            if real { "matches" } else { "does not match" },
            verdict_str(refv)
        ),
        case: json!({"kind": "route", "guard": guard, "host": host}),
    });
    (Some(real), Some(refv), f)
}

#[derive(Debug, Clone, Copy, PartialEq, Eq, Hash, PartialOrd, Ord)]
enum PairClass {
    RejectedOverlapping,
    RejectedEqualSets,
    RejectedDisjointOnUniverse,
    AcceptedDisjoint,
    AcceptedStrictSpecificity,
}

impl PairClass {
    fn as_str(&self) -> &'static str {
        match self {
            PairClass::RejectedOverlapping => "rejected,overlapping",
            PairClass::RejectedEqualSets => "rejected,equal-match-sets",
            PairClass::RejectedDisjointOnUniverse => "rejected,disjoint-on-host-universe",
            PairClass::AcceptedDisjoint => "accepted,disjoint",
            PairClass::AcceptedStrictSpecificity => "accepted,overlap-with-strictly-more-specific-winner",
        }
    }
}

/// Oracle 3 (pair law) on an explicit list of hosts. Slow path (confirmation / replay); the
/// explorer uses a bitset fast path, which must agree.
/// `skip_panic`: do not report a panicking insert order (it has its own key), judge the law with
/// the insertion order(s) that work.
fn check_pair(norm: &GeneratedNormaliser, g1: &str, g2: &str, hosts: &[String], skip_panic: bool) -> (Option<PairClass>, Option<Finding>) {
    if !pair_law_judged() {
        return (None, None);
    }
    let (Real::Accepted { pattern: p1 }, Ok(r1)) = (subject::real_guard(g1), reference::validate(g1)) else {
        return (None, None);
    };
    let (Real::Accepted { pattern: p2 }, Ok(r2)) = (subject::real_guard(g2), reference::validate(g2)) else {
        return (None, None);
    };
    let case = json!({"kind": "pair", "g1": g1, "g2": g2, "hosts": hosts, "skip_panic": skip_panic});
    // The generated server inserts in `BTreeMap<DomainGuard, _>` order = byte order of the
    // normalised guard strings; the compiler checks in registration order (either) unless its
    // source says it sorts too.
    let runtime_is_12 = g1.trim_end_matches('.') <= g2.trim_end_matches('.');
    let (d12, router12) = detect_pair((g1, &p1), (g2, &p2), runtime_is_12);
    let (d21, router21) = detect_pair((g2, &p2), (g1, &p1), !runtime_is_12);
    if !skip_panic {
        for (d, first, second) in [(&d12, g1, g2), (&d21, g2, g1)] {
            if let Detect::Panicked { message } = d {
                return (None, Some(Finding {
                    key: "pair:conflict-detector-panics-in-matchit-insert".into(),
                    what: format!("guards {first:?} then {second:?} (both accepted; patterns {p1:?}, {p2:?}): building the matchit router the way detect_domain_conflicts / the generated domain_router() do PANICS inside matchit::Router::insert ({message}); orders: [{g1:?},{g2:?}] -> {d12:?}, [{g2:?},{g1:?}] -> {d21:?}"),
                    case: json!({"kind": "pair", "g1": g1, "g2": g2, "hosts": [], "skip_panic": false}),
                }));
            }
        }
    }
    for d in [&d12, &d21] {
        if let Detect::OtherInsertError { error } = d {
            return (None, Some(Finding {
                key: "pair:insert-error-other-than-conflict".into(),
                what: format!("guards {g1:?} + {g2:?} (patterns {p1:?}, {p2:?}): matchit insert fails with {error}, which detect_domain_conflicts treats as unreachable!"),
                case,
            }));
        }
    }
    let unusable = |d: &Detect| matches!(d, Detect::Panicked { .. } | Detect::NotApplicable);
    if unusable(&d12) && unusable(&d21) {
        return (None, None);
    }
    let (d_runtime, d_other) = if runtime_is_12 { (&d12, &d21) } else { (&d21, &d12) };
    if generated_router_replica_in_sync() && *d_other == Detect::Accepted && matches!(d_runtime, Detect::Conflict { .. }) {
        return (None, Some(Finding {
            key: "pair:accepted-by-detector-but-generated-router-conflicts".into(),
            what: format!("guards {g1:?} + {g2:?} (patterns {p1:?}, {p2:?}): registered in one order the conflict detector accepts them ({d_other:?}), but the generated domain_router() inserts in sorted order, where matchit reports {d_runtime:?} and the unwrap panics at start-up"),
            case,
        }));
    }
    // verdicts that differ by order where the sorted order works are only counted (a spurious
    // rejection in one registration order is not forbidden by the property)
    let accepted = d12 == Detect::Accepted || d21 == Detect::Accepted;
    let router12 = if d12 == Detect::Accepted { router12 } else { None };
    let router21 = if d21 == Detect::Accepted { router21 } else { None };
    // reference match sets on the listed hosts
    let hs: Vec<Host> = hosts.iter().map(|h| Host::new(h)).filter(|h| h.well_formed).collect();
    let m1: Vec<Verdict> = hs.iter().map(|h| reference::matches(&r1, h)).collect();
    let m2: Vec<Verdict> = hs.iter().map(|h| reference::matches(&r2, h)).collect();
    let usable = |i: usize| m1[i] != Verdict::Unspecified && m2[i] != Verdict::Unspecified;
    let same_shape = r1.shape() == r2.shape();
    let overlap = (0..hs.len()).any(|i| usable(i) && m1[i] == Verdict::Match && m2[i] == Verdict::Match);
    if !accepted {
        let class = if same_shape {
            PairClass::RejectedEqualSets
        } else if overlap {
            PairClass::RejectedOverlapping
        } else {
            PairClass::RejectedDisjointOnUniverse
        };
        return (Some(class), None);
    }
    if same_shape {
        return (None, Some(Finding {
            key: "pair:equal-match-sets-accepted".into(),
            what: format!("guards {g1:?} and {g2:?} differ only in parameter names, so they match exactly the same hosts, yet the conflict detector accepts the pair (patterns {p1:?}, {p2:?})"),
            case,
        }));
    }
    // routing of every listed host through the two-guard router, both insertion orders
    let mut winners: Vec<(usize, u32)> = Vec::new(); // (host index, winning guard 0/1) where both match
    for (i, h) in hs.iter().enumerate() {
        if !usable(i) {
            continue;
        }
        let n = norm.apply(h.raw.as_bytes());
        let lookup = |r: &Option<matchit::Router<u32>>, flip: bool| -> Option<Option<u32>> {
            r.as_ref().map(|r| n.as_ref().and_then(|n| r.at(n).ok().map(|m| if flip { 1 - *m.value } else { *m.value })))
        };
        let a12 = lookup(&router12, false);
        let a21 = lookup(&router21, true);
        let one_case = json!({"kind": "pair", "g1": g1, "g2": g2, "hosts": [h.raw], "skip_panic": skip_panic});
        if let (Some(x), Some(y)) = (a12, a21) {
            if x != y {
                return (None, Some(Finding {
                    key: "pair:routing-depends-on-insertion-order".into(),
                    what: format!("guards {g1:?} + {g2:?}, Host {:?}: inserted in this order the router picks {x:?}, in the opposite order {y:?} (0 = first guard, 1 = second)", h.raw),
                    case: one_case,
                }));
            }
        }
        let got = a12.or(a21).unwrap();
        let (x1, x2) = (m1[i] == Verdict::Match, m2[i] == Verdict::Match);
        match (x1, x2, got) {
            (false, false, Some(w)) => {
                return (None, Some(Finding {
                    key: "pair:host-matching-neither-is-routed".into(),
                    what: format!("guards {g1:?} + {g2:?}: Host {:?} fits neither, but the two-guard router sends it to guard #{w}", h.raw),
                    case: one_case,
                }));
            }
            (true, false, got) if got != Some(0) => {
                return (None, Some(Finding {
                    key: format!("pair:host-matching-one-guard-{}", if got.is_none() { "is-dropped" } else { "goes-to-the-other" }),
                    what: format!("guards {g1:?} + {g2:?}: Host {:?} fits only {g1:?}, but the two-guard router answers {got:?}", h.raw),
                    case: one_case,
                }));
            }
            (false, true, got) if got != Some(1) => {
                return (None, Some(Finding {
                    key: format!("pair:host-matching-one-guard-{}", if got.is_none() { "is-dropped" } else { "goes-to-the-other" }),
                    what: format!("guards {g1:?} + {g2:?}: Host {:?} fits only {g2:?}, but the two-guard router answers {got:?}", h.raw),
                    case: one_case,
                }));
            }
            (true, true, None) => {
                return (None, Some(Finding {
                    key: "pair:host-matching-both-is-dropped".into(),
                    what: format!("guards {g1:?} + {g2:?}: Host {:?} fits both, but the two-guard router matches nothing", h.raw),
                    case: one_case,
                }));
            }
            (true, true, Some(w)) => winners.push((i, w)),
            _ => {}
        }
    }
    if winners.is_empty() {
        return (Some(PairClass::AcceptedDisjoint), None);
    }
    // clear priority: the winner must be strictly more specific than the loser
    for (hi, w) in &winners {
        let (mw, ml, gw, gl) = if *w == 0 { (&m1, &m2, g1, g2) } else { (&m2, &m1, g2, g1) };
        if let Some(j) = (0..hs.len()).find(|&j| usable(j) && mw[j] == Verdict::Match && ml[j] == Verdict::NoMatch) {
            return (None, Some(Finding {
                key: "pair:overlap-accepted-without-specificity-order".into(),
                what: format!(
                    "guards {g1:?} + {g2:?} are accepted by the conflict detector although Host {:?} fits both; the router sends it to {gw:?}, which is not a special case of {gl:?} (Host {:?} fits {gw:?} but not {gl:?}), so there is no clear priority between them",
                    hs[*hi].raw, hs[j].raw
                ),
                case: json!({"kind": "pair", "g1": g1, "g2": g2, "hosts": [hs[*hi].raw, hs[j].raw], "skip_panic": skip_panic}),
            }));
        }
    }
    (Some(PairClass::AcceptedStrictSpecificity), None)
}

// ---------------------------------------------------------------------------------------------
// Host universe
// ---------------------------------------------------------------------------------------------

struct HostUniverse {
    /// well-formed hosts (verdict)
    hosts: Vec<Host>,
    /// index into `keys` of the normalised form; None = the generated code finds no host at all
    host_key: Vec<Option<usize>>,
    /// ill-formed hosts (observation only): (raw, category, key)
    odd: Vec<(String, &'static str, Option<usize>)>,
    /// distinct normalised strings, i.e. what is actually looked up in the router
    keys: Vec<String>,
}

fn all_strings(alphabet: &[u8], max_len: usize, mut f: impl FnMut(&str)) {
    let mut buf: Vec<u8> = Vec::new();
    fn rec(alphabet: &[u8], max_len: usize, buf: &mut Vec<u8>, f: &mut dyn FnMut(&str)) {
        if !buf.is_empty() {
            f(std::str::from_utf8(buf).unwrap());
        }
        if buf.len() == max_len {
            return;
        }
        for &c in alphabet {
            buf.push(c);
            rec(alphabet, max_len, buf, f);
            buf.pop();
        }
    }
    rec(alphabet, max_len, &mut buf, &mut f);
}

fn odd_category(raw: &str) -> &'static str {
    if raw.chars().all(|c| c == '.') {
        "only-dots"
    } else if raw.ends_with("..") && !raw.trim_end_matches('.').contains("..") && !raw.starts_with('.') {
        "several-trailing-dots"
    } else {
        "empty-inner-or-leading-label"
    }
}

fn build_hosts(cfg: &Cfg, norm: &GeneratedNormaliser) -> HostUniverse {
    let mut raws: BTreeSet<String> = BTreeSet::new();
    all_strings(HOST_ALPHABET, cfg.host_len, |s| {
        raws.insert(s.to_string());
    });
    // every host of <= 3 labels with labels of <= host_label_len characters, with/without dot
    let mut labels: Vec<String> = Vec::new();
    all_strings(&HOST_ALPHABET[..4], cfg.host_label_len, |s| labels.push(s.to_string()));
    for a in &labels {
        raws.insert(a.clone());
        raws.insert(format!("{a}."));
        for b in &labels {
            raws.insert(format!("{a}.{b}"));
            raws.insert(format!("{a}.{b}."));
            for c in &labels {
                raws.insert(format!("{a}.{b}.{c}"));
                raws.insert(format!("{a}.{b}.{c}."));
            }
        }
    }
    let mut u = HostUniverse { hosts: vec![], host_key: vec![], odd: vec![], keys: vec![] };
    let mut key_ix: HashMap<String, usize> = HashMap::new();
    for raw in raws {
        let n = norm.apply(raw.as_bytes());
        if let Some(hard_wired) = norm.hard_wired {
            let q = hard_wired(raw.as_bytes());
            if q != n {
                machinery_error(&format!(
                    "host normaliser interpreter disagrees with the hard-wired copy on {raw:?}: {n:?} vs {q:?}"
                ));
            }
        }
        let k = n.map(|n| {
            *key_ix.entry(n.clone()).or_insert_with(|| {
                u.keys.push(n);
                u.keys.len() - 1
            })
        });
        let h = Host::new(&raw);
        if h.well_formed {
            u.hosts.push(h);
            u.host_key.push(k);
        } else {
            u.odd.push((raw.clone(), odd_category(&raw), k));
        }
    }
    u
}

// ---------------------------------------------------------------------------------------------
// Length edge cases
// ---------------------------------------------------------------------------------------------

fn edge_guards() -> Vec<String> {
    let mut out: BTreeSet<String> = BTreeSet::new();
    let a = |n: usize| "a".repeat(n);
    let long_name = format!("p{}", "q".repeat(69));
    // single label of effective length 62..=65, plain / param / catch-all, first or last, +- dot
    for n in 62..=65usize {
        let variants = vec![
            a(n),
            format!("{}-{}", a(n - 2), "1"),
            format!("{{p}}{}", a(n - 1)),
            format!("{{{long_name}}}{}", a(n - 1)),
            format!("{{*p}}{}", a(n - 1)),
            format!("{{*{long_name}}}{}", a(n - 1)),
        ];
        for v in variants {
            for g in [v.clone(), format!("{v}.a1"), format!("a1.{v}"), format!("{{s}}.{v}")] {
                out.insert(g.clone());
                out.insert(format!("{g}."));
            }
        }
    }
    // total effective length 252..=255
    for total in 252..=255usize {
        // four labels: 63 + 63 + 63 + x, three dots
        let x = total - 3 - 3 * 63;
        let base = vec![a(63), a(63), a(63)];
        let lasts = vec![a(x), format!("{{p}}{}", a(x - 1)), format!("{{{long_name}}}{}", a(x - 1))];
        for last in &lasts {
            let g = format!("{}.{}", base.join("."), last);
            out.insert(g.clone());
            out.insert(format!("{g}."));
        }
        let firsts = vec![
            a(x),
            format!("{{p}}{}", a(x - 1)),
            format!("{{*p}}{}", a(x - 1)),
            format!("{{*{long_name}}}{}", a(x - 1)),
        ];
        for first in &firsts {
            let g = format!("{}.{}", first, base.join("."));
            out.insert(g.clone());
            out.insert(format!("{g}."));
        }
        // many short labels: `a.` repeated, parameters counting 1 each
        let n_labels = (total + 1) / 2;
        if total % 2 == 1 {
            let g = vec!["a"; n_labels].join(".");
            out.insert(g.clone());
            out.insert(format!("{g}."));
        }
        // the 7 x 35/36 layout of the upstream unit test, generalised
        let mut g = String::new();
        let mut left = total;
        while left > 36 {
            g.push_str(&a(35));
            g.push('.');
            left -= 36;
        }
        g.push_str(&a(left));
        out.insert(g.clone());
        out.insert(format!("{g}."));
    }
    out.into_iter().collect()
}

/// Hosts derived from an (edge-case) guard: every parameter instantiated, plus near misses.
fn derived_hosts(g: &Guard) -> Vec<String> {
    use reference::Kind;
    let mut out: BTreeSet<String> = BTreeSet::new();
    for fill in ["b", "ab", "b.ab"] {
        let mut labels: Vec<String> = Vec::new();
        for l in &g.labels {
            match l.kind {
                Kind::Plain => labels.push(l.tail.clone()),
                Kind::Param => labels.push(format!("{}{}", fill.replace('.', ""), l.tail)),
                Kind::CatchAll => labels.push(format!("{fill}{}", l.tail)),
            }
        }
        let h = labels.join(".");
        out.insert(h.clone());
        out.insert(format!("{h}."));
        out.insert(format!("b.{h}"));
        if h.len() > 1 {
            out.insert(h[1..].to_string());
            out.insert(h[..h.len() - 1].to_string());
        }
        if labels.len() > 1 {
            out.insert(labels[1..].join("."));
        }
        // parameters left empty
        let bare: Vec<String> = g.labels.iter().map(|l| l.tail.clone()).collect();
        if bare.iter().all(|l| !l.is_empty()) {
            out.insert(bare.join("."));
        }
    }
    out.into_iter().filter(|h| !h.is_empty() && Host::new(h).well_formed).collect()
}

/// Extra guard strings outside the enumeration alphabet: identifier corner cases of `{name}`.
fn extra_guards() -> Vec<String> {
    [
        "{fn}.a", "{self}.a", "{Self}.a", "{as}.a", "{_}.a", "{__}.a", "{a}.{a}", "{A}.a", "A.a", "{a}A",
        "{*fn}.a", "{*_}.a", "{a}.{*a}", "{*a}.{*a}", "{*a}{a}", "{a}{*a}", "a.{a}b-", "{a}-b", "{a}--b", "xn--a.a",
        "a--b", "é.a", "a.{*a}a", "a.{*a}a.a", "{a}.{*a}a", "a1.{*x}", "{*a}a.{a}a", "{a}.é", "a b", "a\t", "a/b", "{a/b}", "{a}/b", "a:1",
    ]
    .iter()
    .map(|s| s.to_string())
    .collect()
}

// ---------------------------------------------------------------------------------------------
// Explorer
// ---------------------------------------------------------------------------------------------

#[derive(Default)]
struct Stats {
    guards: u64,
    real_accept: u64,
    real_reject: BTreeMap<&'static str, u64>,
    ref_reject: BTreeMap<&'static str, u64>,
    accepted_by_class: BTreeMap<String, u64>,
    route_evals: u64,
    route_hist: BTreeMap<String, u64>,
    odd_hist: BTreeMap<String, u64>,
    guards_matching_some_host: u64,
    accepted: Vec<(String, String)>, // (guard, pattern) kept for the pair phase
    findings: Vec<Finding>,
    samples: Vec<Value>,
    sample_classes: BTreeSet<String>,
}

impl Stats {
    fn merge(&mut self, o: Stats) {
        self.guards += o.guards;
        self.real_accept += o.real_accept;
        for (k, v) in o.real_reject {
            *self.real_reject.entry(k).or_default() += v;
        }
        for (k, v) in o.ref_reject {
            *self.ref_reject.entry(k).or_default() += v;
        }
        for (k, v) in o.accepted_by_class {
            *self.accepted_by_class.entry(k).or_default() += v;
        }
        self.route_evals += o.route_evals;
        for (k, v) in o.route_hist {
            *self.route_hist.entry(k).or_default() += v;
        }
        for (k, v) in o.odd_hist {
            *self.odd_hist.entry(k).or_default() += v;
        }
        self.guards_matching_some_host += o.guards_matching_some_host;
        self.accepted.extend(o.accepted);
        self.findings.extend(o.findings);
        for v in o.samples {
            let c = v["class"].as_str().unwrap_or_default().to_string();
            if self.sample_classes.insert(c) {
                self.samples.push(v);
            }
        }
    }
}

/// Fast path for one guard string: validator comparison, then (if accepted) all hosts.
fn explore_guard(
    guard: &str,
    u: &HostUniverse,
    extra_hosts: Option<&[String]>,
    norm: &GeneratedNormaliser,
    keep_for_pairs: bool,
    st: &mut Stats,
    key_hits: &mut Vec<bool>,
) {
    st.guards += 1;
    let real = subject::real_guard(guard);
    let refv = reference::validate(guard);
    match &real {
        Real::Accepted { .. } => st.real_accept += 1,
        Real::Rejected { message } => *st.real_reject.entry(subject::error_class(message)).or_default() += 1,
        Real::Panicked { .. } => *st.real_reject.entry("PANIC").or_default() += 1,
    }
    if let Err(r) = &refv {
        *st.ref_reject.entry(r.as_str()).or_default() += 1;
    }
    let (pattern, g) = match (&real, &refv) {
        (Real::Accepted { pattern }, Ok(g)) => (pattern, g),
        (Real::Rejected { .. }, Err(_)) => return,
        _ => {
            match check_validator(guard) {
                Some(f) => st.findings.push(f),
                None => machinery_error(&format!("nondeterministic validator verdict for {guard:?}")),
            }
            return;
        }
    };
    *st.accepted_by_class.entry(g.class()).or_default() += 1;
    // parameter names + insertability
    let mut names = pattern_param_names(pattern);
    names.reverse();
    let (d1, router) = subject::detect(&[pattern.as_str()]);
    let insert_ok = d1 == Detect::Accepted;
    if names != g.param_names() || !insert_ok {
        match check_validator(guard) {
            Some(f) => st.findings.push(f),
            None => machinery_error(&format!("pattern check for {guard:?} did not reproduce")),
        }
        if !insert_ok {
            return;
        }
    }
    let router = router.unwrap();
    if keep_for_pairs {
        st.accepted.push((guard.to_string(), pattern.clone()));
    }
    // routing: one lookup per distinct normalised host, one reference verdict per raw host
    key_hits.clear();
    key_hits.extend(u.keys.iter().map(|k| router.at(k).is_ok()));
    let mut any = false;
    let mut bad: Option<usize> = None;
    let mut counts = [[0u64; 3]; 2];
    for (i, h) in u.hosts.iter().enumerate() {
        let real = u.host_key[i].map(|k| key_hits[k]).unwrap_or(false);
        let refv = reference::matches(g, h);
        counts[real as usize][refv as usize] += 1;
        any |= real;
        let mismatch = match refv {
            Verdict::Match => !real,
            Verdict::NoMatch => real,
            Verdict::Unspecified => false,
        };
        if mismatch && bad.is_none() {
            bad = Some(i);
        }
    }
    st.route_evals += u.hosts.len() as u64;
    for (r, row) in counts.iter().enumerate() {
        for (v, n) in row.iter().enumerate() {
            if *n > 0 {
                let name = format!(
                    "real={},ref={}",
                    if r == 1 { "match" } else { "nomatch" },
                    ["match", "nomatch", "unspecified"][v]
                );
                *st.route_hist.entry(name).or_default() += n;
            }
        }
    }
    if let Some(i) = bad {
        // report every distinct key this guard produces (bounded by the key space), confirmed
        let mut seen = BTreeSet::new();
        for (j, h) in u.hosts.iter().enumerate().skip(i) {
            let real = u.host_key[j].map(|k| key_hits[k]).unwrap_or(false);
            let refv = reference::matches(g, h);
            let mismatch = matches!((refv, real), (Verdict::Match, false) | (Verdict::NoMatch, true));
            if mismatch && seen.insert((real, h.trailing_dot)) {
                match check_route(norm, guard, &h.raw).2 {
                    Some(f) => st.findings.push(f),
                    None => machinery_error(&format!("routing mismatch for guard {guard:?} host {:?} did not reproduce", h.raw)),
                }
            }
        }
    }
    if let Some(extra) = extra_hosts {
        for h in extra {
            let (real, refv, f) = check_route(norm, guard, h);
            st.route_evals += 1;
            if let (Some(real), Some(refv)) = (real, refv) {
                any |= real;
                *st.route_hist
                    .entry(format!("real={},ref={}", if real { "match" } else { "nomatch" }, verdict_str(refv)))
                    .or_default() += 1;
            }
            if let Some(f) = f {
                st.findings.push(f);
            }
        }
    }
    // observation only: hosts that are not well-formed names
    for (_, cat, k) in &u.odd {
        let real = k.map(|k| key_hits[k]).unwrap_or(false);
        *st.odd_hist.entry(format!("{cat}:{}", if real { "routed" } else { "not-routed" })).or_default() += 1;
    }
    if any {
        st.guards_matching_some_host += 1;
    }
    if any && !st.sample_classes.contains(&g.class()) && st.sample_classes.insert(g.class()) {
        let hit: Vec<&str> = u
            .hosts
            .iter()
            .enumerate()
            .filter(|(i, _)| u.host_key[*i].map(|k| key_hits[k]).unwrap_or(false))
            .take(4)
            .map(|(_, h)| h.raw.as_str())
            .collect();
        st.samples.push(json!({"guard": guard, "pattern": pattern, "class": g.class(), "some_hosts_routed": hit}));
    }
}

fn parallel<T: Send, R: Send>(items: Vec<T>, threads: usize, f: impl Fn(T) -> R + Sync) -> Vec<R> {
    let n = items.len();
    let slots: Vec<Mutex<Option<T>>> = items.into_iter().map(|t| Mutex::new(Some(t))).collect();
    let out: Vec<Mutex<Option<R>>> = (0..n).map(|_| Mutex::new(None)).collect();
    let next = AtomicUsize::new(0);
    std::thread::scope(|s| {
        for _ in 0..threads.max(1) {
            s.spawn(|| {
                loop {
                    let i = next.fetch_add(1, Ordering::Relaxed);
                    if i >= n {
                        break;
                    }
                    let item = slots[i].lock().unwrap().take().unwrap();
                    let r = f(item);
                    *out[i].lock().unwrap() = Some(r);
                }
            });
        }
    });
    out.into_iter().map(|m| m.into_inner().unwrap().expect("worker result")).collect()
}

// ---------------------------------------------------------------------------------------------
// Pair phase (fast path over bitsets; every finding is confirmed through `check_pair`)
// ---------------------------------------------------------------------------------------------

struct PairGuard {
    raw: String,
    pattern: String,
    shape: String,
    /// per pair-host key: reference says Match
    m: Vec<u64>,
    /// per pair-host key: reference verdict is Unspecified
    unspec: Vec<u64>,
}

fn bit(v: &[u64], i: usize) -> bool {
    v[i / 64] >> (i % 64) & 1 == 1
}

#[derive(Default)]
struct PairStats {
    pairs: u64,
    full_pairs: u64,
    lookups: u64,
    hist: BTreeMap<&'static str, u64>,
    findings: Vec<Finding>,
    samples: BTreeMap<&'static str, Value>,
}

fn main() {
    // The subject is allowed to panic only as a reported outcome; keep the default hook quiet.
    // A panic anywhere else is the engine's own fault: machinery error, never a verdict.
    std::panic::set_hook(Box::new(|info| {
        if !subject::IN_SUBJECT.with(|f| f.get()) {
            println!("MACHINERY-ERROR engine panicked: {info}");
            eprintln!("MACHINERY-ERROR engine panicked: {info}");
            std::process::exit(2);
        }
    }));
    let args = verif_common::Args::parse();
    if args.property != "C20" {
        machinery_error(&format!("rt_domain serves C20 only, got {:?}", args.property));
    }
    // Replica self-checks against the source of the code under test. A structure the engine does
    // not recognise is neither a verdict nor a machinery error: it is noted, recorded in the
    // evidence, and only what depends on that replica is skipped.
    let mut notes: Vec<subject::ReplicaNote> = Vec::new();
    let leading_slash = matches!(subject::real_guard("a"), Real::Accepted { pattern } if pattern.starts_with('/'));
    let norm = GeneratedNormaliser::from_source(leading_slash, &mut notes);
    DETECTOR.set(subject::detector_model_from_source(&mut notes)).unwrap();
    ID_ASSIGNMENT.set(subject::id_assignment_from_source(&mut notes)).unwrap();
    for n in &notes {
        println!("NOTE replica-out-of-sync: {}: {} -- {}", n.component, n.what, n.consequence);
    }
    if let Some(path) = &args.replay {
        std::process::exit(replay(&norm, &verif_common::load_replay(path)));
    }
    let mut rep = verif_common::Reporter::from_args(&args);
    let cfg = cfg_for(args.tier, &args);
    let threads = std::thread::available_parallelism().map(|n| n.get()).unwrap_or(8).min(16);

    // Self-check outcome: a changed (but understood) normalisation is followed by the engine and
    // additionally reported as such, so it can never be missed silently.
    let mut findings: Vec<Finding> = Vec::new();
    if let Some(f) = check_codegen_ids() {
        findings.push(f);
    }
    if norm.followed_from_source && !norm.identical_to_expected {
        println!(
            "NOTE generated host normalisation changed: `{}` is none of the forms rt_domain has a hard-wired copy of ({:?}); the engine follows the source",
            norm.chain_text,
            subject::KNOWN_BODIES.iter().map(|(t, _)| *t).collect::<Vec<_>>()
        );
    }

    let u = build_hosts(&cfg, &norm);
    println!(
        "hosts: {} well-formed ({} distinct normalised lookups), {} ill-formed (observation only)",
        u.hosts.len(),
        u.keys.len(),
        u.odd.len()
    );

    // ---- phase 1+2: all guard strings, validator + routing ------------------------------------
    // work items: every prefix of length 3 (each worker extends it to guard_len), plus the short ones
    let mut items: Vec<String> = Vec::new();
    let plen = 3usize.min(cfg.guard_len);
    all_strings(GUARD_ALPHABET, plen, |s| items.push(s.to_string()));
    items.push(String::new()); // the empty guard
    verif_common::rotate_by_seed(&mut items, args.seed);
    let results = parallel(items, threads, |prefix: String| {
        let mut st = Stats::default();
        let mut hits = Vec::new();
        let mut visit = |g: &str, st: &mut Stats| {
            let keep = g.len() <= cfg.pair_guard_len;
            explore_guard(g, &u, None, &norm, keep, st, &mut hits);
        };
        visit(&prefix, &mut st);
        if prefix.len() == plen && cfg.guard_len > plen {
            all_strings(GUARD_ALPHABET, cfg.guard_len - plen, |suffix| {
                let g = format!("{prefix}{suffix}");
                visit(&g, &mut st);
            });
        }
        st
    });
    let mut st = Stats::default();
    for r in results {
        st.merge(r);
    }
    let enumerated_guards = st.guards;
    println!(
        "guards<= {}: {} strings, {} accepted by the real validator, {} guard x host evaluations, wall {:.1}s",
        cfg.guard_len, st.guards, st.real_accept, st.route_evals, rep.wall_s()
    );

    // ---- length edge cases + identifier corner cases -------------------------------------------
    let mut edge = Stats::default();
    let mut hits = Vec::new();
    let mut edge_list = edge_guards();
    edge_list.extend(extra_guards());
    for g in &edge_list {
        let derived = reference::validate(g).ok().map(|r| derived_hosts(&r));
        explore_guard(g, &u, derived.as_deref(), &norm, false, &mut edge, &mut hits);
    }
    let edge_counts = json!({
        "guards": edge.guards, "real_accept": edge.real_accept,
        "real_reject": edge.real_reject, "ref_reject": edge.ref_reject,
        "route_evaluations": edge.route_evals, "route_outcomes": edge.route_hist,
    });
    println!("edge cases: {edge_counts}");
    findings.extend(edge.findings.drain(..));
    findings.extend(st.findings.drain(..));

    // ---- phase 3: the pair law ----------------------------------------------------------------
    // pair universe: accepted guards of length <= pair_guard_len, one per normalised guard
    // (`a` and `a.` are the same DomainGuard for the compiler).
    let mut pair_guards_raw: Vec<(String, String)> =
        st.accepted.iter().filter(|(g, _)| !g.ends_with('.')).cloned().collect();
    pair_guards_raw.sort();
    if !pair_law_judged() {
        println!("pairs: NOT JUDGED in this run (replica of detect_domain_conflicts out of sync, see NOTE above)");
        pair_guards_raw.clear();
    }
    // pair host universe: well-formed hosts without trailing dot up to pair_host_len (the router
    // only ever sees the normalised string, which is the same with and without the dot; the dot is
    // exercised in phase 2), identified by their normalised key.
    let mut pair_hosts: Vec<usize> = (0..u.hosts.len())
        .filter(|&i| !u.hosts[i].trailing_dot && u.hosts[i].raw.len() <= cfg.pair_host_len && u.host_key[i].is_some())
        .collect();
    // shortest first, so that the small universe is a prefix of the bitsets
    pair_hosts.sort_by_key(|&i| (u.hosts[i].raw.len(), i));
    let n_small = pair_hosts.iter().filter(|&&i| u.hosts[i].raw.len() <= cfg.pair_host_len_small).count();
    let n_all = pair_hosts.len();
    let words = pair_hosts.len().div_ceil(64);
    let pgs: Vec<PairGuard> = parallel(pair_guards_raw, threads, |(raw, pattern)| {
        let g = reference::validate(&raw).unwrap();
        let mut m = vec![0u64; words];
        let mut unspec = vec![0u64; words];
        for (b, &hi) in pair_hosts.iter().enumerate() {
            match reference::matches(&g, &u.hosts[hi]) {
                Verdict::Match => m[b / 64] |= 1 << (b % 64),
                Verdict::Unspecified => unspec[b / 64] |= 1 << (b % 64),
                Verdict::NoMatch => {}
            }
        }
        PairGuard { raw, pattern, shape: g.shape(), m, unspec }
    });
    // representatives: first guard (in sorted order) of every shape
    let mut rep_of_shape: BTreeMap<&str, usize> = BTreeMap::new();
    for (i, g) in pgs.iter().enumerate() {
        rep_of_shape.entry(g.shape.as_str()).or_insert(i);
    }
    let is_rep: Vec<bool> = (0..pgs.len()).map(|i| rep_of_shape[pgs[i].shape.as_str()] == i).collect();
    let pair_keys: Vec<&str> = pair_hosts.iter().map(|&hi| u.keys[u.host_key[hi].unwrap()].as_str()).collect();
    println!(
        "pairs: {} guards ({} shapes); full square for guards <= {} on {} hosts; other pairs (same shape, or two shape representatives) on {} hosts",
        pgs.len(),
        rep_of_shape.len(),
        cfg.pair_full_len,
        n_all,
        n_small
    );
    let mut rows: Vec<usize> = (0..pgs.len()).collect();
    verif_common::rotate_by_seed(&mut rows, args.seed);
    let pair_results = parallel(rows, threads, |i: usize| {
        let mut ps = PairStats::default();
        let a = &pgs[i];
        for j in (i + 1)..pgs.len() {
            let b = &pgs[j];
            let same_shape = a.shape == b.shape;
            let full = a.raw.len() <= cfg.pair_full_len && b.raw.len() <= cfg.pair_full_len;
            if !full && !same_shape && !(is_rep[i] && is_rep[j]) {
                continue;
            }
            // host universe of this pair: a prefix of the bitsets
            let nbits = if full { n_all } else { n_small };
            let nw = nbits.div_ceil(64);
            let mask = |w: usize| -> u64 { if w + 1 == nw && nbits % 64 != 0 { (1u64 << (nbits % 64)) - 1 } else { !0u64 } };
            ps.pairs += 1;
            ps.full_pairs += full as u64;
            let (d12, r12) = detect_pair((&a.raw, &a.pattern), (&b.raw, &b.pattern), true);
            let (d21, r21) = detect_pair((&b.raw, &b.pattern), (&a.raw, &a.pattern), false);
            let panicked = matches!(d12, Detect::Panicked { .. }) || matches!(d21, Detect::Panicked { .. });
            if panicked {
                *ps.hist.entry("(one insertion order panics inside matchit)").or_default() += 1;
                match check_pair(&norm, &a.raw, &b.raw, &[], false).1 {
                    Some(f) if f.key.contains("panics") => ps.findings.push(f),
                    _ => machinery_error(&format!("matchit insert panic for {:?} + {:?} did not reproduce", a.raw, b.raw)),
                }
            }
            let unusable = |d: &Detect| matches!(d, Detect::Panicked { .. } | Detect::NotApplicable);
            if unusable(&d12) && unusable(&d21) {
                continue;
            }
            // guards are sorted by their (normalised) string, i < j: order 1,2 is the order in
            // which the generated server inserts.
            let accepted = d12 == Detect::Accepted || d21 == Detect::Accepted;
            if accepted && (matches!(d12, Detect::Conflict { .. }) || matches!(d21, Detect::Conflict { .. })) {
                *ps.hist.entry("(verdict depends on registration order; sorted order builds)").or_default() +=
                    (d12 == Detect::Accepted) as u64;
                ps.samples
                    .entry("(verdict depends on registration order)")
                    .or_insert_with(|| json!({"g1": a.raw, "g2": b.raw, "order_1_2": format!("{d12:?}"), "order_2_1": format!("{d21:?}")}));
            }
            let r12 = if d12 == Detect::Accepted { r12 } else { None };
            let r21 = if d21 == Detect::Accepted { r21 } else { None };
            let mut suspicious: Option<Vec<String>> = None;
            let mut class: Option<PairClass> = None;
            if matches!(d12, Detect::OtherInsertError { .. })
                || matches!(d21, Detect::OtherInsertError { .. })
                || (generated_router_replica_in_sync() && d21 == Detect::Accepted && matches!(d12, Detect::Conflict { .. }))
            {
                suspicious = Some(vec![]);
            } else if !accepted {
                let overlap = (0..nw).any(|w| a.m[w] & b.m[w] & !(a.unspec[w] | b.unspec[w]) & mask(w) != 0);
                class = Some(if same_shape {
                    PairClass::RejectedEqualSets
                } else if overlap {
                    PairClass::RejectedOverlapping
                } else {
                    PairClass::RejectedDisjointOnUniverse
                });
            } else if same_shape {
                suspicious = Some(vec![]);
            } else {
                let mut shared: Vec<(usize, u32)> = Vec::new();
                for (h, key) in pair_keys.iter().enumerate().take(nbits) {
                    if bit(&a.unspec, h) || bit(&b.unspec, h) {
                        continue;
                    }
                    let x12 = r12.as_ref().map(|r| r.at(key).ok().map(|m| *m.value));
                    let x21 = r21.as_ref().map(|r| r.at(key).ok().map(|m| 1 - *m.value));
                    ps.lookups += x12.is_some() as u64 + x21.is_some() as u64;
                    let got = x12.or(x21).unwrap();
                    let expect_ok = match (bit(&a.m, h), bit(&b.m, h)) {
                        (false, false) => got.is_none(),
                        (true, false) => got == Some(0),
                        (false, true) => got == Some(1),
                        (true, true) => got.is_some(),
                    };
                    let order_ok = match (x12, x21) {
                        (Some(x), Some(y)) => x == y,
                        _ => true,
                    };
                    if !order_ok || !expect_ok {
                        suspicious = Some(vec![u.hosts[pair_hosts[h]].raw.clone()]);
                        break;
                    }
                    if bit(&a.m, h) && bit(&b.m, h) {
                        shared.push((h, got.unwrap()));
                    }
                }
                if suspicious.is_none() {
                    if shared.is_empty() {
                        class = Some(PairClass::AcceptedDisjoint);
                    } else {
                        class = Some(PairClass::AcceptedStrictSpecificity);
                        let skip: Vec<u64> = (0..nw).map(|x| a.unspec[x] | b.unspec[x] | !mask(x)).collect();
                        for (h, w) in &shared {
                            let (mw, ml) = if *w == 0 { (&a.m, &b.m) } else { (&b.m, &a.m) };
                            if let Some(x) = (0..nw).find(|&x| mw[x] & !ml[x] & !skip[x] != 0) {
                                let bitpos = (mw[x] & !ml[x] & !skip[x]).trailing_zeros() as usize;
                                let h2 = x * 64 + bitpos;
                                suspicious = Some(vec![
                                    u.hosts[pair_hosts[*h]].raw.clone(),
                                    u.hosts[pair_hosts[h2]].raw.clone(),
                                ]);
                                class = None;
                                break;
                            }
                        }
                    }
                }
            }
            if let Some(hosts) = suspicious {
                let (_, f) = check_pair(&norm, &a.raw, &b.raw, &hosts, true);
                match f {
                    Some(f) => ps.findings.push(f),
                    None => machinery_error(&format!(
                        "pair finding for {:?} + {:?} on hosts {:?} did not reproduce through the slow path",
                        a.raw, b.raw, hosts
                    )),
                }
            } else if let Some(c) = class {
                *ps.hist.entry(c.as_str()).or_default() += 1;
                if !panicked {
                    ps.samples.entry(c.as_str()).or_insert_with(|| json!({"g1": a.raw, "g2": b.raw, "class": c.as_str(), "hosts_checked": nbits}));
                }
            }
        }
        ps
    });
    let mut ps = PairStats::default();
    for r in pair_results {
        ps.pairs += r.pairs;
        ps.full_pairs += r.full_pairs;
        ps.lookups += r.lookups;
        for (k, v) in r.hist {
            *ps.hist.entry(k).or_default() += v;
        }
        ps.findings.extend(r.findings);
        for (k, v) in r.samples {
            ps.samples.entry(k).or_insert(v);
        }
    }
    println!("pairs: {} checked, {} router lookups, classes {:?}, wall {:.1}s", ps.pairs, ps.lookups, ps.hist, rep.wall_s());
    // slow-path cross-check of the fast path on one sample pair per class (machinery self-test)
    let all_pair_hosts: Vec<String> = pair_hosts.iter().map(|&hi| u.hosts[hi].raw.clone()).collect();
    for (k, v) in &ps.samples {
        if k.starts_with('(') {
            continue;
        }
        let nb = v["hosts_checked"].as_u64().unwrap() as usize;
        let (c, f) = check_pair(&norm, v["g1"].as_str().unwrap(), v["g2"].as_str().unwrap(), &all_pair_hosts[..nb], false);
        if f.is_some() || c.map(|c| c.as_str()) != Some(*k) {
            machinery_error(&format!("pair fast path and slow path disagree on {v}: slow path says {c:?} / {:?}", f.map(|f| f.key)));
        }
    }
    findings.extend(ps.findings.drain(..));

    // ---- report ------------------------------------------------------------------------------
    collapse_route_keys(&mut findings);
    // one finding per key, deterministic choice: shortest case text, then lexicographic
    findings.sort_by_cached_key(|f| {
        let c = f.case.to_string();
        (f.key.clone(), c.len(), c)
    });
    let total_findings = findings.len();
    let mut by_key: BTreeMap<String, (Finding, u64)> = BTreeMap::new();
    for f in findings {
        by_key.entry(f.key.clone()).and_modify(|e| e.1 += 1).or_insert((f, 1));
    }
    for (_, (f, n)) in &by_key {
        // determinism: re-execute the stored case once through the replay path
        if replay_quiet(&norm, &f.case).is_none() {
            machinery_error(&format!("nondeterministic: case {} no longer violates (key {})", f.case, f.key));
        }
        rep.violation(&f.key, &format!("{} ({} cases with this key)", f.what, n), f.case.clone());
    }

    let accepted_total = st.real_accept + edge.real_accept;
    let overlapping_pairs: u64 = ps
        .hist
        .iter()
        .filter(|(k, _)| !k.contains("disjoint"))
        .map(|(_, v)| *v)
        .sum();
    let route_matches: u64 = st.route_hist.get("real=match,ref=match").copied().unwrap_or(0)
        + edge.route_hist.get("real=match,ref=match").copied().unwrap_or(0);
    let evaluations = st.guards + edge.guards + st.route_evals + edge.route_evals + ps.pairs + ps.lookups;
    let mut samples = st.samples.clone();
    samples.sort_by_key(|v| std::cmp::Reverse(v["class"].as_str().unwrap_or_default().len()));
    samples.truncate(8);
    samples.extend(ps.samples.values().cloned());
    samples.push(json!({"edge_guard_lengths": edge_list.iter().take(6).map(|g| g.len()).collect::<Vec<_>>(), "first_edge_guard": edge_list.first()}));
    let coverage = json!({
        "evaluations": evaluations,
        "distinct_nontrivial": accepted_total + route_matches + overlapping_pairs,
        "rule": format!(
            "Guards: ALL strings of length 0..={gl} over the alphabet {{a,1,-,.,{{,}},*,_}} ({n_enum} strings) plus {n_edge} constructed length edge cases (labels of effective length 62..65, totals 252..255, with plain/param/catch-all labels, long parameter names, with and without trailing dot) and identifier corner cases; each is fed to the real validator + matchit_pattern (hook H4 pavexc::verif_domain_guard) and the accept/reject verdict is compared with a reference validator written from docs/guide/routing/domain_guards.md and the property statement (oracle 1); for accepted guards the parameter names bound by the pattern must be the ones written in the guard and the pattern must insert into matchit 0.9. \
             Hosts: ALL strings of length 1..={hl} over {{a,b,1,-,.}} plus all hosts of <=3 labels with labels of <={ll} chars, with and without one trailing dot; {wf} are well-formed (no empty label, at most one trailing dot) and get a verdict, {odd} ill-formed ones are observation only. Every accepted guard's real pattern is inserted in a real matchit::Router, every host is normalised exactly as codegen/router.rs::domain_router emits (http Authority::try_from(..).host(), chain `{chain}`, recovered from the generator source at run time and compared with the hard-wired copy) and looked up; the result must equal the reference matcher (literal labels equal; {{p}} = non-empty leading part of one label; leading {{*p}} = one or more labels; one trailing dot ignored on either side) (oracle 2). Outcome `unspecified` (catch-all with literal tail vs a label equal to the tail) is not judged. \
             Pairs: {pg} distinct normalised accepted guards of length <={pgl} ({shapes} shapes when parameter names are erased). Checked pairs: the FULL square of guards of length <={pfl} on all {ph} well-formed hosts of length <={phl}; of the remaining pairs every same-shape pair and every pair of shape representatives (first guard of each shape; a sound restriction: fewer cases, same oracle) on the {phs} hosts of length <={phsl}. For each pair the real patterns are inserted in a matchit router in both orders exactly like detect_domain_conflicts: no insert may panic or fail with anything but Conflict; if some registration order is accepted, the sorted order (the order the generated domain_router() inserts in) must build too; equal shapes (= equal match sets) must be Conflict; for accepted pairs every host is looked up (by its normalised key) in the router(s): same answer in both orders, none iff the reference says neither guard matches, the only matching guard if exactly one matches, and if both match the winner's reference match set must be a subset of the loser's on the host universe (strict specificity, the reading forced by upstream's accepted admin.company.com + {{sub}}.company.com) (oracle 3). Pairs rejected in only one registration order and rejected-but-disjoint pairs are counted, not judged. \
             Non-trivial = accepted guards + (guard,host) evaluations where the host really is routed to the guard + guard pairs whose match sets overlap (rejected or accepted).",
            gl = cfg.guard_len, n_enum = enumerated_guards, n_edge = edge.guards, hl = cfg.host_len, ll = cfg.host_label_len,
            wf = u.hosts.len(), odd = u.odd.len(), chain = norm.chain_text, pg = pgs.len(), pgl = cfg.pair_guard_len,
            shapes = rep_of_shape.len(),
            pfl = cfg.pair_full_len, ph = n_all, phl = cfg.pair_host_len, phs = n_small, phsl = cfg.pair_host_len_small,
        ),
        "samples": samples,
        "exhaustive": true,
        "bounds": {
            "guard_len": cfg.guard_len, "pair_guard_len": cfg.pair_guard_len, "host_len": cfg.host_len,
            "host_label_len": cfg.host_label_len, "pair_host_len": cfg.pair_host_len,
            "pair_full_len": cfg.pair_full_len, "pair_host_len_small": cfg.pair_host_len_small, "caps_hit": false,
        },
        "outcome_histogram": {
            "validator_real": {"accepted": st.real_accept, "rejected_by_error_class": st.real_reject},
            "validator_reference_reject_reasons": st.ref_reject,
            "accepted_guards_by_class": st.accepted_by_class,
            "route": st.route_hist,
            "accepted_guards_routing_at_least_one_host": st.guards_matching_some_host,
            "pairs": ps.hist,
            "edge_cases": edge_counts,
        },
        "counts": {
            "guard_strings_enumerated": enumerated_guards,
            "edge_guards": edge.guards,
            "hosts_well_formed": u.hosts.len(),
            "hosts_distinct_normalised": u.keys.len(),
            "guard_host_evaluations": st.route_evals + edge.route_evals,
            "pair_guards": pgs.len(),
            "pair_shapes": rep_of_shape.len(),
            "pairs_checked": ps.pairs,
            "pairs_checked_full_square_part": ps.full_pairs,
            "pair_hosts": n_all,
            "pair_hosts_small": n_small,
            "pair_router_lookups": ps.lookups,
            "findings_before_key_collapse": total_findings,
        },
        "observations_not_judged": {
            "what": "hosts that are not well-formed names (empty label / several trailing dots): how often a single accepted guard's router routes them; DESIGN §7 item 7: the generated normalisation strips ALL trailing dots although the guide says one",
            "ill_formed_hosts": st.odd_hist,
        },
        "replica_in_sync": notes.is_empty(),
        "replica_notes": notes.iter().map(|n| json!({
            "component": n.component, "what": n.what, "offending_snippet": n.snippet, "consequence": n.consequence,
        })).collect::<Vec<_>>(),
        "oracles_judged": {
            "validator_and_pattern": true,
            "single_guard_routing": true,
            "single_guard_routing_normalisation": if norm.followed_from_source { "followed from the current generator source" } else { "LAST KNOWN-GOOD copy (current source not understood)" },
            "pair_law": pair_law_judged(),
            "pair_law_generated_router_build_order": pair_law_judged() && generated_router_replica_in_sync(),
            "codegen_domain_ids": *ID_ASSIGNMENT.get().unwrap() != subject::IdAssignment::Unknown,
        },
        "conflict_detector_model": format!("{:?}", DETECTOR.get().unwrap()),
        "domain_id_assignment": format!("{:?}", ID_ASSIGNMENT.get().unwrap()),
        "generated_normalisation": {
            "source": norm.source_file, "chain": norm.chain_text, "steps": format!("{:?}", norm.steps),
            "identical_to_expected": norm.identical_to_expected, "followed_from_source": norm.followed_from_source,
        },
    });
    let code = rep.finish(
        "exploration",
        coverage,
        &[
            "the in-process router built from H4's pattern is the router the generated server builds (domain_router_init inserts guard.matchit_pattern() verbatim); the generated code itself runs only in the e2e half",
            "the replicas of the generated host normalisation, of detect_domain_conflicts and of the domain id assignment are compared with the source text at run time: any composition of the known normalisation steps is followed; a structure that is not recognised is recorded under replica_notes (replica_in_sync=false) and only the oracle parts listed as false under oracles_judged are skipped",
            "hosts that are not well-formed DNS names (empty labels, more than one trailing dot) are outside the property's quantifier and only counted",
            "parameter VALUES captured by the router (they come out reversed character-wise) are not part of C20 and are not checked",
            "linking matchit 0.9.0 and http 1.4.0 as pinned by /repo/Cargo.lock",
        ],
    );
    std::process::exit(code);
}

/// Re-execute one stored case; returns the key of the finding it yields (if any).
fn replay_quiet(norm: &GeneratedNormaliser, case: &Value) -> Option<String> {
    let s = |k: &str| case.get(k).and_then(|v| v.as_str()).unwrap_or_default().to_string();
    match case.get("kind").and_then(|k| k.as_str()) {
        Some("codegen-ids") => check_codegen_ids().map(|f| f.key),
        Some("validator") => check_validator(&s("guard")).map(|f| f.key),
        Some("route") => check_route(norm, &s("guard"), &s("host")).2.map(|f| f.key),
        Some("pair") => {
            let hosts: Vec<String> = case
                .get("hosts")
                .and_then(|h| h.as_array())
                .map(|a| a.iter().filter_map(|x| x.as_str().map(|s| s.to_string())).collect())
                .unwrap_or_default();
            let skip = case.get("skip_panic").and_then(|v| v.as_bool()).unwrap_or(false);
            check_pair(norm, &s("g1"), &s("g2"), &hosts, skip).1.map(|f| f.key)
        }
        _ => machinery_error(&format!("replay case of unknown kind: {case}")),
    }
}

fn replay(norm: &GeneratedNormaliser, case: &Value) -> i32 {
    println!("replaying {case}");
    let s = |k: &str| case.get(k).and_then(|v| v.as_str()).unwrap_or_default().to_string();
    let finding = match case.get("kind").and_then(|k| k.as_str()) {
        Some("codegen-ids") => {
            println!("  observed (codegen/router.rs::domain_router_init): {:?}", ID_ASSIGNMENT.get().unwrap());
            println!("  expected: Canonical (ids = position of the guard in the sorted domain2path_router map)");
            check_codegen_ids()
        }
        Some("validator") => {
            let g = s("guard");
            println!("  observed (real validator via H4): {:?}", subject::real_guard(&g));
            println!("  expected (reference validator):   {:?}", reference::validate(&g).map(|g| g.class()).map_err(|e| e.as_str()));
            check_validator(&g)
        }
        Some("route") => {
            let (g, h) = (s("guard"), s("host"));
            let (real, refv, f) = check_route(norm, &g, &h);
            println!("  guard {g:?} -> {:?}", subject::real_guard(&g));
            println!("  host {h:?} -> normalised {:?}", norm.apply(h.as_bytes()));
            println!("  observed (real matchit router): routed = {real:?}");
            println!("  expected (reference matcher):   {:?}", refv.map(verdict_str));
            f
        }
        Some("pair") => {
            let hosts: Vec<String> = case
                .get("hosts")
                .and_then(|h| h.as_array())
                .map(|a| a.iter().filter_map(|x| x.as_str().map(|s| s.to_string())).collect())
                .unwrap_or_default();
            let (g1, g2) = (s("g1"), s("g2"));
            let (p1, p2) = (subject::real_guard(&g1), subject::real_guard(&g2));
            println!("  {g1:?} -> {p1:?}\n  {g2:?} -> {p2:?}");
            if let (Real::Accepted { pattern: p1 }, Real::Accepted { pattern: p2 }) = (&p1, &p2) {
                let runtime_is_12 = g1.trim_end_matches('.') <= g2.trim_end_matches('.');
                let (d12, r12) = detect_pair((&g1, p1), (&g2, p2), runtime_is_12);
                let (d21, r21) = detect_pair((&g2, p2), (&g1, p1), !runtime_is_12);
                println!("  observed conflict detector: order 1,2 -> {d12:?}; order 2,1 -> {d21:?}");
                if let (Ok(r1), Ok(r2)) = (reference::validate(&g1), reference::validate(&g2)) {
                    for h in &hosts {
                        let hh = Host::new(h);
                        if !hh.well_formed {
                            continue;
                        }
                        let got = match (&r12, &r21) {
                            (Some(r), _) if d12 == Detect::Accepted => norm.apply(h.as_bytes()).and_then(|n| r.at(&n).ok().map(|m| *m.value)),
                            (_, Some(r)) if d21 == Detect::Accepted => norm.apply(h.as_bytes()).and_then(|n| r.at(&n).ok().map(|m| 1 - *m.value)),
                            _ => None,
                        };
                        println!(
                            "  host {h:?}: observed winner = {:?}; reference: fits g1 = {}, fits g2 = {}",
                            got.map(|w| if w == 0 { &g1 } else { &g2 }),
                            verdict_str(reference::matches(&r1, &hh)),
                            verdict_str(reference::matches(&r2, &hh))
                        );
                    }
                }
            }
            let skip = case.get("skip_panic").and_then(|v| v.as_bool()).unwrap_or(false);
            let (c, f) = check_pair(norm, &g1, &g2, &hosts, skip);
            println!("  pair class: {:?}", c.map(|c| c.as_str()));
            f
        }
        _ => machinery_error(&format!("replay case of unknown kind: {case}")),
    };
    match finding {
        Some(f) => {
            println!("  STILL VIOLATES: {} [key={}]", f.what, f.key);
            1
        }
        None => {
            println!("  no violation: observed outcome equals expected outcome");
            0
        }
    }
}
