//! Finds the directory of the `pavexc` crate this engine is linked against (the workspace
//! `Cargo.toml` one level up declares it as a path dependency) and exports it as `PAVEXC_DIR`,
//! so that the run-time self-check reads the *same* `codegen/router.rs` that was compiled in.
//! (The mutant recipe rewrites `/repo/` in the workspace manifest; this follows it.)
use std::path::PathBuf;

fn main() {
    let manifest_dir = PathBuf::from(std::env::var("CARGO_MANIFEST_DIR").unwrap());
    let ws = manifest_dir.parent().unwrap().join("Cargo.toml");
    println!("cargo:rerun-if-changed={}", ws.display());
    println!("cargo:rerun-if-changed=build.rs");
    let text = std::fs::read_to_string(&ws).expect("workspace Cargo.toml");
    let mut dir: Option<String> = None;
    for line in text.lines() {
        let l = line.trim_start();
        if l.starts_with("pavexc ") || l.starts_with("pavexc=") {
            if let Some(p) = l.find("path") {
                let rest = &l[p..];
                if let Some(q1) = rest.find('"') {
                    if let Some(q2) = rest[q1 + 1..].find('"') {
                        dir = Some(rest[q1 + 1..q1 + 1 + q2].to_string());
                    }
                }
            }
        }
    }
    let dir = dir.expect("no `pavexc = { path = \"…\" }` line in the workspace Cargo.toml");
    let dir = if dir.starts_with('/') {
        PathBuf::from(dir)
    } else {
        manifest_dir.parent().unwrap().join(dir)
    };
    println!("cargo:rustc-env=PAVEXC_DIR={}", dir.display());
    // Optional hook H4b (only exists once `fix-ambiguous-overlap.patch` is applied): the pairwise
    // ambiguity check that the patched `detect_domain_conflicts` runs after matchit.
    println!("cargo:rustc-check-cfg=cfg(has_ambiguity_hook)");
    let lib = dir.join("src/lib.rs");
    println!("cargo:rerun-if-changed={}", lib.display());
    if std::fs::read_to_string(&lib)
        .map(|s| s.contains("pub fn verif_domain_guards_ambiguous("))
        .unwrap_or(false)
    {
        println!("cargo:rustc-cfg=has_ambiguity_hook");
    }
    println!(
        "cargo:rerun-if-changed={}",
        dir.join("src/compiler/codegen/router.rs").display()
    );
}
