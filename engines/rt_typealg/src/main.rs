//! rt_typealg — property C17: laws of the type algebra in `rustdoc_ir` (template matching,
//! substitution, equivalence up to renaming, canonicalisation, render/parse round trip), decided by
//! bounded-exhaustive enumeration of type terms against the real crate.
mod laws;
mod spec;
mod synconv;
mod universe;

use laws::Verdict;
use rustdoc_ir::{CanonicalType, Type};
use serde_json::{Value, json};
use spec::{S, erase, from_type, is_concrete, ref_equivalent_erased, show, to_type, wildcard_generics};
use std::collections::{BTreeMap, HashMap};
use std::panic::{AssertUnwindSafe, catch_unwind};
use verif_common::{Args, Reporter, machinery_error};

/// A nominated violation: law + indices of the terms.
#[derive(Clone, Debug, PartialEq, Eq, PartialOrd, Ord, serde::Serialize, serde::Deserialize)]
struct Suspect {
    /// smaller = nicer witness (total printed size; templates without generic parameters last)
    rank: u32,
    law: String,
    idx: Vec<u32>,
}

impl Suspect {
    fn new(p: &Prepared, law: &str, idx: Vec<u32>) -> Suspect {
        let mut rank: u32 = idx.iter().map(|&i| p.size[i as usize]).sum();
        if law == "template" && p.concrete[idx[0] as usize] {
            rank += 1000;
        }
        Suspect { rank, law: law.to_string(), idx }
    }
}

#[derive(Default, serde::Serialize, serde::Deserialize)]
struct Local {
    nonconcrete_mismatch_by_key: BTreeMap<String, u64>,
    pairs_done: u64,
    // template law
    tmpl_calls: u64,
    tmpl_none: u64,
    tmpl_some_empty: u64,
    tmpl_some_nonempty_concrete_ok: u64,
    tmpl_some_empty_concrete_ok: u64,
    tmpl_concrete_fail: u64,
    tmpl_nonconcrete_ok: u64,
    tmpl_nonconcrete_mismatch: u64,
    // equivalence
    equiv_calls: u64,
    equiv_related: u64,
    equiv_related_distinct: u64,
    equiv_unrelated: u64,
    equiv_unsound: u64,
    equiv_asymmetric: u64,
    equiv_not_reflexive: u64,
    ref_related_impl_not: u64,
    ref_related_distinct: u64,
    // canonical forms
    canon_eq_pairs_distinct: u64,
    canon_eq_not_equiv: u64,
    // per key: occurrences and smallest suspect
    by_key: HashMap<String, (u64, Suspect)>,
    /// related pairs (a, b) inside the quick universe, a != b, both directions listed
    related_quick: Vec<(u32, u32)>,
    sample_tmpl: Vec<(u32, u32)>,
    sample_equiv: Vec<(u32, u32)>,
    sample_nonconcrete_mismatch: Vec<(u32, u32)>,
    sample_ref_related_impl_not: Vec<(u32, u32)>,
}

impl Local {
    fn suspect(&mut self, key: String, s: Suspect) {
        let e = self.by_key.entry(key).or_insert_with(|| (0, s.clone()));
        e.0 += 1;
        if s < e.1 {
            e.1 = s;
        }
    }
}

struct Prepared {
    specs: Vec<S>,
    types: Vec<Type>,
    erased: Vec<S>,
    shape: Vec<u32>,
    concrete: Vec<bool>,
    canon: Vec<CanonicalType>,
    kind: Vec<u8>,
    /// printed length, used to prefer small witnesses
    size: Vec<u32>,
    quick_len: usize,
}

fn root_kind(s: &S) -> u8 {
    match s {
        S::Scalar(_) => 0,
        S::Gen(_) => 1,
        S::Path { .. } => 2,
        S::Ref { .. } => 3,
        S::Tuple(_) => 4,
        S::Slice(_) => 5,
        S::Array(..) => 6,
        S::Ptr { .. } => 7,
        S::Fn { .. } => 8,
    }
}
const KIND_GENERIC: u8 = 1;
const N_KINDS: usize = 9;

fn prepare(u: &universe::Universe) -> Prepared {
    let specs = u.terms.clone();
    let types: Vec<Type> = specs.iter().map(to_type).collect();
    // the bridge itself must be lossless on the alphabet, otherwise nothing below means anything
    for (s, t) in specs.iter().zip(types.iter()) {
        match from_type(t) {
            Ok(b) if &b == s => {}
            other => machinery_error(&format!("bridge S->Type->S not the identity on {}: {other:?}", show(s))),
        }
    }
    let erased: Vec<S> = specs.iter().map(erase).collect();
    let mut intern: HashMap<S, u32> = HashMap::new();
    let shape = erased
        .iter()
        .map(|e| {
            let w = wildcard_generics(e);
            let n = intern.len() as u32;
            *intern.entry(w).or_insert(n)
        })
        .collect();
    let concrete = specs.iter().map(is_concrete).collect();
    let canon = types.iter().map(|t| t.canonicalize()).collect();
    let kind = specs.iter().map(root_kind).collect();
    let size = specs.iter().map(|s| show(s).len() as u32).collect();
    Prepared {
        specs,
        types,
        erased,
        shape,
        concrete,
        canon,
        kind,
        size,
        quick_len: u.quick_len,
    }
}

/// Everything that is decided for the ordered pair (i, j). Equivalence is evaluated in both
/// directions when i <= j (so every unordered pair is seen once, both directions executed).
fn pair(p: &Prepared, i: usize, j: usize, l: &mut Local) {
    let (ti, tj) = (&p.types[i], &p.types[j]);
    // ---- template law, ordered: i is the template, j the concrete type
    l.tmpl_calls += 1;
    match ti.is_a_template_for(tj) {
        None => l.tmpl_none += 1,
        Some(b) => {
            if b.is_empty() {
                l.tmpl_some_empty += 1;
            }
            let bound = ti.bind_generic_type_parameters(&b);
            let eb = match from_type(&bound) {
                Ok(bs) => erase(&bs),
                Err(e) => machinery_error(&format!("bind produced a term outside the alphabet: {e}")),
            };
            let holds = eb == p.erased[j];
            // same computation as laws::template (which re-decides the reported witness)
            let fail_key = || -> String {
                let mut b_s: HashMap<String, S> = HashMap::new();
                for (k, v) in &b {
                    b_s.insert(k.clone(), from_type(v).unwrap_or_else(|e| machinery_error(&format!("binding outside the alphabet: {e}"))));
                }
                let own = erase(&spec::subst(&p.specs[i], &b_s));
                laws::template_fail_key(&eb, &own, &p.erased[j])
            };
            if p.concrete[j] {
                if holds {
                    if b.is_empty() {
                        l.tmpl_some_empty_concrete_ok += 1;
                    } else {
                        l.tmpl_some_nonempty_concrete_ok += 1;
                        if l.sample_tmpl.len() < 4 && b.len() >= 2 && spec::depth(&p.specs[i]) >= 2 {
                            l.sample_tmpl.push((i as u32, j as u32));
                        }
                    }
                } else {
                    l.tmpl_concrete_fail += 1;
                    let k = fail_key();
                    l.suspect(k, Suspect::new(p, "template", vec![i as u32, j as u32]));
                }
            } else if holds {
                l.tmpl_nonconcrete_ok += 1;
            } else {
                l.tmpl_nonconcrete_mismatch += 1;
                {
                    let k = fail_key();
                    if l.sample_nonconcrete_mismatch.len() < 2 && !k.contains("&mut") {
                        l.sample_nonconcrete_mismatch.push((i as u32, j as u32));
                    }
                    *l.nonconcrete_mismatch_by_key.entry(k).or_insert(0) += 1;
                }
            }
        }
    }
    if i > j {
        return;
    }
    // ---- equivalence, both directions
    let e_ij = ti.is_equivalent_to(tj).is_some();
    let e_ji = if i == j { e_ij } else { tj.is_equivalent_to(ti).is_some() };
    l.equiv_calls += if i == j { 1 } else { 2 };
    let r = p.shape[i] == p.shape[j] && ref_equivalent_erased(&p.erased[i], &p.erased[j]);
    if i == j {
        if !r {
            machinery_error("reference equivalence is not reflexive");
        }
        if e_ij {
            l.equiv_related += 1;
        } else {
            l.equiv_not_reflexive += 1;
            let k = laws::equiv_reflexive(&p.specs[i]).ok().and_then(|v| v.violation_key);
            match k {
                Some(k) => l.suspect(k, Suspect::new(p, "equiv-reflexive", vec![i as u32])),
                None => machinery_error("nondeterministic: reflexivity"),
            }
        }
    } else {
        if r {
            l.ref_related_distinct += 1;
        }
        for (x, y, e) in [(i, j, e_ij), (j, i, e_ji)] {
            if e {
                l.equiv_related += 1;
                l.equiv_related_distinct += 1;
                if x < p.quick_len && y < p.quick_len {
                    l.related_quick.push((x as u32, y as u32));
                }
                if !r {
                    l.equiv_unsound += 1;
                    let k = laws::structural_diff_key(&p.erased[x], &p.erased[y]);
                    l.suspect(
                        format!("equiv-unsound:{k}"),
                        Suspect::new(p, "equiv-sound", vec![x as u32, y as u32]),
                    );
                } else if l.sample_equiv.len() < 4 && !p.concrete[x] && spec::depth(&p.specs[x]) >= 2 && p.canon[x] != p.canon[y] {
                    l.sample_equiv.push((x as u32, y as u32));
                }
            } else {
                l.equiv_unrelated += 1;
                if r {
                    l.ref_related_impl_not += 1;
                    if l.sample_ref_related_impl_not.len() < 2 {
                        l.sample_ref_related_impl_not.push((x as u32, y as u32));
                    }
                }
            }
        }
        if e_ij != e_ji {
            l.equiv_asymmetric += 1;
            let k = laws::structural_diff_key(&p.erased[i], &p.erased[j]);
            l.suspect(
                format!("equiv-asymmetric:{k}"),
                Suspect::new(p, "equiv-symmetric", vec![i as u32, j as u32]),
            );
        }
        // ---- equal canonical forms imply equivalence
        if p.canon[i] == p.canon[j] {
            l.canon_eq_pairs_distinct += 1;
            for (x, y, e) in [(i, j, e_ij), (j, i, e_ji)] {
                if !e {
                    l.canon_eq_not_equiv += 1;
                    let k = laws::structural_diff_key(&p.erased[x], &p.erased[y]);
                    l.suspect(
                        format!("canon-eq-not-equiv:{k}"),
                        Suspect::new(p, "canon-eq-implies-equiv", vec![x as u32, y as u32]),
                    );
                }
            }
        }
    }
}

/// Rows i = k (mod w) of the pair space. For a term of the quick universe (or a bare generic
/// parameter) every partner of the quick universe is executed unfiltered; a pair with a member of
/// the depth-3 extension is executed iff both roots have the same constructor kind.
fn explore_pairs(p: &Prepared, by_kind: &[Vec<u32>], k: usize, w: usize) -> Local {
    let (n, q) = (p.specs.len(), p.quick_len);
    let mut l = Local::default();
    let mut i = k;
    while i < n {
        let r = catch_unwind(AssertUnwindSafe(|| {
            let mut cnt = 0u64;
            let same_kind_ext = &by_kind[p.kind[i] as usize];
            if i < q || p.kind[i] == KIND_GENERIC {
                for j in 0..q {
                    pair(p, i, j, &mut l);
                }
                cnt += q as u64;
                if p.kind[i] == KIND_GENERIC {
                    for j in q..n {
                        pair(p, i, j, &mut l);
                    }
                    cnt += (n - q) as u64;
                } else {
                    for &j in same_kind_ext {
                        pair(p, i, j as usize, &mut l);
                    }
                    cnt += same_kind_ext.len() as u64;
                }
            } else {
                for j in 0..q {
                    if p.kind[j] == p.kind[i] {
                        pair(p, i, j, &mut l);
                        cnt += 1;
                    }
                }
                for &j in same_kind_ext {
                    pair(p, i, j as usize, &mut l);
                }
                cnt += same_kind_ext.len() as u64;
            }
            cnt
        }));
        match r {
            Ok(c) => l.pairs_done += c,
            Err(_) => machinery_error(&format!(
                "subject panicked in a pair law with first term {}",
                show(&p.specs[i])
            )),
        }
        i += w;
    }
    l
}

fn merge(into: &mut Local, from: Local) {
    macro_rules! add { ($($f:ident),*) => { $( into.$f += from.$f; )* } }
    add!(
        pairs_done, tmpl_calls, tmpl_none, tmpl_some_empty, tmpl_some_nonempty_concrete_ok,
        tmpl_some_empty_concrete_ok, tmpl_concrete_fail, tmpl_nonconcrete_ok,
        tmpl_nonconcrete_mismatch, equiv_calls, equiv_related, equiv_related_distinct,
        equiv_unrelated, equiv_unsound, equiv_asymmetric, equiv_not_reflexive,
        ref_related_impl_not, ref_related_distinct, canon_eq_pairs_distinct, canon_eq_not_equiv
    );
    for (k, (n, s)) in from.by_key {
        let e = into.by_key.entry(k).or_insert_with(|| (0, s.clone()));
        e.0 += n;
        if s < e.1 {
            e.1 = s;
        }
    }
    for (k, v) in from.nonconcrete_mismatch_by_key {
        *into.nonconcrete_mismatch_by_key.entry(k).or_insert(0) += v;
    }
    into.related_quick.extend(from.related_quick);
    into.sample_tmpl.extend(from.sample_tmpl);
    into.sample_equiv.extend(from.sample_equiv);
    into.sample_nonconcrete_mismatch.extend(from.sample_nonconcrete_mismatch);
    into.sample_ref_related_impl_not.extend(from.sample_ref_related_impl_not);
}

fn replay(args: &Args, path: &std::path::Path) -> ! {
    let case = verif_common::load_replay(path);
    let law = case.get("law").and_then(|l| l.as_str()).unwrap_or_else(|| machinery_error("replay: missing law")).to_string();
    let terms: Vec<S> = serde_json::from_value(case.get("terms").cloned().unwrap_or(Value::Null))
        .unwrap_or_else(|e| machinery_error(&format!("replay: terms unreadable: {e}")));
    let run = || laws::run(&law, &terms);
    let v1 = catch_unwind(AssertUnwindSafe(run));
    let v2 = catch_unwind(AssertUnwindSafe(run));
    let (v1, v2) = match (v1, v2) {
        (Ok(Ok(a)), Ok(Ok(b))) => (a, b),
        (a, b) => machinery_error(&format!("replay could not be evaluated: {a:?} / {b:?}")),
    };
    if v1.violation_key != v2.violation_key {
        machinery_error("nondeterministic replay verdict");
    }
    println!("REPLAY property={} law={law}", args.property);
    for (n, t) in terms.iter().enumerate() {
        println!("  term[{n}] = {}", show(t));
    }
    println!("  expected: {}", v1.expected);
    println!("  observed: {}", v1.observed);
    match &v1.violation_key {
        Some(k) => {
            println!("  verdict: STILL VIOLATES [key={k}]");
            std::process::exit(1)
        }
        None => {
            println!("  verdict: holds{}", if v1.applicable { "" } else { " (premise not satisfied)" });
            std::process::exit(0)
        }
    }
}

fn main() {
    let args = Args::parse();
    if args.property != "C17" {
        machinery_error("rt_typealg serves property C17 only");
    }
    if let Some(p) = args.replay.clone() {
        replay(&args, &p);
    }
    let mut rep = Reporter::from_args(&args);
    let thorough = args.tier.is_thorough();

    // ---------------------------------------------------------------- universe
    let mut uni = universe::build(thorough);
    {
        // the seed only permutes enumeration order (quick part and extension separately, so that
        // the quick universe stays a prefix)
        let q = uni.quick_len;
        let mut head: Vec<S> = uni.terms[..q].to_vec();
        let mut tail: Vec<S> = uni.terms[q..].to_vec();
        verif_common::rotate_by_seed(&mut head, args.seed);
        verif_common::rotate_by_seed(&mut tail, args.seed);
        head.extend(tail);
        uni.terms = head;
    }
    let p = prepare(&uni);
    let n = p.specs.len();
    let q = p.quick_len;
    let depth_hist = {
        let mut h = BTreeMap::new();
        for s in &p.specs {
            *h.entry(spec::depth(s).to_string()).or_insert(0u64) += 1;
        }
        h
    };
    let mut kind_hist = [0u64; N_KINDS];
    for k in &p.kind {
        kind_hist[*k as usize] += 1;
    }
    eprintln!("universe: {n} terms (quick prefix {q}); depth histogram {depth_hist:?}; prepared in {:.1}s", rep.wall_s());

    // ---------------------------------------------------------------- pair laws
    let mut by_kind: Vec<Vec<u32>> = vec![Vec::new(); N_KINDS];
    for i in q..n {
        by_kind[p.kind[i] as usize].push(i as u32);
    }
    // Workers are separate *processes*, not threads: every call into the subject creates ahash
    // maps, and ahash's RandomState::new() bumps one process-global atomic, which serialises
    // threads (measured: 16 threads were 8x slower in total CPU than 2).
    let workers = match args.extra("workers") {
        Some(w) => w.parse::<usize>().unwrap_or_else(|_| machinery_error("--workers N")),
        None => std::thread::available_parallelism().map(|x| x.get()).unwrap_or(4).clamp(1, 16),
    };
    if let Some(k) = args.extra("worker") {
        let k: usize = k.parse().unwrap_or_else(|_| machinery_error("--worker K"));
        let l = explore_pairs(&p, &by_kind, k, workers);
        println!("{}", serde_json::to_string(&l).unwrap());
        std::process::exit(0);
    }
    // ---------------------------------------------------------------- unary laws (all terms)
    let mut g = Local::default();
    let mut canon_changed = 0u64;
    let mut canon_idem_fail = 0u64;
    let (mut render_ok, mut render_bad, mut render_nontrivial) = (0u64, 0u64, 0u64);
    let mut render_samples: Vec<Value> = Vec::new();
    {
        let id2name = laws::id2name();
        for i in 0..n {
            let r = catch_unwind(AssertUnwindSafe(|| {
                // canonicalise idempotent
                let c2 = p.canon[i].inner().canonicalize();
                let idem = c2 == p.canon[i];
                // render round trip
                let rendered = p.types[i].render_type(&id2name);
                let back = syn::parse_str::<syn::Type>(&rendered)
                    .ok()
                    .and_then(|t| synconv::read(&t).ok());
                (idem, rendered, back)
            }));
            let (idem, rendered, back) = match r {
                Ok(x) => x,
                Err(_) => machinery_error(&format!("subject panicked on canonicalize/render of {}", show(&p.specs[i]))),
            };
            if p.canon[i].inner() != &p.types[i] {
                canon_changed += 1;
            }
            if !idem {
                canon_idem_fail += 1;
                match laws::canon_idempotent(&p.specs[i]) {
                    Ok(Verdict { violation_key: Some(k), .. }) => {
                        g.suspect(k, Suspect::new(&p, "canon-idempotent", vec![i as u32]))
                    }
                    other => machinery_error(&format!("nondeterministic: canon idempotence on {}: {other:?}", show(&p.specs[i]))),
                }
            }
            if spec::depth(&p.specs[i]) >= 1 {
                render_nontrivial += 1;
            }
            if back.as_ref() == Some(&p.specs[i]) {
                render_ok += 1;
                if render_samples.len() < 3 && spec::depth(&p.specs[i]) >= 2 {
                    render_samples.push(json!({"law": "render-roundtrip", "term": show(&p.specs[i]), "rendered": rendered, "read_back": back.as_ref().map(show)}));
                }
            } else {
                render_bad += 1;
                match laws::render_roundtrip(&p.specs[i]) {
                    Ok(Verdict { violation_key: Some(k), .. }) => {
                        g.suspect(k, Suspect::new(&p, "render-roundtrip", vec![i as u32]))
                    }
                    other => machinery_error(&format!("nondeterministic: render round trip on {}: {other:?}", show(&p.specs[i]))),
                }
            }
        }
    }
    eprintln!("unary laws done at {:.1}s", rep.wall_s());

    if workers == 1 {
        let l = explore_pairs(&p, &by_kind, 0, 1);
        merge(&mut g, l);
    } else {
        let exe = std::env::current_exe().unwrap_or_else(|e| machinery_error(&format!("current_exe: {e}")));
        let children: Vec<_> = (0..workers)
            .map(|k| {
                std::process::Command::new(&exe)
                    .args(["--property", "C17", "--tier", args.tier.as_str(), "--worker", &k.to_string(), "--workers", &workers.to_string()])
                    .stdin(std::process::Stdio::null())
                    .stdout(std::process::Stdio::piped())
                    .stderr(std::process::Stdio::null())
                    .spawn()
                    .unwrap_or_else(|e| machinery_error(&format!("cannot spawn worker: {e}")))
            })
            .collect();
        for (k, c) in children.into_iter().enumerate() {
            let out = c.wait_with_output().unwrap_or_else(|e| machinery_error(&format!("worker {k}: {e}")));
            let text = String::from_utf8_lossy(&out.stdout).to_string();
            if !out.status.success() {
                machinery_error(&format!("worker {k} failed ({:?}): {}", out.status.code(), text.lines().last().unwrap_or("")));
            }
            let l: Local = serde_json::from_str(text.trim())
                .unwrap_or_else(|e| machinery_error(&format!("worker {k} output unreadable: {e}")));
            merge(&mut g, l);
        }
    }
    let ordered_pairs = g.pairs_done;
    if ordered_pairs != g.tmpl_calls {
        machinery_error("pair accounting mismatch");
    }
    eprintln!("pair laws done at {:.1}s ({ordered_pairs} ordered pairs)", rep.wall_s());

    // ---------------------------------------------------------------- transitivity, all triples of the quick universe
    // R restricted to the quick universe; for every (a,b) in R and every c in R[b]: (a,c) in R.
    let mut rows: Vec<Vec<u32>> = vec![Vec::new(); q];
    for &(a, b) in &g.related_quick {
        rows[a as usize].push(b);
    }
    for (a, r) in rows.iter_mut().enumerate() {
        if g.equiv_not_reflexive == 0 {
            r.push(a as u32);
        }
        r.sort_unstable();
        r.dedup();
    }
    let mut triples_nonvacuous = 0u64;
    let mut trans_fail = 0u64;
    for a in 0..q {
        for &b in &rows[a] {
            for &c in &rows[b as usize] {
                triples_nonvacuous += 1;
                if rows[a].binary_search(&c).is_err() {
                    trans_fail += 1;
                    g.suspect(
                        "equiv-not-transitive".into(),
                        Suspect::new(&p, "equiv-transitive", vec![a as u32, b, c]),
                    );
                }
            }
        }
    }
    let class_sizes = {
        let mut h: BTreeMap<String, u64> = BTreeMap::new();
        for r in &rows {
            *h.entry(r.len().to_string()).or_insert(0) += 1;
        }
        h
    };
    eprintln!("transitivity done at {:.1}s", rep.wall_s());

    // ---------------------------------------------------------------- confirm + report
    let mut keys: Vec<(String, (u64, Suspect))> = g.by_key.drain().collect();
    keys.sort_by(|a, b| a.0.cmp(&b.0));
    let mut occurrences = serde_json::Map::new();
    for (key, (count, sus)) in &keys {
        let terms: Vec<S> = sus.idx.iter().map(|&i| p.specs[i as usize].clone()).collect();
        // re-execute the single case from scratch; it must reproduce with the same key
        let v = match catch_unwind(AssertUnwindSafe(|| laws::run(&sus.law, &terms))) {
            Ok(Ok(v)) => v,
            other => machinery_error(&format!("confirmation of {key} failed to run: {other:?}")),
        };
        if v.violation_key.as_deref() != Some(key.as_str()) {
            machinery_error(&format!(
                "nondeterministic: suspect {key} re-executed as {:?} on {:?}",
                v.violation_key,
                terms.iter().map(show).collect::<Vec<_>>()
            ));
        }
        occurrences.insert(key.clone(), json!(count));
        let what = format!(
            "law {}: expected {}; observed {} ({} occurrences in the bound)",
            sus.law, v.expected, v.observed, count
        );
        rep.violation(
            key,
            &what,
            json!({
                "law": sus.law,
                "terms": terms,
                "display": terms.iter().map(show).collect::<Vec<_>>(),
                "expected": v.expected,
                "observed": v.observed,
                "detail": v.detail,
            }),
        );
    }

    // ---------------------------------------------------------------- evidence
    let mut samples: Vec<Value> = Vec::new();
    g.sample_tmpl.sort();
    for &(i, j) in g.sample_tmpl.iter().take(3) {
        if let Ok(v) = laws::template(&p.specs[i as usize], &p.specs[j as usize], true) {
            samples.push(json!({"law": "template", "holds": v.violation_key.is_none(), "case": v.detail}));
        }
    }
    g.sample_equiv.sort();
    for &(i, j) in g.sample_equiv.iter().take(3) {
        samples.push(json!({"law": "equiv-sound", "a": show(&p.specs[i as usize]), "b": show(&p.specs[j as usize]), "impl": "equivalent", "reference": "equivalent",
            "canonical_a": from_type(p.canon[i as usize].inner()).map(|s| show(&s)).ok(), "canonical_b": from_type(p.canon[j as usize].inner()).map(|s| show(&s)).ok()}));
    }
    samples.extend(render_samples);
    let mut observations: Vec<Value> = Vec::new();
    g.sample_nonconcrete_mismatch.sort();
    for &(i, j) in g.sample_nonconcrete_mismatch.iter().take(2) {
        if let Ok(v) = laws::template(&p.specs[i as usize], &p.specs[j as usize], false) {
            observations.push(json!({"kind": "template-for-a-non-concrete-type (outside the property: c has generic parameters)", "case": v.detail}));
        }
    }
    g.sample_ref_related_impl_not.sort();
    for &(i, j) in g.sample_ref_related_impl_not.iter().take(2) {
        observations.push(json!({"kind": "reference-equivalent but is_equivalent_to = None (completeness is not part of the property)", "a": show(&p.specs[i as usize]), "b": show(&p.specs[j as usize])}));
    }

    let distinct_nontrivial = g.tmpl_some_nonempty_concrete_ok
        + g.tmpl_concrete_fail
        + g.equiv_related_distinct
        + canon_changed
        + render_nontrivial;
    let evaluations = g.tmpl_calls + g.equiv_calls + g.canon_eq_pairs_distinct + triples_nonvacuous + 2 * n as u64;
    let rule = format!(
        "Alphabet: leaves u8,bool,T,U,a::P,(),a::L<'static|'a|'_>,a::K<8>,fn(); unary &/&mut x {{'static,'a,'b,elided,'_}},(_,),[_],[_;1],[_;2],*const,*mut,a::Q<_>,a::M<'a,_>,fn(_),fn()->_,fn(x:_),unsafe fn(_),extern \"C\" fn(_),unsafe extern \"C\" fn(_); binary (_,_),a::R<_,_>,fn(_)->_. \
Bound: D1 = all terms of depth<=1; quick universe D2 = D1 + unary(D1) + binary(N1xN1), N1 = narrow terms (leaves u8,T,U,a::P; unary &,&mut,*mut,(_,),a::Q<_>) of depth<=1{}. \
Pairs: every ordered pair of the quick universe is executed unfiltered{}. Triples: transitivity over ALL triples of the quick universe (evaluated as: for every related (a,b) and every c related to b, (a,c) must be related; unrelated prefixes are vacuous). \
Oracle (real rustdoc_ir API vs engine reference): (1) t.is_a_template_for(c)=Some(b) and c without generic parameters => erase_lifetimes(t.bind_generic_type_parameters(b)) == erase_lifetimes(c) (mutability of references and raw pointers kept); (2) is_equivalent_to reflexive, symmetric, transitive; related => equal after erasing lifetimes and some bijective renaming of generic parameters (brute force over all bijections); canonicalize(a)==canonicalize(b) => related; (3) canonicalize idempotent; (4) syn::parse_str(render_type(t)) read by an independent syn reader (parenthesised type = inner type) == t. \
Non-trivial: template pairs with Some(non-empty bindings) and concrete c; distinct related pairs; terms whose canonical form differs from the term; rendered terms of depth>=1.",
        if thorough { "; thorough universe D3 = D2 + unary3(D2) + binary(N2xN2), unary3 = &/&mut x {elided,'a,'static},(_,),[_],[_;1],*const,*mut,a::Q<_>,fn(_),fn()->_, N2 = narrow terms of depth<=2" } else { "" },
        if thorough { "; a pair with a depth-3 member is executed iff both roots have the same constructor kind or the template is a bare generic parameter (shape prefilter: other pairs fail at the root of both matchers)" } else { "" },
    );
    let coverage = json!({
        "evaluations": evaluations,
        "distinct_nontrivial": distinct_nontrivial,
        "rule": rule,
        "samples": samples,
        "exhaustive": true,
        "caps_hit": [],
        "bound_completed": if thorough { "depth<=3 (restricted width)" } else { "depth<=2" },
        "universe": {
            "terms": n, "quick_universe_terms": q, "depth0": uni.d0, "depth_le1": uni.d1,
            "by_depth": depth_hist,
            "by_root_kind": {"scalar": kind_hist[0], "generic": kind_hist[1], "path": kind_hist[2], "reference": kind_hist[3], "tuple": kind_hist[4], "slice": kind_hist[5], "array": kind_hist[6], "raw_pointer": kind_hist[7], "fn_pointer": kind_hist[8]},
            "concrete_terms": p.concrete.iter().filter(|c| **c).count(),
        },
        "ordered_pairs_executed": ordered_pairs,
        "ordered_pairs_in_universe": (n as u64) * (n as u64),
        "triples_quick_universe_total": (q as u64).pow(3),
        "triples_nonvacuous": triples_nonvacuous,
        "worker_processes": workers,
        "outcome_histogram": {
            "template": {
                "none": g.tmpl_none,
                "some_total": g.tmpl_calls - g.tmpl_none,
                "some_with_empty_bindings": g.tmpl_some_empty,
                "concrete_c_nonempty_bindings_law_holds": g.tmpl_some_nonempty_concrete_ok,
                "concrete_c_empty_bindings_law_holds": g.tmpl_some_empty_concrete_ok,
                "concrete_c_law_violated": g.tmpl_concrete_fail,
                "nonconcrete_c_equation_holds (not judged)": g.tmpl_nonconcrete_ok,
                "nonconcrete_c_equation_fails (not judged)": g.tmpl_nonconcrete_mismatch,
                "nonconcrete_c_equation_fails_by_key (not judged)": g.nonconcrete_mismatch_by_key,
            },
            "equivalence": {
                "calls": g.equiv_calls,
                "related": g.equiv_related,
                "related_distinct_terms": g.equiv_related_distinct,
                "unrelated": g.equiv_unrelated,
                "related_but_reference_says_different": g.equiv_unsound,
                "asymmetric_pairs": g.equiv_asymmetric,
                "not_reflexive": g.equiv_not_reflexive,
                "transitivity_failures": trans_fail,
                "reference_related_unordered_pairs": g.ref_related_distinct,
                "reference_related_but_impl_unrelated (not judged)": g.ref_related_impl_not,
                "impl_class_size_histogram_quick_universe": class_sizes,
            },
            "canonical": {
                "terms_changed_by_canonicalize": canon_changed,
                "idempotence_failures": canon_idem_fail,
                "unordered_pairs_of_distinct_terms_with_equal_canonical_form": g.canon_eq_pairs_distinct,
                "equal_canonical_form_but_unrelated": g.canon_eq_not_equiv,
            },
            "render": {"roundtrip_ok": render_ok, "roundtrip_lossy_or_unparsable": render_bad},
        },
        "violation_occurrences": occurrences,
        "observations_not_judged": observations,
    });
    let code = rep.finish(
        "exploration",
        coverage,
        &[
            "path types all live in one package `a` with two-segment paths and no rustdoc id (the rendered source cannot carry a rustdoc id; Type::TypeAlias is not in the property's quantifier and renders like a path)",
            "'up to lifetime names' is read as: all lifetimes ('static, named, '_, elided) are erased before comparing, as in DESIGN.md",
            "fn-pointer parameter names are not part of the type: the equivalence reference ignores them",
            "the template law is judged only for a concrete c (no generic parameters), as the property states; non-concrete c is counted, not judged",
            "completeness of is_a_template_for / is_equivalent_to (finding every instance) is not stated by the property and only counted",
        ],
    );
    std::process::exit(code);
}
