//! Independent, deliberately small `syn::Type -> S` reader. It follows the Rust grammar, not the
//! renderer under test: a parenthesised type `(T)` *is* `T` (only `(T,)` is a 1-tuple), a reference
//! without lifetime has an elided lifetime, `'_` is the inferred lifetime, a single-segment path
//! without arguments is a scalar if it names one and a generic parameter otherwise.
use crate::spec::{Arg, CRATE, Lt, S};

const SCALARS: &[&str] = &[
    "usize", "u8", "u16", "u32", "u64", "u128", "isize", "i8", "i16", "i32", "i64", "i128", "f32",
    "f64", "bool", "char", "str",
];

fn lifetime(l: &syn::Lifetime) -> Lt {
    match l.ident.to_string().as_str() {
        "static" => Lt::Static,
        "_" => Lt::Inferred,
        n => Lt::Named(n.to_string()),
    }
}

fn const_value(e: &syn::Expr) -> Result<String, String> {
    match e {
        syn::Expr::Lit(l) => match &l.lit {
            syn::Lit::Int(i) => Ok(i.base10_digits().to_string()),
            syn::Lit::Bool(b) => Ok(b.value.to_string()),
            _ => Err("unsupported literal".into()),
        },
        _ => Err("unsupported const expression".into()),
    }
}

pub fn read(t: &syn::Type) -> Result<S, String> {
    Ok(match t {
        syn::Type::Paren(p) => read(&p.elem)?,
        syn::Type::Group(g) => read(&g.elem)?,
        syn::Type::Tuple(t) => S::Tuple(t.elems.iter().map(read).collect::<Result<_, _>>()?),
        syn::Type::Reference(r) => S::Ref {
            mutable: r.mutability.is_some(),
            lt: r.lifetime.as_ref().map(lifetime).unwrap_or(Lt::Elided),
            inner: Box::new(read(&r.elem)?),
        },
        syn::Type::Ptr(p) => S::Ptr {
            mutable: p.mutability.is_some(),
            inner: Box::new(read(&p.elem)?),
        },
        syn::Type::Slice(s) => S::Slice(Box::new(read(&s.elem)?)),
        syn::Type::Array(a) => {
            let n = const_value(&a.len)?
                .parse::<usize>()
                .map_err(|e| format!("array length: {e}"))?;
            S::Array(Box::new(read(&a.elem)?), n)
        }
        syn::Type::BareFn(f) => {
            if f.lifetimes.is_some() || f.variadic.is_some() {
                return Err("fn pointer feature outside the alphabet".into());
            }
            let is_unsafe = f.unsafety.is_some();
            let c_abi = match &f.abi {
                None => false,
                // a bare `extern` means "C" in Rust
                Some(abi) => match abi.name.as_ref().map(|n| n.value()) {
                    None => true,
                    Some(n) if n == "C" => true,
                    Some(_) => return Err("fn pointer abi outside the alphabet".into()),
                },
            };
            let mut inputs = Vec::new();
            for i in &f.inputs {
                inputs.push((i.name.as_ref().map(|(n, _)| n.to_string()), read(&i.ty)?));
            }
            let output = match &f.output {
                syn::ReturnType::Default => None,
                syn::ReturnType::Type(_, t) => Some(Box::new(read(t)?)),
            };
            S::Fn {
                inputs,
                output,
                is_unsafe,
                c_abi,
            }
        }
        syn::Type::Path(p) => {
            if p.qself.is_some() || p.path.leading_colon.is_some() {
                return Err("qualified path outside the alphabet".into());
            }
            let segs: Vec<&syn::PathSegment> = p.path.segments.iter().collect();
            for s in &segs[..segs.len() - 1] {
                if !s.arguments.is_none() {
                    return Err("generic arguments on a non-final segment".into());
                }
            }
            let last = segs[segs.len() - 1];
            if segs.len() == 1 {
                if !last.arguments.is_none() {
                    return Err("single-segment path with arguments".into());
                }
                let n = last.ident.to_string();
                return Ok(if SCALARS.contains(&n.as_str()) {
                    S::Scalar(n)
                } else {
                    S::Gen(n)
                });
            }
            if segs.len() != 2 || segs[0].ident != CRATE {
                return Err(format!("path outside the alphabet ({} segments)", segs.len()));
            }
            let mut args = Vec::new();
            match &last.arguments {
                syn::PathArguments::None => {}
                syn::PathArguments::AngleBracketed(a) => {
                    for g in &a.args {
                        args.push(match g {
                            syn::GenericArgument::Lifetime(l) => Arg::Lt(lifetime(l)),
                            syn::GenericArgument::Type(t) => Arg::Ty(read(t)?),
                            syn::GenericArgument::Const(e) => Arg::Const(const_value(e)?),
                            _ => return Err("generic argument kind outside the alphabet".into()),
                        });
                    }
                }
                syn::PathArguments::Parenthesized(_) => {
                    return Err("parenthesised path arguments".into());
                }
            }
            S::Path {
                name: last.ident.to_string(),
                args,
            }
        }
        _ => return Err("syn type kind outside the alphabet".into()),
    })
}
