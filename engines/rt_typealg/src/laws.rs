//! The laws of property C17, each as a function of one self-contained case (a list of terms).
//! These are the deciding checks: the explorer's fast path only nominates suspects, every reported
//! violation is (re-)decided here, and `--replay` calls exactly these functions.
use crate::spec::{
    S, diff_key, erase, first_diff, from_type, is_concrete, node_desc, ref_equivalent_erased, show,
    subst, to_type, wildcard_generics,
};
use crate::synconv;
use bimap::BiHashMap;
use guppy::PackageId;
use serde_json::{Value, json};
use std::collections::HashMap;


#[derive(Debug, Clone)]
pub struct Verdict {
    /// false = the law's premise does not apply to this case (vacuous)
    pub applicable: bool,
    /// Some(key) = the law is violated
    pub violation_key: Option<String>,
    pub expected: String,
    pub observed: String,
    pub detail: Value,
}

impl Verdict {
    fn vacuous(why: &str) -> Verdict {
        Verdict {
            applicable: false,
            violation_key: None,
            expected: "-".into(),
            observed: why.into(),
            detail: Value::Null,
        }
    }
}

pub fn id2name() -> BiHashMap<PackageId, String> {
    let mut m = BiHashMap::new();
    m.insert(PackageId::new(crate::spec::PKG), crate::spec::CRATE.to_string());
    m
}

/// Abstract description of how two *erased* terms differ, robust against legal generic renaming.
pub fn structural_diff_key(ea: &S, eb: &S) -> String {
    let (wa, wb) = (wildcard_generics(ea), wildcard_generics(eb));
    if wa != wb {
        diff_key(&wa, &wb)
    } else {
        "generic-renaming-not-bijective".into()
    }
}

/// Key of a violated template law from the three erased terms: real bind result, the engine's own
/// substitution result, and the concrete type.
pub fn template_fail_key(real_bound: &S, own_bound: &S, concrete: &S) -> String {
    if real_bound != own_bound {
        format!("tmpl:bind:{}", diff_key(real_bound, own_bound))
    } else {
        format!("tmpl:match:{}", diff_key(own_bound, concrete))
    }
}

/// Law 1. `t.is_a_template_for(c) = Some(b)` and `c` concrete  =>  erase(t.bind(b)) == erase(c).
/// (`concrete_only = false` evaluates the same equation for a `c` that still has generic
/// parameters; the explorer only counts those, the property speaks about concrete `c`.)
pub fn template(t: &S, c: &S, concrete_only: bool) -> Result<Verdict, String> {
    let (tt, ct) = (to_type(t), to_type(c));
    let Some(bindings) = tt.is_a_template_for(&ct) else {
        return Ok(Verdict::vacuous("is_a_template_for = None"));
    };
    if concrete_only && !is_concrete(c) {
        return Ok(Verdict::vacuous("c is not concrete"));
    }
    let bound = tt.bind_generic_type_parameters(&bindings);
    let bound_s = from_type(&bound)?;
    let mut b_s: HashMap<String, S> = HashMap::new();
    for (k, v) in &bindings {
        b_s.insert(k.clone(), from_type(v)?);
    }
    let mut shown: Vec<String> = b_s.iter().map(|(k, v)| format!("{k} := {}", show(v))).collect();
    shown.sort();
    let (eb, ec) = (erase(&bound_s), erase(c));
    let own = erase(&subst(t, &b_s));
    let detail = json!({
        "template": show(t), "concrete": show(c), "bindings": shown,
        "real_bind_result": show(&bound_s), "reference_substitution_result_erased": show(&own),
    });
    let expected = format!("substituting the bindings into `{}` gives `{}` up to lifetimes", show(t), show(c));
    if eb == ec {
        return Ok(Verdict {
            applicable: true,
            violation_key: None,
            expected,
            observed: format!("bind gives `{}`", show(&bound_s)),
            detail,
        });
    }
    // who is at fault: if the real bind differs from the engine's own substitution of the same
    // bindings, `bind_generic_type_parameters` lost something (key = that difference); otherwise
    // the matcher accepted a non-instance (key = difference between the instance and c).
    let key = template_fail_key(&eb, &own, &ec);
    Ok(Verdict {
        applicable: true,
        violation_key: Some(key),
        expected,
        observed: format!(
            "is_a_template_for = Some({{{}}}) but bind gives `{}`",
            shown.join(", "),
            show(&bound_s)
        ),
        detail,
    })
}

fn equivalent(a: &S, b: &S) -> bool {
    to_type(a).is_equivalent_to(&to_type(b)).is_some()
}

/// Law 2a. is_equivalent_to(a, b) => a, b equal after erasing lifetimes and bijectively renaming generics.
pub fn equiv_sound(a: &S, b: &S) -> Result<Verdict, String> {
    if !equivalent(a, b) {
        return Ok(Verdict::vacuous("is_equivalent_to = None"));
    }
    let (ea, eb) = (erase(a), erase(b));
    let ok = ref_equivalent_erased(&ea, &eb);
    Ok(Verdict {
        applicable: true,
        violation_key: (!ok).then(|| format!("equiv-unsound:{}", structural_diff_key(&ea, &eb))),
        expected: format!("`{}` and `{}` are related only if they differ in nothing but lifetimes and generic parameter names", show(a), show(b)),
        observed: format!("is_equivalent_to = Some(_); brute-force reference says {}", if ok { "equivalent" } else { "NOT equivalent" }),
        detail: json!({"a": show(a), "b": show(b)}),
    })
}

pub fn equiv_reflexive(a: &S) -> Result<Verdict, String> {
    let ok = equivalent(a, a);
    Ok(Verdict {
        applicable: true,
        violation_key: (!ok).then(|| format!("equiv-not-reflexive:{}", node_desc(a))),
        expected: format!("`{}` is equivalent to itself", show(a)),
        observed: format!("is_equivalent_to(a, a).is_some() = {ok}"),
        detail: json!({"a": show(a)}),
    })
}

pub fn equiv_symmetric(a: &S, b: &S) -> Result<Verdict, String> {
    let (ab, ba) = (equivalent(a, b), equivalent(b, a));
    Ok(Verdict {
        applicable: ab || ba,
        violation_key: (ab != ba).then(|| format!("equiv-asymmetric:{}", structural_diff_key(&erase(a), &erase(b)))),
        expected: "is_equivalent_to(a, b).is_some() == is_equivalent_to(b, a).is_some()".into(),
        observed: format!("a~b = {ab}, b~a = {ba}"),
        detail: json!({"a": show(a), "b": show(b)}),
    })
}

pub fn equiv_transitive(a: &S, b: &S, c: &S) -> Result<Verdict, String> {
    let (ab, bc, ac) = (equivalent(a, b), equivalent(b, c), equivalent(a, c));
    Ok(Verdict {
        applicable: ab && bc,
        violation_key: (ab && bc && !ac).then(|| "equiv-not-transitive".to_string()),
        expected: "a~b and b~c imply a~c".into(),
        observed: format!("a~b = {ab}, b~c = {bc}, a~c = {ac}"),
        detail: json!({"a": show(a), "b": show(b), "c": show(c)}),
    })
}

/// Law 2b. canonicalize(a) == canonicalize(b) => is_equivalent_to(a, b).
pub fn canon_eq_implies_equiv(a: &S, b: &S) -> Result<Verdict, String> {
    let (ta, tb) = (to_type(a), to_type(b));
    if ta.canonicalize() != tb.canonicalize() {
        return Ok(Verdict::vacuous("canonical forms differ"));
    }
    let ok = ta.is_equivalent_to(&tb).is_some();
    Ok(Verdict {
        applicable: true,
        violation_key: (!ok).then(|| format!("canon-eq-not-equiv:{}", structural_diff_key(&erase(a), &erase(b)))),
        expected: format!("`{}` and `{}` have equal canonical forms, hence must be equivalent", show(a), show(b)),
        observed: format!("is_equivalent_to(a, b).is_some() = {ok}"),
        detail: json!({"a": show(a), "b": show(b), "canonical": from_type(ta.canonicalize().inner()).map(|s| show(&s))}),
    })
}

/// Law 3. canonicalize(canonicalize(a)) == canonicalize(a).
pub fn canon_idempotent(a: &S) -> Result<Verdict, String> {
    let c1 = to_type(a).canonicalize();
    let c2 = c1.inner().canonicalize();
    let (s1, s2) = (from_type(c1.inner())?, from_type(c2.inner())?);
    let ok = c1 == c2;
    if ok != (s1 == s2) {
        return Err("CanonicalType equality disagrees with field-by-field comparison".into());
    }
    Ok(Verdict {
        applicable: true,
        violation_key: (!ok).then(|| format!("canon-not-idempotent:{}", diff_key(&s1, &s2))),
        expected: format!("canonicalising `{}` twice gives the same as once (`{}`)", show(a), show(&s1)),
        observed: format!("second canonicalisation gives `{}`", show(&s2)),
        detail: json!({"a": show(a), "once": show(&s1), "twice": show(&s2)}),
    })
}

fn tuple1_lost(expected: &S, actual: &S) -> bool {
    if let S::Tuple(es) = expected
        && es.len() == 1
        && node_desc(actual) != "tuple/1"
    {
        return true;
    }
    if node_desc(expected) != node_desc(actual) {
        return false;
    }
    for (x, y) in crate::spec::children(expected).into_iter().zip(crate::spec::children(actual)) {
        if x != y {
            return tuple1_lost(x, y);
        }
    }
    false
}

/// Law 4. parse(render(a)) read back by the independent reader == a.
pub fn render_roundtrip(a: &S) -> Result<Verdict, String> {
    let t = to_type(a);
    let rendered = t.render_type(&id2name());
    let expected = format!("`{}` rendered and parsed back is `{}` again", show(a), show(a));
    let parsed = match syn::parse_str::<syn::Type>(&rendered) {
        Ok(p) => p,
        Err(e) => {
            return Ok(Verdict {
                applicable: true,
                violation_key: Some(format!("render:unparsable:{}", node_desc(a))),
                expected,
                observed: format!("rendered as `{rendered}`, which syn rejects: {e}"),
                detail: json!({"a": show(a), "rendered": rendered}),
            });
        }
    };
    let back = match synconv::read(&parsed) {
        Ok(b) => b,
        Err(e) => {
            return Ok(Verdict {
                applicable: true,
                violation_key: Some(format!("render:unreadable:{}", node_desc(a))),
                expected,
                observed: format!("rendered as `{rendered}`, which is outside the type grammar of the alphabet: {e}"),
                detail: json!({"a": show(a), "rendered": rendered}),
            });
        }
    };
    let ok = &back == a;
    if ok != (to_type(&back) == t) {
        return Err("Type equality disagrees with term equality".into());
    }
    let key = if ok {
        None
    } else if tuple1_lost(a, &back) {
        Some("render:tuple1-as-paren".to_string())
    } else {
        let (x, y) = first_diff(a, &back).unwrap();
        Some(format!("render:{x}=>{y}"))
    };
    Ok(Verdict {
        applicable: true,
        violation_key: key,
        expected,
        observed: format!("rendered as `{rendered}`, which reads back as `{}`", show(&back)),
        detail: json!({"a": show(a), "rendered": rendered, "read_back": show(&back)}),
    })
}

/// Dispatch used by the confirmation step and by `--replay`.
pub fn run(law: &str, terms: &[S]) -> Result<Verdict, String> {
    let need = |n: usize| -> Result<(), String> {
        if terms.len() == n {
            Ok(())
        } else {
            Err(format!("law {law} needs {n} terms, got {}", terms.len()))
        }
    };
    match law {
        "template" => {
            need(2)?;
            template(&terms[0], &terms[1], true)
        }
        "equiv-sound" => {
            need(2)?;
            equiv_sound(&terms[0], &terms[1])
        }
        "equiv-reflexive" => {
            need(1)?;
            equiv_reflexive(&terms[0])
        }
        "equiv-symmetric" => {
            need(2)?;
            equiv_symmetric(&terms[0], &terms[1])
        }
        "equiv-transitive" => {
            need(3)?;
            equiv_transitive(&terms[0], &terms[1], &terms[2])
        }
        "canon-eq-implies-equiv" => {
            need(2)?;
            canon_eq_implies_equiv(&terms[0], &terms[1])
        }
        "canon-idempotent" => {
            need(1)?;
            canon_idempotent(&terms[0])
        }
        "render-roundtrip" => {
            need(1)?;
            render_roundtrip(&terms[0])
        }
        other => Err(format!("unknown law {other}")),
    }
}
