//! The engine's own term language for Rust types (`S`), the reference model that works on it
//! (erasure of lifetimes, substitution, brute-force equivalence) and the two boring bridges
//! `S -> rustdoc_ir::Type` / `rustdoc_ir::Type -> S` (plain field-by-field copies, no logic of the
//! subject is reused).
use rustdoc_ir::{
    Array, ConstGenericArgument, FunctionPointer, FunctionPointerInput, Generic, GenericArgument,
    GenericLifetimeParameter, Lifetime, NamedLifetime, PathType, RawPointer, ScalarPrimitive,
    Slice, Tuple, Type, TypeReference,
};
use rustdoc_types::Abi;
use serde::{Deserialize, Serialize};
use std::collections::HashMap;

/// Package id used for every path type of the alphabet; rendered as crate `a`.
pub const PKG: &str = "a 0.1.0 (path+file:///verif/a)";
pub const CRATE: &str = "a";

#[derive(Clone, PartialEq, Eq, Hash, Debug, Serialize, Deserialize, PartialOrd, Ord)]
pub enum Lt {
    Static,
    Named(String),
    Inferred,
    /// only legal on references
    Elided,
}

#[derive(Clone, PartialEq, Eq, Hash, Debug, Serialize, Deserialize, PartialOrd, Ord)]
pub enum Arg {
    Ty(S),
    Lt(Lt),
    Const(String),
}

#[derive(Clone, PartialEq, Eq, Hash, Debug, Serialize, Deserialize, PartialOrd, Ord)]
pub enum S {
    Scalar(String),
    Gen(String),
    /// `a::<name><args>`
    Path { name: String, args: Vec<Arg> },
    Ref { mutable: bool, lt: Lt, inner: Box<S> },
    Tuple(Vec<S>),
    Slice(Box<S>),
    Array(Box<S>, usize),
    Ptr { mutable: bool, inner: Box<S> },
    /// `[unsafe] [extern "C"] fn(inputs) [-> output]`; the two header flags are independent.
    Fn { inputs: Vec<(Option<String>, S)>, output: Option<Box<S>>, is_unsafe: bool, c_abi: bool },
}

// ---------------------------------------------------------------------------------------------
// bridges
// ---------------------------------------------------------------------------------------------

fn lt_to_ref(l: &Lt) -> Lifetime {
    match l {
        Lt::Static => Lifetime::Static,
        Lt::Named(n) => Lifetime::Named(NamedLifetime::new(n.clone())),
        Lt::Inferred => Lifetime::Inferred,
        Lt::Elided => Lifetime::Elided,
    }
}

fn lt_to_generic(l: &Lt) -> GenericLifetimeParameter {
    match l {
        Lt::Static => GenericLifetimeParameter::Static,
        Lt::Named(n) => GenericLifetimeParameter::Named(NamedLifetime::new(n.clone())),
        Lt::Inferred => GenericLifetimeParameter::Inferred,
        Lt::Elided => panic!("elided lifetime is not a legal generic argument"),
    }
}

pub fn to_type(s: &S) -> Type {
    match s {
        S::Scalar(n) => Type::ScalarPrimitive(
            ScalarPrimitive::try_from(n.as_str()).expect("scalar of the alphabet"),
        ),
        S::Gen(n) => Type::Generic(Generic { name: n.clone() }),
        S::Path { name, args } => Type::Path(PathType {
            package_id: guppy::PackageId::new(PKG),
            rustdoc_id: None,
            base_type: vec![CRATE.to_string(), name.clone()],
            generic_arguments: args
                .iter()
                .map(|a| match a {
                    Arg::Ty(t) => GenericArgument::TypeParameter(to_type(t)),
                    Arg::Lt(l) => GenericArgument::Lifetime(lt_to_generic(l)),
                    Arg::Const(v) => {
                        GenericArgument::Const(ConstGenericArgument { value: v.clone() })
                    }
                })
                .collect(),
        }),
        S::Ref { mutable, lt, inner } => Type::Reference(TypeReference {
            is_mutable: *mutable,
            lifetime: lt_to_ref(lt),
            inner: Box::new(to_type(inner)),
        }),
        S::Tuple(es) => Type::Tuple(Tuple {
            elements: es.iter().map(to_type).collect(),
        }),
        S::Slice(e) => Type::Slice(Slice {
            element_type: Box::new(to_type(e)),
        }),
        S::Array(e, n) => Type::Array(Array {
            element_type: Box::new(to_type(e)),
            len: *n,
        }),
        S::Ptr { mutable, inner } => Type::RawPointer(RawPointer {
            is_mutable: *mutable,
            inner: Box::new(to_type(inner)),
        }),
        S::Fn {
            inputs,
            output,
            is_unsafe,
            c_abi,
        } => Type::FunctionPointer(FunctionPointer {
            inputs: inputs
                .iter()
                .map(|(n, t)| FunctionPointerInput {
                    name: n.clone(),
                    type_: to_type(t),
                })
                .collect(),
            output: output.as_ref().map(|o| Box::new(to_type(o))),
            abi: if *c_abi {
                Abi::C { unwind: false }
            } else {
                Abi::Rust
            },
            is_unsafe: *is_unsafe,
        }),
    }
}

/// Field-by-field copy back into the engine's language. `Err` = the subject produced something
/// outside the alphabet (reported by the caller, never silently accepted).
pub fn from_type(t: &Type) -> Result<S, String> {
    Ok(match t {
        Type::ScalarPrimitive(p) => S::Scalar(p.as_str().to_string()),
        Type::Generic(g) => S::Gen(g.name.clone()),
        Type::Path(p) => {
            if p.package_id.repr() != PKG {
                return Err(format!("foreign package id {}", p.package_id));
            }
            if p.rustdoc_id.is_some() {
                return Err("unexpected rustdoc id".into());
            }
            if p.base_type.len() != 2 || p.base_type[0] != CRATE {
                return Err(format!("unexpected base type {:?}", p.base_type));
            }
            let mut args = Vec::new();
            for a in &p.generic_arguments {
                args.push(match a {
                    GenericArgument::TypeParameter(t) => Arg::Ty(from_type(t)?),
                    GenericArgument::Lifetime(GenericLifetimeParameter::Static) => {
                        Arg::Lt(Lt::Static)
                    }
                    GenericArgument::Lifetime(GenericLifetimeParameter::Inferred) => {
                        Arg::Lt(Lt::Inferred)
                    }
                    GenericArgument::Lifetime(GenericLifetimeParameter::Named(n)) => {
                        Arg::Lt(Lt::Named(n.as_str().to_string()))
                    }
                    GenericArgument::Const(c) => Arg::Const(c.value.clone()),
                });
            }
            S::Path {
                name: p.base_type[1].clone(),
                args,
            }
        }
        Type::TypeAlias(_) => return Err("type alias outside the alphabet".into()),
        Type::Reference(r) => S::Ref {
            mutable: r.is_mutable,
            lt: match &r.lifetime {
                Lifetime::Static => Lt::Static,
                Lifetime::Named(n) => Lt::Named(n.as_str().to_string()),
                Lifetime::Inferred => Lt::Inferred,
                Lifetime::Elided => Lt::Elided,
            },
            inner: Box::new(from_type(&r.inner)?),
        },
        Type::Tuple(t) => S::Tuple(t.elements.iter().map(from_type).collect::<Result<_, _>>()?),
        Type::Slice(s) => S::Slice(Box::new(from_type(&s.element_type)?)),
        Type::Array(a) => S::Array(Box::new(from_type(&a.element_type)?), a.len),
        Type::RawPointer(r) => S::Ptr {
            mutable: r.is_mutable,
            inner: Box::new(from_type(&r.inner)?),
        },
        Type::FunctionPointer(fp) => {
            let c_abi = match &fp.abi {
                Abi::Rust => false,
                Abi::C { unwind: false } => true,
                other => return Err(format!("fn pointer abi outside the alphabet: {other:?}")),
            };
            let mut inputs = Vec::new();
            for i in &fp.inputs {
                inputs.push((i.name.clone(), from_type(&i.type_)?));
            }
            S::Fn {
                inputs,
                output: match &fp.output {
                    Some(o) => Some(Box::new(from_type(o)?)),
                    None => None,
                },
                is_unsafe: fp.is_unsafe,
                c_abi,
            }
        }
    })
}

// ---------------------------------------------------------------------------------------------
// display (the engine's own, so that reports do not depend on the renderer under test)
// ---------------------------------------------------------------------------------------------

fn lt_str(l: &Lt) -> String {
    match l {
        Lt::Static => "'static".into(),
        Lt::Named(n) => format!("'{n}"),
        Lt::Inferred => "'_".into(),
        Lt::Elided => String::new(),
    }
}

pub fn show(s: &S) -> String {
    match s {
        S::Scalar(n) | S::Gen(n) => n.clone(),
        S::Path { name, args } => {
            let mut o = format!("{CRATE}::{name}");
            if !args.is_empty() {
                let parts: Vec<String> = args
                    .iter()
                    .map(|a| match a {
                        Arg::Ty(t) => show(t),
                        Arg::Lt(l) => lt_str(l),
                        Arg::Const(c) => c.clone(),
                    })
                    .collect();
                o.push_str(&format!("<{}>", parts.join(", ")));
            }
            o
        }
        S::Ref { mutable, lt, inner } => {
            let mut o = String::from("&");
            let l = lt_str(lt);
            if !l.is_empty() {
                o.push_str(&l);
                o.push(' ');
            }
            if *mutable {
                o.push_str("mut ");
            }
            o.push_str(&show(inner));
            o
        }
        S::Tuple(es) => match es.len() {
            1 => format!("({},)", show(&es[0])),
            _ => format!("({})", es.iter().map(show).collect::<Vec<_>>().join(", ")),
        },
        S::Slice(e) => format!("[{}]", show(e)),
        S::Array(e, n) => format!("[{}; {}]", show(e), n),
        S::Ptr { mutable, inner } => {
            format!("*{} {}", if *mutable { "mut" } else { "const" }, show(inner))
        }
        S::Fn {
            inputs,
            output,
            is_unsafe,
            c_abi,
        } => {
            let mut o = String::new();
            if *is_unsafe {
                o.push_str("unsafe ");
            }
            if *c_abi {
                o.push_str("extern \"C\" ");
            }
            o.push_str("fn(");
            o.push_str(
                &inputs
                    .iter()
                    .map(|(n, t)| match n {
                        Some(n) => format!("{n}: {}", show(t)),
                        None => show(t),
                    })
                    .collect::<Vec<_>>()
                    .join(", "),
            );
            o.push(')');
            if let Some(out) = output {
                o.push_str(" -> ");
                o.push_str(&show(out));
            }
            o
        }
    }
}

// ---------------------------------------------------------------------------------------------
// reference model
// ---------------------------------------------------------------------------------------------

/// Map over every node (children first).
fn map_children(s: &S, f: &dyn Fn(&S) -> S) -> S {
    match s {
        S::Scalar(_) | S::Gen(_) => s.clone(),
        S::Path { name, args } => S::Path {
            name: name.clone(),
            args: args
                .iter()
                .map(|a| match a {
                    Arg::Ty(t) => Arg::Ty(f(t)),
                    other => other.clone(),
                })
                .collect(),
        },
        S::Ref { mutable, lt, inner } => S::Ref {
            mutable: *mutable,
            lt: lt.clone(),
            inner: Box::new(f(inner)),
        },
        S::Tuple(es) => S::Tuple(es.iter().map(f).collect()),
        S::Slice(e) => S::Slice(Box::new(f(e))),
        S::Array(e, n) => S::Array(Box::new(f(e)), *n),
        S::Ptr { mutable, inner } => S::Ptr {
            mutable: *mutable,
            inner: Box::new(f(inner)),
        },
        S::Fn {
            inputs,
            output,
            is_unsafe,
            c_abi,
        } => S::Fn {
            inputs: inputs.iter().map(|(n, t)| (n.clone(), f(t))).collect(),
            output: output.as_ref().map(|o| Box::new(f(o))),
            is_unsafe: *is_unsafe,
            c_abi: *c_abi,
        },
    }
}

/// Forget everything the laws allow to differ "up to lifetime names": every lifetime (on references
/// and as generic argument) becomes the same token, and fn-pointer parameter names (which are not
/// part of the type) are dropped. Mutability, arity, lengths, paths, const arguments, generic
/// parameter names all stay.
pub fn erase(s: &S) -> S {
    let r = map_children(s, &erase);
    match r {
        S::Ref { mutable, inner, .. } => S::Ref {
            mutable,
            lt: Lt::Elided,
            inner,
        },
        S::Path { name, args } => S::Path {
            name,
            args: args
                .into_iter()
                .map(|a| match a {
                    Arg::Lt(_) => Arg::Lt(Lt::Inferred),
                    o => o,
                })
                .collect(),
        },
        S::Fn {
            inputs,
            output,
            is_unsafe,
            c_abi,
        } => S::Fn {
            inputs: inputs.into_iter().map(|(_, t)| (None, t)).collect(),
            output,
            is_unsafe,
            c_abi,
        },
        o => o,
    }
}

/// Replace every generic parameter by the single wildcard name `_` (used as a cheap necessary
/// condition for equivalence: renaming never changes this).
pub fn wildcard_generics(s: &S) -> S {
    match s {
        S::Gen(_) => S::Gen("_".into()),
        _ => map_children(s, &wildcard_generics),
    }
}

pub fn rename_generics(s: &S, m: &HashMap<String, String>) -> S {
    match s {
        S::Gen(n) => S::Gen(m.get(n).cloned().unwrap_or_else(|| n.clone())),
        _ => map_children(s, &|c| rename_generics(c, m)),
    }
}

/// The engine's own substitution.
pub fn subst(s: &S, b: &HashMap<String, S>) -> S {
    match s {
        S::Gen(n) => b.get(n).cloned().unwrap_or_else(|| s.clone()),
        _ => map_children(s, &|c| subst(c, b)),
    }
}

pub fn generic_names(s: &S, out: &mut Vec<String>) {
    match s {
        S::Gen(n) => {
            if !out.contains(n) {
                out.push(n.clone())
            }
        }
        S::Scalar(_) => {}
        S::Path { args, .. } => {
            for a in args {
                if let Arg::Ty(t) = a {
                    generic_names(t, out)
                }
            }
        }
        S::Ref { inner, .. } | S::Ptr { inner, .. } => generic_names(inner, out),
        S::Tuple(es) => es.iter().for_each(|e| generic_names(e, out)),
        S::Slice(e) | S::Array(e, _) => generic_names(e, out),
        S::Fn { inputs, output, .. } => {
            inputs.iter().for_each(|(_, t)| generic_names(t, out));
            if let Some(o) = output {
                generic_names(o, out)
            }
        }
    }
}

pub fn is_concrete(s: &S) -> bool {
    let mut v = Vec::new();
    generic_names(s, &mut v);
    v.is_empty()
}

pub fn depth(s: &S) -> usize {
    match s {
        S::Scalar(_) | S::Gen(_) => 0,
        S::Path { args, .. } => args
            .iter()
            .map(|a| match a {
                Arg::Ty(t) => depth(t) + 1,
                _ => 0,
            })
            .max()
            .unwrap_or(0),
        S::Ref { inner, .. } | S::Ptr { inner, .. } => depth(inner) + 1,
        S::Tuple(es) => es.iter().map(|e| depth(e) + 1).max().unwrap_or(0),
        S::Slice(e) | S::Array(e, _) => depth(e) + 1,
        S::Fn { inputs, output, .. } => inputs
            .iter()
            .map(|(_, t)| depth(t) + 1)
            .chain(output.iter().map(|o| depth(o) + 1))
            .max()
            .unwrap_or(0),
    }
}

fn permutations(n: usize) -> Vec<Vec<usize>> {
    fn go(cur: &mut Vec<usize>, used: &mut Vec<bool>, n: usize, out: &mut Vec<Vec<usize>>) {
        if cur.len() == n {
            out.push(cur.clone());
            return;
        }
        for i in 0..n {
            if !used[i] {
                used[i] = true;
                cur.push(i);
                go(cur, used, n, out);
                cur.pop();
                used[i] = false;
            }
        }
    }
    let mut out = Vec::new();
    go(&mut Vec::new(), &mut vec![false; n], n, &mut out);
    out
}

/// Reference for "equal up to lifetimes and a bijective renaming of generic parameters":
/// brute force over every bijection between the two name sets. Arguments must be erased already.
pub fn ref_equivalent_erased(ea: &S, eb: &S) -> bool {
    let (mut na, mut nb) = (Vec::new(), Vec::new());
    generic_names(ea, &mut na);
    generic_names(eb, &mut nb);
    if na.len() != nb.len() {
        return false;
    }
    if na.len() > 6 {
        panic!("reference bijection search not meant for more than 6 generic parameters");
    }
    for p in permutations(na.len()) {
        // rename through fresh names so that a name occurring on both sides cannot be captured
        let m1: HashMap<String, String> = na
            .iter()
            .enumerate()
            .map(|(i, n)| (n.clone(), format!("#{i}")))
            .collect();
        let m2: HashMap<String, String> = p
            .iter()
            .enumerate()
            .map(|(i, &j)| (nb[j].clone(), format!("#{i}")))
            .collect();
        if rename_generics(ea, &m1) == rename_generics(eb, &m2) {
            return true;
        }
    }
    false
}

// ---------------------------------------------------------------------------------------------
// abstract descriptions of differences (violation keys)
// ---------------------------------------------------------------------------------------------

fn lt_kind(l: &Lt) -> &'static str {
    match l {
        Lt::Static => "'static",
        Lt::Named(_) => "'named",
        Lt::Inferred => "'_",
        Lt::Elided => "elided",
    }
}

/// Shallow description of a node: constructor, mutability, arity, length — no children, no names.
pub fn node_desc(s: &S) -> String {
    match s {
        S::Scalar(n) => n.clone(),
        S::Gen(_) => "generic".into(),
        S::Path { name, args } => format!("{CRATE}::{name}/{}", args.len()),
        S::Ref { mutable, .. } => if *mutable { "&mut _" } else { "&_" }.into(),
        S::Tuple(es) => format!("tuple/{}", es.len()),
        S::Slice(_) => "[_]".into(),
        S::Array(_, n) => format!("[_; {n}]"),
        S::Ptr { mutable, .. } => if *mutable { "*mut _" } else { "*const _" }.into(),
        S::Fn {
            inputs,
            output,
            is_unsafe,
            c_abi,
        } => format!(
            "{}{}fn/{}{}",
            if *is_unsafe { "unsafe-" } else { "" },
            if *c_abi { "extern-C-" } else { "" },
            inputs.len(),
            if output.is_some() { "->_" } else { "" }
        ),
    }
}

pub fn children(s: &S) -> Vec<&S> {
    match s {
        S::Scalar(_) | S::Gen(_) => vec![],
        S::Path { args, .. } => args
            .iter()
            .filter_map(|a| match a {
                Arg::Ty(t) => Some(t),
                _ => None,
            })
            .collect(),
        S::Ref { inner, .. } | S::Ptr { inner, .. } => vec![inner],
        S::Tuple(es) => es.iter().collect(),
        S::Slice(e) | S::Array(e, _) => vec![e],
        S::Fn { inputs, output, .. } => inputs
            .iter()
            .map(|(_, t)| t)
            .chain(output.iter().map(|o| &**o))
            .collect(),
    }
}

/// First (pre-order) point where two terms differ, described abstractly.
pub fn first_diff(a: &S, b: &S) -> Option<(String, String)> {
    if a == b {
        return None;
    }
    let (da, db) = (node_desc(a), node_desc(b));
    if da != db {
        return Some((da, db));
    }
    match (a, b) {
        (S::Gen(x), S::Gen(y)) if x != y => {
            return Some(("generic".into(), "other-generic".into()));
        }
        (S::Ref { lt: la, .. }, S::Ref { lt: lb, .. }) if la != lb => {
            return Some((
                format!("ref-lifetime:{}", lt_kind(la)),
                format!("ref-lifetime:{}", if lt_kind(la) == lt_kind(lb) { "'other-named" } else { lt_kind(lb) }),
            ));
        }
        (S::Path { args: aa, .. }, S::Path { args: ab, .. }) => {
            for (x, y) in aa.iter().zip(ab.iter()) {
                match (x, y) {
                    (Arg::Ty(_), Arg::Ty(_)) => {}
                    (Arg::Lt(l1), Arg::Lt(l2)) => {
                        if l1 != l2 {
                            return Some((
                                format!("arg-lifetime:{}", lt_kind(l1)),
                                format!("arg-lifetime:{}", if lt_kind(l1) == lt_kind(l2) { "'other-named" } else { lt_kind(l2) }),
                            ));
                        }
                    }
                    (Arg::Const(c1), Arg::Const(c2)) => {
                        if c1 != c2 {
                            return Some(("const-arg".into(), "other-const-arg".into()));
                        }
                    }
                    _ => return Some(("generic-arg-kind".into(), "other-generic-arg-kind".into())),
                }
            }
        }
        (S::Fn { inputs: ia, .. }, S::Fn { inputs: ib, .. }) => {
            for ((n1, _), (n2, _)) in ia.iter().zip(ib.iter()) {
                if n1 != n2 {
                    return Some((
                        format!("fn-input-name:{}", if n1.is_some() { "named" } else { "unnamed" }),
                        format!("fn-input-name:{}", if n2.is_some() { "named" } else { "unnamed" }),
                    ));
                }
            }
        }
        _ => {}
    }
    for (x, y) in children(a).into_iter().zip(children(b)) {
        if let Some(d) = first_diff(x, y) {
            return Some(d);
        }
    }
    Some(("?".into(), "?".into()))
}

/// Order-insensitive rendering of a difference, so that `&T ~ &mut T` and `&mut T ~ &T` give one key.
pub fn diff_key(a: &S, b: &S) -> String {
    match first_diff(a, b) {
        None => "identical".into(),
        Some((x, y)) => {
            if x <= y {
                format!("{x}~{y}")
            } else {
                format!("{y}~{x}")
            }
        }
    }
}
