//! Bounded-exhaustive enumeration of type terms.
//!
//! Leaves (depth 0): `u8`, `bool`, `T`, `U`, `a::P`, `()`, `a::L<'static>`, `a::L<'a>`, `a::L<'_>`,
//! `a::K<8>`, `fn()`.
//! Unary constructors (FULL, 25): `&`/`&mut` x {'static, 'a, 'b, elided, '_} (10), `(_,)`, `[_]`,
//! `[_; 1]`, `[_; 2]`, `*const _`, `*mut _`, `a::Q<_>`, `a::M<'a, _>`, `fn(_)`, `fn() -> _`,
//! `fn(x: _)`, `unsafe fn(_)`, `extern "C" fn(_)`, `unsafe extern "C" fn(_)` (the two header flags
//! vary independently, so that a matcher confusing "either differs" with "both differ" is seen).
//! Binary constructors (3): `(_, _)`, `a::R<_, _>`, `fn(_) -> _`.
//! NARROW alphabet (used below binary nodes past depth 1 so that the universe stays enumerable):
//! leaves {`u8`, `T`, `U`, `a::P`}, unary {`&_`, `&mut _`, `*mut _`, `(_,)`, `a::Q<_>`}, no binary.
//!
//! D0 = leaves; D1 = D0 + unary(D0) + binary(D0 x D0);
//! D2 = D1 + unary(D1) + binary(N1 x N1)            (quick universe; N1 = narrow terms of depth <= 1)
//! D3 = D2 + unary3(D2) + binary(N2 x N2)           (thorough; N2 = narrow terms of depth <= 2;
//!      unary3 = the "restricted width" root alphabet, see `unary_depth3`).
use crate::spec::{Arg, Lt, S};
use std::collections::HashSet;

#[derive(Clone, Debug)]
pub enum U1 {
    Ref(bool, Lt),
    Tuple1,
    Slice,
    Array(usize),
    Ptr(bool),
    PathQ,
    PathM,
    Fn1,
    FnRet,
    FnNamed,
    /// fn(_) with header flags (is_unsafe, c_abi)
    FnHeader(bool, bool),
}

#[derive(Clone, Copy, Debug)]
pub enum U2 {
    Tuple2,
    PathR,
    FnArgRet,
}

impl U1 {
    pub fn apply(&self, x: S) -> S {
        match self {
            U1::Ref(m, l) => S::Ref {
                mutable: *m,
                lt: l.clone(),
                inner: Box::new(x),
            },
            U1::Tuple1 => S::Tuple(vec![x]),
            U1::Slice => S::Slice(Box::new(x)),
            U1::Array(n) => S::Array(Box::new(x), *n),
            U1::Ptr(m) => S::Ptr {
                mutable: *m,
                inner: Box::new(x),
            },
            U1::PathQ => S::Path {
                name: "Q".into(),
                args: vec![Arg::Ty(x)],
            },
            U1::PathM => S::Path {
                name: "M".into(),
                args: vec![Arg::Lt(Lt::Named("a".into())), Arg::Ty(x)],
            },
            U1::Fn1 => S::Fn {
                inputs: vec![(None, x)],
                output: None,
                is_unsafe: false,
                c_abi: false,
            },
            U1::FnRet => S::Fn {
                inputs: vec![],
                output: Some(Box::new(x)),
                is_unsafe: false,
                c_abi: false,
            },
            U1::FnNamed => S::Fn {
                inputs: vec![(Some("x".into()), x)],
                output: None,
                is_unsafe: false,
                c_abi: false,
            },
            U1::FnHeader(u, c) => S::Fn {
                inputs: vec![(None, x)],
                output: None,
                is_unsafe: *u,
                c_abi: *c,
            },
        }
    }
}

impl U2 {
    pub fn apply(&self, x: S, y: S) -> S {
        match self {
            U2::Tuple2 => S::Tuple(vec![x, y]),
            U2::PathR => S::Path {
                name: "R".into(),
                args: vec![Arg::Ty(x), Arg::Ty(y)],
            },
            U2::FnArgRet => S::Fn {
                inputs: vec![(None, x)],
                output: Some(Box::new(y)),
                is_unsafe: false,
                c_abi: false,
            },
        }
    }
}

fn path0(name: &str, args: Vec<Arg>) -> S {
    S::Path {
        name: name.into(),
        args,
    }
}

pub fn leaves() -> Vec<S> {
    vec![
        S::Scalar("u8".into()),
        S::Scalar("bool".into()),
        S::Gen("T".into()),
        S::Gen("U".into()),
        path0("P", vec![]),
        S::Tuple(vec![]),
        path0("L", vec![Arg::Lt(Lt::Static)]),
        path0("L", vec![Arg::Lt(Lt::Named("a".into()))]),
        path0("L", vec![Arg::Lt(Lt::Inferred)]),
        path0("K", vec![Arg::Const("8".into())]),
        S::Fn {
            inputs: vec![],
            output: None,
            is_unsafe: false,
                c_abi: false,
        },
    ]
}

pub fn ref_lifetimes() -> Vec<Lt> {
    vec![
        Lt::Static,
        Lt::Named("a".into()),
        Lt::Named("b".into()),
        Lt::Elided,
        Lt::Inferred,
    ]
}

pub fn unary_full() -> Vec<U1> {
    let mut v = Vec::new();
    for m in [false, true] {
        for l in ref_lifetimes() {
            v.push(U1::Ref(m, l));
        }
    }
    v.extend([
        U1::Tuple1,
        U1::Slice,
        U1::Array(1),
        U1::Array(2),
        U1::Ptr(false),
        U1::Ptr(true),
        U1::PathQ,
        U1::PathM,
        U1::Fn1,
        U1::FnRet,
        U1::FnNamed,
        U1::FnHeader(true, false),
        U1::FnHeader(false, true),
        U1::FnHeader(true, true),
    ]);
    v
}

/// Root alphabet of the depth-3 layer ("restricted width"): both reference mutabilities x
/// {elided, 'a, 'static}, 1-tuple, slice, one array length, both raw pointers, `a::Q<_>`,
/// `fn(_)`, `fn() -> _`.
pub fn unary_depth3() -> Vec<U1> {
    let mut v = Vec::new();
    for m in [false, true] {
        for l in [Lt::Elided, Lt::Named("a".into()), Lt::Static] {
            v.push(U1::Ref(m, l));
        }
    }
    v.extend([
        U1::Tuple1,
        U1::Slice,
        U1::Array(1),
        U1::Ptr(false),
        U1::Ptr(true),
        U1::PathQ,
        U1::Fn1,
        U1::FnRet,
    ]);
    v
}

pub fn binary() -> Vec<U2> {
    vec![U2::Tuple2, U2::PathR, U2::FnArgRet]
}

fn narrow_leaves() -> Vec<S> {
    vec![
        S::Scalar("u8".into()),
        S::Gen("T".into()),
        S::Gen("U".into()),
        path0("P", vec![]),
    ]
}

fn narrow_unary() -> Vec<U1> {
    vec![
        U1::Ref(false, Lt::Elided),
        U1::Ref(true, Lt::Elided),
        U1::Ptr(true),
        U1::Tuple1,
        U1::PathQ,
    ]
}

/// narrow terms of depth <= d
fn narrow(d: usize) -> Vec<S> {
    let mut cur = narrow_leaves();
    for _ in 0..d {
        let mut next = narrow_leaves();
        for u in narrow_unary() {
            for x in &cur {
                next.push(u.apply(x.clone()));
            }
        }
        cur = next;
    }
    cur
}

struct Acc {
    seen: HashSet<S>,
    out: Vec<S>,
}
impl Acc {
    fn push(&mut self, s: S) {
        if self.seen.insert(s.clone()) {
            self.out.push(s);
        }
    }
}

pub struct Universe {
    pub terms: Vec<S>,
    /// number of leading terms that form the quick universe (depth <= 2)
    pub quick_len: usize,
    pub d0: usize,
    pub d1: usize,
}

pub fn build(thorough: bool) -> Universe {
    let mut acc = Acc {
        seen: HashSet::new(),
        out: Vec::new(),
    };
    for l in leaves() {
        acc.push(l);
    }
    let d0 = acc.out.len();
    let lv: Vec<S> = acc.out.clone();
    for u in unary_full() {
        for x in &lv {
            acc.push(u.apply(x.clone()));
        }
    }
    for b in binary() {
        for x in &lv {
            for y in &lv {
                acc.push(b.apply(x.clone(), y.clone()));
            }
        }
    }
    let d1 = acc.out.len();
    let d1v: Vec<S> = acc.out.clone();
    for u in unary_full() {
        for x in &d1v {
            acc.push(u.apply(x.clone()));
        }
    }
    let n1 = narrow(1);
    for b in binary() {
        for x in &n1 {
            for y in &n1 {
                acc.push(b.apply(x.clone(), y.clone()));
            }
        }
    }
    let quick_len = acc.out.len();
    if thorough {
        let d2v: Vec<S> = acc.out.clone();
        for u in unary_depth3() {
            for x in &d2v {
                acc.push(u.apply(x.clone()));
            }
        }
        let n2 = narrow(2);
        for b in binary() {
            for x in &n2 {
                for y in &n2 {
                    acc.push(b.apply(x.clone(), y.clone()));
                }
            }
        }
    }
    Universe {
        terms: acc.out,
        quick_len,
        d0,
        d1,
    }
}
