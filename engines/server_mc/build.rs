//! Detects whether the pavex sources the workspace points at contain hook H2
//! (`src/server/verif.rs`, see hook.patch) and sets `cfg(has_h2)` accordingly, so that the
//! workspace keeps building before the hook is committed to /repo.
use std::path::PathBuf;

fn main() {
    println!("cargo::rustc-check-cfg=cfg(has_h2)");
    // lexical parent (the crate directory may be a symlink into another workspace copy)
    let ws = PathBuf::from(std::env::var("CARGO_MANIFEST_DIR").unwrap())
        .parent()
        .map(|p| p.join("Cargo.toml"))
        .unwrap_or_default();
    println!("cargo::rerun-if-changed={}", ws.display());
    let toml = std::fs::read_to_string(&ws).unwrap_or_default();
    // pavex = { path = "/repo/runtime/pavex", ... }
    let path = toml
        .lines()
        .find(|l| l.trim_start().starts_with("pavex ") || l.trim_start().starts_with("pavex="))
        .and_then(|l| l.split("path").nth(1))
        .and_then(|r| r.split('"').nth(1))
        .unwrap_or("/repo/runtime/pavex")
        .to_string();
    let hook = PathBuf::from(&path).join("src/server/verif.rs");
    println!("cargo::rerun-if-changed={}", hook.display());
    println!("cargo::rerun-if-changed={}", PathBuf::from(&path).join("src/server").display());
    if hook.exists() {
        println!("cargo::rustc-cfg=has_h2");
    }
}
