//! Executes one schedule against a real `pavex::server::Server` on loopback, with the acceptor
//! and worker threads held at the H2 checkpoints. One server per process at a time.
use crate::model::{Action, Cfg, Expect, Mode, State};
use pavex::connection::ConnectionInfo;
use pavex::server::verif::{self, MsgKind, Point, Release};
use pavex::server::{IncomingStream, Server, ServerConfiguration, ServerHandle, ShutdownMode};
use serde::{Deserialize, Serialize};
use std::collections::HashMap;
use std::future::{Future, IntoFuture, poll_fn};
use std::io::{Read, Write};
use std::net::{SocketAddr, TcpStream};
use std::sync::mpsc::{Receiver, Sender, channel};
use std::sync::{Arc, Mutex};
use std::task::Poll;
use std::time::{Duration, Instant};

pub const GENEROUS_MS: u64 = 2000;
pub const SHORT_MS: u64 = 150;
/// slack granted to "promptly" / "once all workers are idle"
pub const SLACK_MS: u64 = 400;
const WATCHDOG: Duration = Duration::from_millis(8000);

pub enum Ev {
    Cp(Point, Release),
    Entered(u64, u8, u8),
    Resp(u64, u8, u8, bool),
    Closed(u64, u8, bool),
    CallPolled(u64),
    Resolved(u64, Instant),
    HandleResolved(u64, Instant),
}

struct AppInner {
    /// bulk configurations: handlers never wait on their gate
    auto_open: bool,
    epoch: u64,
    tx: Mutex<Sender<Ev>>,
    gates: Vec<Vec<tokio::sync::Notify>>,
}
#[derive(Clone)]
struct App(Arc<AppInner>);

fn parse_path(p: &str) -> Option<(u8, u8)> {
    // "/c<i>/r<k>"
    let mut it = p.trim_start_matches('/').split('/');
    let i = it.next()?.strip_prefix('c')?.parse().ok()?;
    let k = it.next()?.strip_prefix('r')?.parse().ok()?;
    Some((i, k))
}

async fn handler(
    req: http::Request<hyper::body::Incoming>,
    _conn: Option<ConnectionInfo>,
    app: App,
) -> pavex::Response {
    let Some((i, k)) = parse_path(req.uri().path()) else {
        // the post-shutdown probe: answering it at all is the observation
        return pavex::Response::ok().set_typed_body("probe".to_string());
    };
    let _ = app.0.tx.lock().unwrap().send(Ev::Entered(app.0.epoch, i, k));
    if !app.0.auto_open {
        app.0.gates[i as usize][k as usize].notified().await;
    }
    pavex::Response::ok().set_typed_body(format!("done-c{i}-r{k}"))
}

pub struct Harness {
    /// largest delay (µs) with which a sibling thread that sleeps 1 ms at a time was woken up
    /// late since the last reset: how badly this process is being starved of CPU
    sched_gap_us: Arc<std::sync::atomic::AtomicU64>,
    rt: tokio::runtime::Runtime,
    tx: Sender<Ev>,
    rx: Receiver<Ev>,
    epoch: u64,
}

#[derive(Clone, Debug, Default, Serialize, Deserialize, PartialEq)]
pub struct ReqFact {
    pub client: u8,
    pub k: u8,
    /// request bytes fully written before `shutdown` was called
    pub sent_before_call: bool,
    /// where the request was when `shutdown` was called, from observed events only:
    /// done | mid_handler | started_unparsed | keepalive_unparsed | queued | at_acceptor | backlog
    /// | late_connect
    pub class: String,
    pub entered: bool,
    pub gate_opened: bool,
    pub never_opens: bool,
    pub answered: bool,
    pub partial: bool,
    /// had the acceptor's IO driver (with which every connection is registered) announced the
    /// request bytes to the connection when its worker signalled the graceful shutdown?
    /// (from the shadow model, validated runs only; None = the worker never got that far)
    pub bytes_announced: Option<bool>,
}

#[derive(Clone, Debug, Default, Serialize, Deserialize)]
pub struct Outcome {
    pub reqs: Vec<ReqFact>,
    /// clients that connected after the call and were nevertheless picked up by the acceptor
    pub accepted_after_call: Vec<u8>,
    pub called: bool,
    pub resolved: bool,
    /// ms between the release of the acceptor from A_SHUTDOWN_SENT and the resolution
    pub resolve_ms_after_t0: f64,
    /// ms between the moment the shutdown command was in the acceptor's inbox and the resolution
    pub resolve_ms_after_call: f64,
    /// ms between the later of (t0, last harness action) and the resolution
    pub resolve_ms_after_idle: f64,
    /// a handler was still blocked on a closed gate when the shutdown future resolved
    pub blocked_handler_at_resolve: bool,
    pub handle_resolved: bool,
    pub handle_ms_after_resolve: f64,
    /// refused | not_served | served
    pub probe: String,
    pub all_closed: bool,
    pub diverged: Option<String>,
    pub timing_unsafe: bool,
    pub events: usize,
    /// largest scheduling delay (ms) a 1 ms sleeper of this process saw during the execution
    pub max_sched_gap_ms: f64,
    pub parked_fallbacks: usize,
    pub trace: Vec<String>,
    /// after `shutdown` had been called, the acceptor — released from every checkpoint — did not reach the next
    /// checkpoint the shadow model predicts within the watchdog (ms waited); 0 = did not happen
    #[serde(default)]
    pub acceptor_unresponsive_after_call_ms: f64,
    #[serde(default)]
    pub acceptor_unresponsive_waiting_for: String,
}

impl Outcome {
    /// The observed facts that must be identical when a schedule is executed twice (`diverged`
    /// is a statement about the shadow model, not a fact about the server).
    pub fn facts(&self) -> serde_json::Value {
        let mut v = self.canonical();
        v.as_object_mut().unwrap().remove("diverged");
        v
    }

    pub fn canonical(&self) -> serde_json::Value {
        serde_json::json!({
            "reqs": self.reqs,
            "accepted_after_call": self.accepted_after_call,
            "resolved": self.resolved,
            "blocked_handler_at_resolve": self.blocked_handler_at_resolve,
            "handle_resolved": self.handle_resolved,
            "probe_served": self.probe == "served",
            "all_closed": self.all_closed,
            "diverged": self.diverged,
        })
    }
}

struct ClientRt {
    stream: TcpStream,
    after_call: bool,
    closed: bool,
    partial: bool,
    /// per request: (sent_before_call, class, entered, gate_opened, answered)
    reqs: Vec<ReqFact>,
    amsg_seen: bool,
    dropped: bool,
    dispatched: bool,
    started: bool,
}

fn spawn_reader(mut s: TcpStream, i: u8, epoch: u64, tx: Sender<Ev>) {
    std::thread::spawn(move || {
        let mut buf: Vec<u8> = Vec::new();
        let mut k = 0u8;
        let mut chunk = [0u8; 4096];
        loop {
            // parse as many complete responses as the buffer holds
            loop {
                let Some(h) = buf.windows(4).position(|w| w == b"\r\n\r\n") else {
                    break;
                };
                let head = String::from_utf8_lossy(&buf[..h]).to_ascii_lowercase();
                let cl: usize = head
                    .lines()
                    .find_map(|l| l.strip_prefix("content-length:"))
                    .and_then(|v| v.trim().parse().ok())
                    .unwrap_or(0);
                if buf.len() < h + 4 + cl {
                    break;
                }
                let body = String::from_utf8_lossy(&buf[h + 4..h + 4 + cl]).to_string();
                let ok = head.starts_with("http/1.1 200") && body == format!("done-c{i}-r{k}");
                buf.drain(..h + 4 + cl);
                let _ = tx.send(Ev::Resp(epoch, i, k, ok));
                k += 1;
            }
            match s.read(&mut chunk) {
                Ok(0) | Err(_) => {
                    let _ = tx.send(Ev::Closed(epoch, i, !buf.is_empty()));
                    return;
                }
                Ok(n) => buf.extend_from_slice(&chunk[..n]),
            }
        }
    });
}

/// tids of the live threads of this process whose name starts with `pavex-`
fn pavex_threads() -> Vec<(u32, String)> {
    let mut v = Vec::new();
    if let Ok(rd) = std::fs::read_dir("/proc/self/task") {
        for e in rd.flatten() {
            let Some(tid) = e.file_name().to_str().and_then(|s| s.parse::<u32>().ok()) else {
                continue;
            };
            if let Ok(comm) = std::fs::read_to_string(e.path().join("comm")) {
                let comm = comm.trim().to_string();
                if comm.starts_with("pavex-") {
                    v.push((tid, comm));
                }
            }
        }
    }
    v
}

/// Is the thread blocked in `epoll_wait`, i.e. parked in its tokio runtime's IO driver?
fn in_epoll_wait(tid: u32) -> Option<bool> {
    let s = std::fs::read_to_string(format!("/proc/self/task/{tid}/syscall")).ok()?;
    let nr = s.split_whitespace().next()?;
    // x86_64: epoll_wait 232, epoll_pwait 281, epoll_pwait2 441
    Some(matches!(nr, "232" | "281" | "441"))
}

/// Number of times the thread went to sleep voluntarily (blocked in a syscall).
fn voluntary_switches(tid: u32) -> Option<u64> {
    let s = std::fs::read_to_string(format!("/proc/self/task/{tid}/status")).ok()?;
    s.lines()
        .find_map(|l| l.strip_prefix("voluntary_ctxt_switches:"))
        .and_then(|v| v.trim().parse().ok())
}

struct Run<'h> {
    h: &'h Harness,
    cfg: Cfg,
    epoch: u64,
    addr: SocketAddr,
    handle: ServerHandle,
    app: App,
    a_rel: Option<Release>,
    a_point: Option<Point>,
    w_rel: Vec<Option<Release>>,
    a_tid: Option<u32>,
    w_tid: Vec<Option<u32>>,
    pub_parked_fallbacks: usize,
    w_final: Vec<bool>,
    w_point: Vec<Option<Point>>,
    port2client: HashMap<u16, u8>,
    clients: Vec<Option<ClientRt>>,
    called_at: Option<Instant>,
    call_started: Option<Instant>,
    t0: Option<Instant>,
    last_action: Instant,
    resolved_at: Option<Instant>,
    idle_ref: Option<Instant>,
    blocked_at_resolve: bool,
    handle_resolved_at: Option<Instant>,
    accepted_after_call: Vec<u8>,
    diverged: Option<String>,
    trace: Vec<String>,
    events: usize,
    pending: std::collections::VecDeque<Ev>,
    unresponsive_ms: f64,
    unresponsive_since_call: bool,
    unresponsive_for: String,
}

impl Harness {
    pub fn new() -> Harness {
        let rt = tokio::runtime::Builder::new_multi_thread()
            .worker_threads(2)
            .enable_all()
            .build()
            .unwrap_or_else(|e| verif_common::machinery_error(&format!("tokio runtime: {e}")));
        let (tx, rx) = channel();
        let cp_rx = verif::attach();
        let tx2 = tx.clone();
        std::thread::spawn(move || {
            while let Ok(e) = cp_rx.recv() {
                if tx2.send(Ev::Cp(e.point, e.release)).is_err() {
                    break;
                }
            }
        });
        let sched_gap_us = Arc::new(std::sync::atomic::AtomicU64::new(0));
        let g = sched_gap_us.clone();
        std::thread::spawn(move || {
            loop {
                let t = Instant::now();
                std::thread::sleep(Duration::from_millis(1));
                let late = t.elapsed().saturating_sub(Duration::from_millis(1)).as_micros() as u64;
                g.fetch_max(late, std::sync::atomic::Ordering::Relaxed);
            }
        });
        Harness { sched_gap_us, rt, tx, rx, epoch: 0 }
    }

    /// Execute `schedule` from a fresh server. Never panics on divergence: it is recorded.
    pub fn execute(&mut self, cfg: Cfg, schedule: &[Action]) -> Outcome {
        self.epoch += 1;
        let epoch = self.epoch;
        self.sched_gap_us.store(0, std::sync::atomic::Ordering::Relaxed);
        // Stale events of a previous execution (none are expected).
        while let Ok(ev) = self.rx.try_recv() {
            if let Ev::Cp(p, _) = ev {
                verif_common::machinery_error(&format!("stale checkpoint {p:?} from a previous execution"));
            }
        }
        let stale: Vec<u32> = pavex_threads().into_iter().map(|(t, _)| t).collect();
        let app = App(Arc::new(AppInner {
            auto_open: cfg.bulk,
            epoch,
            tx: Mutex::new(self.tx.clone()),
            gates: (0..cfg.clients)
                .map(|_| (0..cfg.max_req.max(1)).map(|_| tokio::sync::Notify::new()).collect())
                .collect(),
        }));
        let (incoming, addr) = self.rt.block_on(async {
            // A loopback address of its own per process: the post-shutdown probe (and the probes
            // of sibling processes) can then never reach a listener of another process that got
            // the same ephemeral port.
            let pid = std::process::id();
            let ip = std::net::Ipv4Addr::new(127, 64 + ((pid >> 16) & 0x3f) as u8, (pid >> 8) as u8, pid as u8);
            let i = IncomingStream::bind(SocketAddr::from((ip, 0)))
                .await
                .unwrap_or_else(|e| verif_common::machinery_error(&format!("bind: {e}")));
            let a = i.local_addr().unwrap();
            (i, a)
        });
        let handle = {
            let _g = self.rt.enter();
            Server::new()
                .set_config(ServerConfiguration::new().set_n_workers(cfg.workers as usize))
                .listen(incoming)
                .serve(handler, app.clone())
        };
        let run = Run {
            h: self,
            cfg,
            epoch,
            addr,
            handle,
            app,
            a_rel: None,
            a_point: None,
            w_rel: (0..cfg.workers).map(|_| None).collect(),
            a_tid: None,
            w_tid: vec![None; cfg.workers as usize],
            pub_parked_fallbacks: 0,
            w_final: vec![false; cfg.workers as usize],
            w_point: vec![None; cfg.workers as usize],
            port2client: HashMap::new(),
            clients: (0..cfg.clients).map(|_| None).collect(),
            called_at: None,
            call_started: None,
            t0: None,
            last_action: Instant::now(),
            resolved_at: None,
            idle_ref: None,
            blocked_at_resolve: false,
            handle_resolved_at: None,
            accepted_after_call: vec![],
            diverged: None,
            trace: vec![],
            events: 0,
            pending: Default::default(),
            unresponsive_ms: 0.0,
            unresponsive_since_call: false,
            unresponsive_for: String::new(),
        };
        run.go(schedule, &stale)
    }
}

impl Run<'_> {
    fn diverge(&mut self, why: String) {
        self.trace.push(format!("DIVERGED: {why}"));
        if self.diverged.is_none() {
            self.diverged = Some(why);
        }
    }

    fn client_of(&self, peer: &SocketAddr) -> Option<u8> {
        self.port2client.get(&peer.port()).copied()
    }

    /// Record an event into the facts; returns the `Expect` it corresponds to (if any).
    fn absorb(&mut self, ev: Ev) -> Option<Expect> {
        self.events += 1;
        match ev {
            Ev::Cp(p, rel) => {
                self.trace.push(format!("cp {p:?}"));
                match p {
                    Point::ALoop => {
                        self.a_rel = Some(rel);
                        self.a_point = Some(p);
                        Some(Expect::ALoop)
                    }
                    Point::AMsg(kind) => {
                        self.a_rel = Some(rel);
                        self.a_point = Some(p);
                        match kind {
                            MsgKind::Shutdown => Some(Expect::AMsgShutdown),
                            MsgKind::Conn(peer) => match self.client_of(&peer) {
                                Some(i) => {
                                    if let Some(c) = self.clients[i as usize].as_mut() {
                                        c.amsg_seen = true;
                                        if c.after_call {
                                            self.accepted_after_call.push(i);
                                        }
                                    }
                                    Some(Expect::AMsgConn(i))
                                }
                                None => {
                                    self.diverge(format!("acceptor picked unknown peer {peer}"));
                                    None
                                }
                            },
                            MsgKind::Other => {
                                self.diverge("acceptor picked a failed accept task".into());
                                None
                            }
                        }
                    }
                    Point::ADispatched(peer, w) => {
                        // released right away: nothing happens between it and A_LOOP
                        rel.release();
                        match self.client_of(&peer) {
                            Some(i) => {
                                if let Some(c) = self.clients[i as usize].as_mut() {
                                    c.dispatched = true;
                                }
                                Some(Expect::ADispatched(i, w as u8))
                            }
                            None => None,
                        }
                    }
                    Point::ADropped(peer) => {
                        rel.release();
                        match self.client_of(&peer) {
                            Some(i) => {
                                if let Some(c) = self.clients[i as usize].as_mut() {
                                    c.dropped = true;
                                }
                                Some(Expect::ADropped(i))
                            }
                            None => {
                                self.diverge(format!("acceptor dropped unknown connection {peer}"));
                                None
                            }
                        }
                    }
                    Point::AShutdownSent => {
                        self.a_rel = Some(rel);
                        self.a_point = Some(p);
                        Some(Expect::AShutdownSent)
                    }
                    Point::WLoop(w) => {
                        if w < self.w_rel.len() {
                            self.w_rel[w] = Some(rel);
                            self.w_point[w] = Some(p);
                        }
                        Some(Expect::WLoop(w as u8))
                    }
                    Point::WMsg(w, kind) => {
                        if w < self.w_rel.len() {
                            self.w_rel[w] = Some(rel);
                            self.w_point[w] = Some(p);
                        }
                        match kind {
                            MsgKind::Shutdown => Some(Expect::WMsgShutdown(w as u8)),
                            MsgKind::Conn(peer) => match self.client_of(&peer) {
                                Some(i) => Some(Expect::WMsgConn(w as u8, i)),
                                None => None,
                            },
                            MsgKind::Other => None,
                        }
                    }
                    Point::WDrained(w, n) => {
                        if w < self.w_rel.len() {
                            self.w_rel[w] = Some(rel);
                            self.w_point[w] = Some(p);
                        }
                        Some(Expect::WDrained(w as u8, n as u8))
                    }
                }
            }
            Ev::Entered(e, i, k) if e == self.epoch => {
                self.trace.push(format!("entered c{i} r{k}"));
                if let Some(c) = self.clients[i as usize].as_mut()
                    && let Some(r) = c.reqs.get_mut(k as usize)
                {
                    r.entered = true;
                    if self.cfg.bulk {
                        r.gate_opened = true;
                    }
                }
                Some(Expect::Entered(i))
            }
            Ev::Resp(e, i, k, ok) if e == self.epoch => {
                self.trace.push(format!("response c{i} r{k} ok={ok}"));
                if let Some(c) = self.clients[i as usize].as_mut()
                    && let Some(r) = c.reqs.get_mut(k as usize)
                {
                    r.answered = ok;
                    r.partial = !ok;
                }
                Some(Expect::Response(i))
            }
            Ev::Closed(e, i, partial) if e == self.epoch => {
                self.trace.push(format!("closed c{i} partial={partial}"));
                if let Some(c) = self.clients[i as usize].as_mut() {
                    c.closed = true;
                    c.partial = partial;
                }
                Some(Expect::Closed(i))
            }
            Ev::CallPolled(e) if e == self.epoch => None,
            Ev::Resolved(e, at) if e == self.epoch => {
                self.trace.push("shutdown future resolved".into());
                self.resolved_at = Some(at);
                self.idle_ref = Some(self.last_action);
                self.blocked_at_resolve = self.clients.iter().flatten().any(|c| {
                    c.reqs.iter().any(|r| r.entered && !r.gate_opened && !r.answered)
                });
                Some(Expect::Resolved)
            }
            Ev::HandleResolved(e, at) if e == self.epoch => {
                self.trace.push("handle await resolved".into());
                self.handle_resolved_at = Some(at);
                None
            }
            _ => None, // event of an older epoch
        }
    }

    fn next_ev(&mut self, deadline: Instant) -> Option<Ev> {
        if let Some(ev) = self.pending.pop_front() {
            return Some(ev);
        }
        self.h
            .rx
            .recv_timeout(deadline.saturating_duration_since(Instant::now()))
            .ok()
    }

    fn wait_for(&mut self, mut want: Vec<Expect>) {
        let deadline = Instant::now() + WATCHDOG;
        while !want.is_empty() {
            // wait in slices: a server thread that died (panicked) will never reach its checkpoint
            let slice = (Instant::now() + Duration::from_millis(100)).min(deadline);
            let ev = match self.next_ev(slice) {
                Some(ev) => ev,
                None if Instant::now() < deadline => {
                    let dead = want.iter().find_map(|e| {
                        let tid = match e {
                            Expect::AMsgConn(_) | Expect::AMsgShutdown | Expect::ADispatched(..) | Expect::ADropped(_)
                            | Expect::ALoop | Expect::AShutdownSent => self.a_tid,
                            Expect::WLoop(w) | Expect::WMsgConn(w, _) | Expect::WMsgShutdown(w)
                            | Expect::WDrained(w, _) => self.w_tid.get(*w as usize).copied().flatten(),
                            _ => None,
                        }?;
                        (!std::path::Path::new(&format!("/proc/self/task/{tid}")).exists()).then_some(*e)
                    });
                    if let Some(e) = dead {
                        self.diverge(format!("the server thread expected to reach {e:?} has exited (panic?)"));
                        return;
                    }
                    continue;
                }
                None => {
                    let acceptor_side = want.iter().any(|e| matches!(e, Expect::AMsgShutdown | Expect::AShutdownSent | Expect::ALoop | Expect::ADropped(_) | Expect::ADispatched(..)));
                    if acceptor_side && self.a_rel.is_none() && self.unresponsive_ms == 0.0 {
                        // the acceptor is not held by the harness, yet it never arrived
                        self.unresponsive_since_call = self.called_at.is_some();
                        self.unresponsive_ms = WATCHDOG.as_millis() as f64;
                        self.unresponsive_for = format!("{want:?}");
                    }
                    self.diverge(format!("stall: still waiting for {want:?}"));
                    return;
                }
            };
            let is_handle = matches!(ev, Ev::HandleResolved(..) | Ev::CallPolled(..));
            match self.absorb(ev) {
                Some(x) => match want.iter().position(|w| *w == x) {
                    Some(p) => {
                        want.swap_remove(p);
                    }
                    None => {
                        self.diverge(format!("unexpected {x:?} while waiting for {want:?}"));
                        return;
                    }
                },
                None => {
                    if !is_handle && self.diverged.is_some() {
                        return;
                    }
                }
            }
        }
    }

    fn connect(&mut self, i: u8, after_call: bool) -> bool {
        match TcpStream::connect(self.addr) {
            Ok(s) => {
                let _ = s.set_nodelay(true);
                let port = s.local_addr().map(|a| a.port()).unwrap_or(0);
                self.port2client.insert(port, i);
                let rd = s.try_clone().expect("try_clone");
                spawn_reader(rd, i, self.epoch, self.h.tx.clone());
                self.clients[i as usize] = Some(ClientRt {
                    stream: s,
                    after_call,
                    closed: false,
                    partial: false,
                    reqs: vec![],
                    amsg_seen: false,
                    dropped: false,
                    dispatched: false,
                    started: false,
                });
                true
            }
            Err(e) => {
                self.diverge(format!("connect c{i} failed: {e}"));
                false
            }
        }
    }

    fn send(&mut self, i: u8, late: bool) {
        let never = self.cfg.mode == Mode::Short && i == 0;
        let Some(c) = self.clients[i as usize].as_mut() else {
            return;
        };
        let k = c.reqs.len() as u8;
        let req = format!("GET /c{i}/r{k} HTTP/1.1\r\nhost: verif\r\n\r\n");
        let ok = c.stream.write_all(req.as_bytes()).is_ok();
        c.reqs.push(ReqFact {
            client: i,
            k,
            sent_before_call: ok && !late,
            class: if late { "late_connect".into() } else { String::new() },
            never_opens: never && k == 0,
            ..Default::default()
        });
        if !ok {
            self.diverge(format!("write of request c{i} r{k} failed"));
        }
    }

    fn call_shutdown(&mut self) {
        // classify outstanding requests from what has been observed so far
        for c in self.clients.iter_mut().flatten() {
            let served_before = c.reqs.iter().any(|r| r.answered);
            for r in c.reqs.iter_mut() {
                r.class = if r.answered {
                    "done"
                } else if r.entered {
                    "mid_handler"
                } else if c.started && served_before {
                    "keepalive_unparsed"
                } else if c.started {
                    "started_unparsed"
                } else if c.dropped {
                    "dropped"
                } else if c.dispatched {
                    "queued"
                } else if c.amsg_seen {
                    "at_acceptor"
                } else {
                    "backlog"
                }
                .to_string();
            }
        }
        let mode = match self.cfg.mode {
            Mode::Generous => ShutdownMode::Graceful {
                timeout: Duration::from_millis(GENEROUS_MS),
            },
            Mode::Short => ShutdownMode::Graceful {
                timeout: Duration::from_millis(SHORT_MS),
            },
            Mode::Forced => ShutdownMode::Forced,
            Mode::Unbounded => ShutdownMode::Graceful {
                timeout: Duration::MAX,
            },
            Mode::Huge => ShutdownMode::Graceful {
                timeout: Duration::from_secs(u64::MAX / 4),
            },
        };
        let tx = self.h.tx.clone();
        let epoch = self.epoch;
        self.call_started = Some(Instant::now());
        let fut = self.handle.clone().shutdown(mode);
        self.h.rt.spawn(async move {
            let mut fut = Box::pin(fut);
            let first = poll_fn(|cx| Poll::Ready(fut.as_mut().poll(cx))).await;
            let _ = tx.send(Ev::CallPolled(epoch));
            if first.is_pending() {
                fut.await;
            }
            let _ = tx.send(Ev::Resolved(epoch, Instant::now()));
        });
        let tx = self.h.tx.clone();
        let waiter = self.handle.clone().into_future();
        self.h.rt.spawn(async move {
            waiter.await;
            let _ = tx.send(Ev::HandleResolved(epoch, Instant::now()));
        });
        // wait until the command is in the acceptor's inbox
        let deadline = Instant::now() + WATCHDOG;
        loop {
            match self.h.rx.recv_timeout(deadline.saturating_duration_since(Instant::now())) {
                Ok(Ev::CallPolled(e)) if e == epoch => break,
                Ok(ev) => self.pending.push_back(ev),
                Err(_) => {
                    self.diverge("stall: shutdown future was never polled".into());
                    break;
                }
            }
        }
        self.called_at = Some(Instant::now());
    }

    fn release_acceptor(&mut self) -> bool {
        let Some(rel) = self.a_rel.take() else {
            return false;
        };
        if self.a_point == Some(Point::AShutdownSent) {
            self.t0 = Some(Instant::now());
        }
        rel.release();
        true
    }

    fn release_worker(&mut self, w: usize) -> bool {
        let Some(rel) = self.w_rel.get_mut(w).and_then(|r| r.take()) else {
            return false;
        };
        match self.w_point[w] {
            Some(Point::WMsg(_, MsgKind::Conn(peer))) => {
                if let Some(i) = self.client_of(&peer)
                    && let Some(c) = self.clients[i as usize].as_mut()
                {
                    c.started = true;
                }
            }
            Some(Point::WMsg(_, MsgKind::Shutdown)) if self.cfg.mode == Mode::Forced => {
                self.w_final[w] = true;
            }
            Some(Point::WDrained(..)) => self.w_final[w] = true,
            _ => {}
        }
        rel.release();
        true
    }

    fn open_gate(&mut self, i: u8) -> bool {
        let Some(c) = self.clients[i as usize].as_mut() else {
            return false;
        };
        let Some(r) = c
            .reqs
            .iter_mut()
            .find(|r| r.entered && !r.gate_opened && !r.never_opens)
        else {
            return false;
        };
        r.gate_opened = true;
        self.app.0.gates[i as usize][r.k as usize].notify_one();
        true
    }

    fn perform(&mut self, a: Action) {
        self.trace.push(format!("do {a:?}"));
        let ok = match a {
            Action::Connect(i) => self.connect(i, false),
            Action::Send(i) => {
                self.send(i, false);
                true
            }
            Action::Open(i) => self.open_gate(i),
            Action::Call { late } => {
                self.call_shutdown();
                if late {
                    match self.clients.iter().position(|c| c.is_none()) {
                        Some(i) => {
                            if self.connect(i as u8, true) {
                                self.send(i as u8, true);
                            }
                        }
                        None => self.diverge("late connect without a free client".into()),
                    }
                }
                true
            }
            Action::RelA => self.release_acceptor(),
            Action::RelW(w) => self.release_worker(w as usize),
        };
        if !ok {
            self.diverge(format!("{a:?} could not be performed on the real system"));
        }
        self.last_action = Instant::now();
    }

    fn class_name(c: crate::model::Class) -> &'static str {
        use crate::model::Class::*;
        match c {
            Backlog => "backlog",
            AtAcceptor => "at_acceptor",
            Queued => "queued",
            StartedUnparsed => "started_unparsed",
            KeepAliveUnparsed => "keepalive_unparsed",
            MidHandler => "mid_handler",
            LateConnect => "late_connect",
            Dropped => "dropped",
        }
    }

    /// Wait until the thread sits in `epoll_wait` (it has polled everything it could).
    fn wait_parked(&mut self, tid: Option<u32>) {
        let deadline = Instant::now() + WATCHDOG;
        let Some(tid) = tid else {
            self.pub_parked_fallbacks += 1;
            std::thread::sleep(Duration::from_millis(3));
            return;
        };
        loop {
            match in_epoll_wait(tid) {
                Some(true) => return,
                None => return, // thread gone
                Some(false) => {}
            }
            if Instant::now() > deadline {
                self.diverge(format!("stall: thread {tid} never parked"));
                return;
            }
            std::thread::sleep(Duration::from_micros(20));
        }
    }

    fn go(mut self, schedule: &[Action], stale: &[u32]) -> Outcome {
        let mut boot = vec![Expect::ALoop];
        boot.extend((0..self.cfg.workers).map(Expect::WLoop));
        self.wait_for(boot);
        for (tid, name) in pavex_threads() {
            if stale.contains(&tid) {
                continue;
            }
            if name == "pavex-acceptor" {
                self.a_tid = Some(tid);
            } else if let Some(w) = name.strip_prefix("pavex-worker-").and_then(|n| n.parse::<usize>().ok())
                && w < self.w_tid.len()
            {
                self.w_tid[w] = Some(tid);
            }
        }
        let mut st = State::init(self.cfg);
        for &a in schedule {
            if self.diverged.is_some() {
                break;
            }
            if !st.enabled().contains(&a) {
                self.diverge(format!("{a:?} is not enabled in the model state"));
                break;
            }
            let (ns, ex) = st.step(a);
            // A request sent while the acceptor sits in its IO driver is announced asynchronously:
            // wait until the acceptor thread has woken up and gone back to sleep once.
            let mut announce_wait: Option<(u32, u64)> = None;
            if let Action::Send(i) = a
                && matches!(st.a, crate::model::APos::Parked | crate::model::APos::Waiting)
                && matches!(
                    st.c[i as usize].loc,
                    crate::model::Loc::AtAcceptor | crate::model::Loc::Queued(_) | crate::model::Loc::Started(_)
                )
                && let Some(tid) = self.a_tid
                && let Some(n) = voluntary_switches(tid)
            {
                announce_wait = Some((tid, n));
            }
            if let Action::RelW(w) = a
                && st.w[w as usize] == crate::model::WPos::Drained
            {
                for (i, mc) in st.c.iter().enumerate() {
                    if mc.loc == crate::model::Loc::Started(w)
                        && let Some(c) = self.clients[i].as_mut()
                    {
                        for r in c.reqs.iter_mut() {
                            r.bytes_announced = Some(mc.delivered > r.k);
                        }
                    }
                }
            }
            self.perform(a);
            if let Some((tid, n0)) = announce_wait {
                let deadline = Instant::now() + WATCHDOG;
                loop {
                    match (voluntary_switches(tid), in_epoll_wait(tid)) {
                        (Some(n), Some(true)) if n > n0 => break,
                        (None, _) | (_, None) => break,
                        _ => {}
                    }
                    if Instant::now() > deadline {
                        self.diverge("stall: the acceptor never woke up for the request bytes".into());
                        break;
                    }
                    std::thread::sleep(Duration::from_micros(20));
                }
            }
            if self.diverged.is_some() {
                break;
            }
            self.wait_for(ex);
            {
                use crate::model::{APos, WPos};
                if ns.a != st.a && matches!(ns.a, APos::Parked | APos::Waiting) {
                    let t = self.a_tid;
                    self.wait_parked(t);
                }
                for w in 0..ns.w.len() {
                    if ns.w[w] != st.w[w] && matches!(ns.w[w], WPos::Parked | WPos::Wait) {
                        let t = self.w_tid[w];
                        self.wait_parked(t);
                    }
                }
            }
            st = ns;
            if matches!(a, Action::Call { .. }) {
                for (i, mc) in st.c.iter().enumerate() {
                    let obs = self.clients[i]
                        .as_ref()
                        .and_then(|c| c.reqs.iter().find(|r| !r.answered))
                        .map(|r| r.class.clone());
                    let want = mc.class.map(|c| Self::class_name(c).to_string());
                    if obs != want && self.diverged.is_none() {
                        self.diverge(format!("class of c{i}: model {want:?}, observed {obs:?}"));
                    }
                }
            }
        }
        // The short timeout must only fire after the scheduled part: every timer starts after
        // the call, so the scheduled part has to end within half the timeout of the call.
        let timing_unsafe = match (self.cfg.mode, self.call_started) {
            (Mode::Short, Some(c)) => c.elapsed() > Duration::from_millis(SHORT_MS / 2),
            _ => false,
        };
        self.terminal(&st);
        let probe = self.probe();
        self.outcome(probe, timing_unsafe)
    }

    /// After the last scheduled action: wait for the shutdown to finish. If the execution has
    /// diverged from the model, drive everything to completion first (release every thread, open
    /// every gate that may open, call `shutdown` if it has not been called).
    fn terminal(&mut self, st: &State) {
        let deadline = Instant::now() + Duration::from_millis(GENEROUS_MS + 3000);
        loop {
            let closed = self.clients.iter().flatten().all(|c| c.closed);
            if self.diverged.is_some() {
                // a worker thread that is gone (exited or panicked) will not pass any checkpoint
                for w in 0..self.w_final.len() {
                    if !self.w_final[w]
                        && let Some(tid) = self.w_tid[w]
                        && !std::path::Path::new(&format!("/proc/self/task/{tid}")).exists()
                    {
                        self.w_final[w] = true;
                    }
                }
            }
            if self.called_at.is_some()
                && self.resolved_at.is_some()
                && self.handle_resolved_at.is_some()
                && closed
                && self.w_final.iter().all(|f| *f)
            {
                break;
            }
            if Instant::now() > deadline {
                self.diverge("stall: the server did not finish shutting down".into());
                break;
            }
            if self.diverged.is_some() {
                if self.called_at.is_none() {
                    self.call_shutdown();
                    self.last_action = Instant::now();
                }
                if self.release_acceptor() {
                    self.last_action = Instant::now();
                }
                for w in 0..self.w_rel.len() {
                    if self.release_worker(w) {
                        self.last_action = Instant::now();
                    }
                }
                for i in 0..self.clients.len() {
                    while self.open_gate(i as u8) {
                        self.last_action = Instant::now();
                    }
                }
            }
            let Some(ev) = self.next_ev(Instant::now() + Duration::from_millis(20)) else {
                continue;
            };
            let is_cp = matches!(ev, Ev::Cp(..));
            let x = self.absorb(ev);
            if self.diverged.is_none() {
                let fine = match x {
                    None => !is_cp,
                    Some(Expect::Resolved) => !st.resolved,
                    Some(Expect::Closed(i)) => st.c[i as usize].loc != crate::model::Loc::Gone,
                    Some(_) => false,
                };
                if !fine {
                    self.diverge(format!("unexpected {x:?} after the last scheduled action"));
                }
            }
        }
    }

    fn probe(&mut self) -> String {
        if self.resolved_at.is_none() {
            return "skipped".into();
        }
        match TcpStream::connect(self.addr) {
            Err(_) => "refused".into(),
            Ok(mut s) => {
                let _ = s.set_read_timeout(Some(Duration::from_millis(150)));
                let _ = s.write_all(b"GET /probe HTTP/1.1\r\nhost: verif\r\n\r\n");
                let mut buf = [0u8; 256];
                let mut got = Vec::new();
                loop {
                    match s.read(&mut buf) {
                        Ok(0) | Err(_) => break,
                        Ok(n) => {
                            got.extend_from_slice(&buf[..n]);
                            if got.len() >= 12 {
                                break;
                            }
                        }
                    }
                }
                if got.starts_with(b"HTTP/1.1") {
                    "served".into()
                } else {
                    "not_served".into()
                }
            }
        }
    }

    fn outcome(self, probe: String, timing_unsafe: bool) -> Outcome {
        let ms = |a: Instant, b: Instant| a.saturating_duration_since(b).as_secs_f64() * 1000.0;
        let mut reqs = Vec::new();
        let mut all_closed = true;
        for c in self.clients.iter().flatten() {
            all_closed &= c.closed;
            for r in &c.reqs {
                let mut r = r.clone();
                if !r.answered && c.partial {
                    r.partial = true;
                }
                reqs.push(r);
            }
        }
        let (after_t0, after_idle) = match (self.resolved_at, self.t0) {
            (Some(r), Some(t0)) => {
                let idle = self.idle_ref.unwrap_or(t0).max(t0);
                (ms(r, t0), ms(r, idle))
            }
            _ => (-1.0, -1.0),
        };
        Outcome {
            reqs,
            accepted_after_call: self.accepted_after_call,
            called: self.called_at.is_some(),
            resolved: self.resolved_at.is_some(),
            resolve_ms_after_t0: after_t0,
            resolve_ms_after_call: match (self.resolved_at, self.call_started) {
                (Some(r), Some(c)) => ms(r, c),
                _ => -1.0,
            },
            resolve_ms_after_idle: after_idle,
            blocked_handler_at_resolve: self.blocked_at_resolve,
            handle_resolved: self.handle_resolved_at.is_some(),
            handle_ms_after_resolve: match (self.handle_resolved_at, self.resolved_at) {
                (Some(h), Some(r)) => ms(h, r),
                _ => -1.0,
            },
            probe,
            all_closed,
            diverged: self.diverged,
            timing_unsafe,
            events: self.events,
            max_sched_gap_ms: self.h.sched_gap_us.load(std::sync::atomic::Ordering::Relaxed) as f64 / 1000.0,
            parked_fallbacks: self.pub_parked_fallbacks,
            trace: self.trace,
            acceptor_unresponsive_after_call_ms: if self.unresponsive_since_call { self.unresponsive_ms } else { 0.0 },
            acceptor_unresponsive_waiting_for: self.unresponsive_for,
        }
    }
}
