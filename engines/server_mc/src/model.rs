//! Shadow model of the acceptor / worker / client system (DESIGN.md Appendix C).
//!
//! The model mirrors the *implementation* (including hyper-util's behaviour on graceful
//! shutdown); it is used to enumerate schedules and to know which events to wait for.
//! It is NOT the oracle: the oracle (`oracle.rs`) only looks at facts observed on the real server.
use serde::{Deserialize, Serialize};

/// Implementation variant, calibrated by one probe execution at start-up (see `main.rs`):
/// does the worker let its connection tasks run once (`yield_now`) between the drain loop and
/// hyper-util's shutdown signal? `false` on the tree this engine was written against.
pub static POLLS_BEFORE_SIGNAL: std::sync::atomic::AtomicBool = std::sync::atomic::AtomicBool::new(false);

#[derive(Clone, Copy, PartialEq, Eq, Hash, Debug, Serialize, Deserialize, PartialOrd, Ord)]
pub enum Mode {
    /// Graceful with a timeout far beyond the length of an execution; every gate gets opened.
    Generous,
    /// Graceful with a short timeout; the gate of client 0's first request is never opened.
    Short,
    Forced,
    /// Graceful with `Duration::MAX`: an effectively unbounded timeout; every gate gets opened.
    /// Same expected behaviour as `Generous` (the timeout arithmetic must not overflow).
    Unbounded,
    /// Graceful with `Duration::from_secs(u64::MAX / 4)`; every gate gets opened.
    Huge,
}

#[derive(Clone, Copy, PartialEq, Eq, Hash, Debug, Serialize, Deserialize, PartialOrd, Ord)]
pub struct Cfg {
    pub workers: u8,
    pub clients: u8,
    /// max requests per connection (2 = a second request on a keep-alive connection)
    pub max_req: u8,
    pub mode: Mode,
    /// BULK configuration (many interchangeable connections, to reach the capacity of the worker queues): the clients
    /// act in index order (symmetry reduction), handlers never wait (gates open by themselves), and the exploration is
    /// phased: first every client connects and sends, then the acceptor dispatches all of them while the workers are
    /// held at their first checkpoint, then `shutdown` is called; after that the releases of the acceptor and of the
    /// workers interleave freely.
    #[serde(default)]
    pub bulk: bool,
}

/// Capacity of a worker's connection queue (`max_queue_length` of `pavex::server`, 15 on the pinned tree). Not part of the
/// property: the engine MEASURES it on the implementation (engine::calibrate_cap) and the shadow model mirrors the measured value.
pub static QUEUE_CAP: std::sync::atomic::AtomicUsize = std::sync::atomic::AtomicUsize::new(15);

#[derive(Clone, Copy, PartialEq, Eq, Hash, Debug, Serialize, Deserialize, PartialOrd, Ord)]
pub enum Action {
    Connect(u8),
    Send(u8),
    Open(u8),
    /// call `shutdown(mode)`; with `late`, the next unconnected client connects and sends a
    /// request right after the call
    Call { late: bool },
    RelA,
    RelW(u8),
}

#[derive(Clone, Copy, PartialEq, Eq, Hash, Debug, Serialize, Deserialize)]
pub enum APos {
    Loop,
    Parked,
    MsgConn(u8),
    MsgShutdown,
    ShutdownSent,
    Waiting,
    Done,
}

#[derive(Clone, Copy, PartialEq, Eq, Hash, Debug, Serialize, Deserialize)]
pub enum WPos {
    Loop,
    Parked,
    MsgConn(u8),
    MsgShutdown,
    Drained,
    Wait,
    Done,
}

#[derive(Clone, Copy, PartialEq, Eq, Hash, Debug, Serialize, Deserialize)]
pub enum Loc {
    NotConnected,
    Backlog,
    AtAcceptor,
    Queued(u8),
    Started(u8),
    Gone,
}

#[derive(Clone, Copy, PartialEq, Eq, Hash, Debug, Serialize, Deserialize, PartialOrd, Ord)]
pub enum Class {
    /// connected, request sent, still in the listen backlog when `shutdown` was called
    Backlog,
    /// picked by the acceptor but not yet handed to a worker
    AtAcceptor,
    /// in a worker's queue
    Queued,
    /// started on a worker (hyper connection task spawned), first request bytes not yet parsed
    StartedUnparsed,
    /// keep-alive connection that already served a request; next request bytes not yet parsed
    KeepAliveUnparsed,
    /// handler entered
    MidHandler,
    /// sent after the call on a connection made after the call
    LateConnect,
    /// the acceptor dropped the connection before the call (every worker queue was full)
    Dropped,
}

#[derive(Clone, Copy, PartialEq, Eq, Hash, Debug, Serialize, Deserialize)]
pub struct Client {
    pub loc: Loc,
    pub sent: u8,
    /// number of requests whose bytes the acceptor's IO driver has announced to the connection
    /// (every accepted `TcpStream` is registered with the *acceptor's* tokio runtime: while the
    /// acceptor thread is blocked at a checkpoint nobody delivers read-readiness to the workers)
    pub delivered: u8,
    pub entered: u8,
    pub opened: u8,
    pub responded: u8,
    /// class of the outstanding request when `shutdown` was called
    pub class: Option<Class>,
}

#[derive(Clone, PartialEq, Eq, Hash, Debug, Serialize, Deserialize)]
pub struct State {
    pub cfg: Cfg,
    pub a: APos,
    pub w: Vec<WPos>,
    /// shutdown command queued at the worker, not yet taken
    pub wsd: Vec<bool>,
    pub queue: Vec<Vec<u8>>,
    pub backlog: Vec<u8>,
    pub c: Vec<Client>,
    pub called: bool,
    pub cmd_pending: bool,
    pub resolved: bool,
    /// the acceptor's `next_worker` cursor (advances only when a queue is full)
    pub next_w: u8,
}

/// What the executor has to wait for after performing an action on the real system.
#[derive(Clone, Copy, PartialEq, Eq, Hash, Debug, Serialize, Deserialize)]
pub enum Expect {
    AMsgConn(u8),
    AMsgShutdown,
    /// `A_DISPATCHED(conn, worker)` (released automatically by the executor)
    ADispatched(u8, u8),
    ALoop,
    AShutdownSent,
    WLoop(u8),
    WMsgConn(u8, u8),
    WMsgShutdown(u8),
    WDrained(u8, u8),
    /// every worker queue was full: the acceptor dropped the connection
    ADropped(u8),
    Entered(u8),
    Response(u8),
    Closed(u8),
    Resolved,
}

impl State {
    pub fn init(cfg: Cfg) -> State {
        let nw = cfg.workers as usize;
        State {
            cfg,
            a: APos::Loop,
            w: vec![WPos::Loop; nw],
            wsd: vec![false; nw],
            queue: vec![Vec::new(); nw],
            backlog: Vec::new(),
            c: vec![
                Client {
                    loc: Loc::NotConnected,
                    sent: 0,
                    delivered: 0,
                    entered: 0,
                    opened: 0,
                    responded: 0,
                    class: None,
                };
                cfg.clients as usize
            ],
            called: false,
            cmd_pending: false,
            resolved: false,
            next_w: 0,
        }
    }

    fn never_opens(&self, i: u8) -> bool {
        self.cfg.mode == Mode::Short && i == 0 && self.c[0].opened == 0
    }

    fn next_unconnected(&self) -> Option<u8> {
        self.c
            .iter()
            .position(|c| c.loc == Loc::NotConnected)
            .map(|i| i as u8)
    }

    /// BULK discipline (see `Cfg::bulk`).
    fn enabled_bulk(&self) -> Vec<Action> {
        let mut v = Vec::new();
        if !self.called {
            // phase 1: clients connect and send, in index order, one at a time
            if let Some(i) = self.c.iter().position(|c| !matches!(c.loc, Loc::NotConnected | Loc::Gone) && c.sent == 0) {
                return vec![Action::Send(i as u8)];
            }
            if let Some(i) = self.next_unconnected() {
                return vec![Action::Connect(i)];
            }
            // phase 2: the acceptor dispatches everything while the workers are held; the call may also arrive while the
            // acceptor holds the LAST connection (picked, not yet dispatched)
            if matches!(self.a, APos::MsgConn(_)) && self.backlog.is_empty() {
                return vec![Action::RelA, Action::Call { late: false }];
            }
            if matches!(self.a, APos::Loop | APos::MsgConn(_)) {
                return vec![Action::RelA];
            }
            // phase 3: the call
            return vec![Action::Call { late: false }];
        }
        // phase 4: free interleaving of the releases
        if matches!(self.a, APos::Loop | APos::MsgConn(_) | APos::MsgShutdown | APos::ShutdownSent) {
            v.push(Action::RelA);
        }
        for (w, p) in self.w.iter().enumerate() {
            if matches!(p, WPos::Loop | WPos::MsgConn(_) | WPos::MsgShutdown | WPos::Drained) {
                v.push(Action::RelW(w as u8));
            }
        }
        v
    }

    pub fn enabled(&self) -> Vec<Action> {
        if self.cfg.bulk {
            return self.enabled_bulk();
        }
        let mut v = Vec::new();
        if matches!(
            self.a,
            APos::Loop | APos::MsgConn(_) | APos::MsgShutdown | APos::ShutdownSent
        ) {
            v.push(Action::RelA);
        }
        for (w, p) in self.w.iter().enumerate() {
            if matches!(
                p,
                WPos::Loop | WPos::MsgConn(_) | WPos::MsgShutdown | WPos::Drained
            ) {
                v.push(Action::RelW(w as u8));
            }
        }
        for (i, c) in self.c.iter().enumerate() {
            let i = i as u8;
            if c.entered > c.opened && !self.never_opens(i) {
                v.push(Action::Open(i));
            }
            if !self.called
                && !matches!(c.loc, Loc::NotConnected | Loc::Gone)
                && c.sent == c.responded
                && c.sent < self.cfg.max_req
            {
                v.push(Action::Send(i));
            }
        }
        if !self.called {
            if let Some(i) = self.next_unconnected() {
                v.push(Action::Connect(i));
            }
            v.push(Action::Call { late: false });
            if self.next_unconnected().is_some() {
                v.push(Action::Call { late: true });
            }
        }
        v
    }

    fn running(&self, w: u8) -> bool {
        matches!(self.w[w as usize], WPos::Parked | WPos::Wait)
    }

    /// The acceptor's IO driver runs once: read-readiness reaches every accepted connection.
    fn io_turn(&mut self) {
        for c in self.c.iter_mut() {
            if matches!(c.loc, Loc::AtAcceptor | Loc::Queued(_) | Loc::Started(_)) {
                c.delivered = c.sent;
            }
        }
    }

    /// Let the hyper tasks of every running worker make all the progress they can.
    fn progress(&mut self, ex: &mut Vec<Expect>) {
        if matches!(self.a, APos::Parked | APos::Waiting) {
            self.io_turn();
        }
        loop {
            let mut changed = false;
            for i in 0..self.c.len() {
                let Loc::Started(w) = self.c[i].loc else {
                    continue;
                };
                if !self.running(w) {
                    continue;
                }
                let waiting = self.w[w as usize] == WPos::Wait;
                let c = &mut self.c[i];
                if c.delivered > c.entered {
                    c.entered += 1;
                    ex.push(Expect::Entered(i as u8));
                    if self.cfg.bulk {
                        c.opened = c.entered; // handlers never wait in bulk configurations
                    }
                    changed = true;
                }
                if c.entered > c.responded && c.opened > c.responded {
                    c.responded += 1;
                    ex.push(Expect::Response(i as u8));
                    changed = true;
                    if waiting {
                        c.loc = Loc::Gone;
                        ex.push(Expect::Closed(i as u8));
                    }
                }
            }
            // A worker in its graceful wait is done once it has no live connection.
            for w in 0..self.w.len() {
                if self.w[w] == WPos::Wait
                    && !self.c.iter().any(|c| c.loc == Loc::Started(w as u8))
                {
                    self.w[w] = WPos::Done;
                    changed = true;
                }
            }
            if self.a == APos::Waiting && self.w.iter().all(|p| *p == WPos::Done) {
                self.a = APos::Done;
                self.resolved = true;
                ex.push(Expect::Resolved);
                changed = true;
            }
            if !changed {
                break;
            }
        }
    }

    /// Predicted successor and the observations the real system must produce.
    pub fn step(&self, act: Action) -> (State, Vec<Expect>) {
        let mut s = self.clone();
        let mut ex = Vec::new();
        match act {
            Action::Connect(i) => {
                if s.a == APos::Parked {
                    s.c[i as usize].loc = Loc::AtAcceptor;
                    s.a = APos::MsgConn(i);
                    s.io_turn();
                    ex.push(Expect::AMsgConn(i));
                } else {
                    s.c[i as usize].loc = Loc::Backlog;
                    s.backlog.push(i);
                }
            }
            Action::Send(i) => {
                s.c[i as usize].sent += 1;
            }
            Action::Open(i) => {
                s.c[i as usize].opened += 1;
            }
            Action::Call { late } => {
                s.called = true;
                s.cmd_pending = true;
                for c in s.c.iter_mut() {
                    if c.sent > c.responded {
                        c.class = Some(match c.loc {
                            Loc::Backlog => Class::Backlog,
                            Loc::AtAcceptor => Class::AtAcceptor,
                            Loc::Queued(_) => Class::Queued,
                            Loc::Started(_) if c.entered > c.responded => Class::MidHandler,
                            Loc::Started(_) if c.responded > 0 => Class::KeepAliveUnparsed,
                            Loc::Started(_) => Class::StartedUnparsed,
                            Loc::Gone => Class::Dropped,
                            Loc::NotConnected => unreachable!(),
                        });
                    }
                }
                if s.a == APos::Parked {
                    s.cmd_pending = false;
                    s.a = APos::MsgShutdown;
                    ex.push(Expect::AMsgShutdown);
                }
                if late {
                    let i = s.next_unconnected().expect("late connect needs a free client");
                    let c = &mut s.c[i as usize];
                    c.loc = Loc::Backlog;
                    c.sent = 1;
                    c.class = Some(Class::LateConnect);
                    s.backlog.push(i);
                }
            }
            Action::RelA => match s.a {
                APos::Loop => {
                    if s.cmd_pending {
                        s.cmd_pending = false;
                        s.a = APos::MsgShutdown;
                        ex.push(Expect::AMsgShutdown);
                    } else if !s.backlog.is_empty() {
                        let i = s.backlog.remove(0);
                        s.c[i as usize].loc = Loc::AtAcceptor;
                        s.a = APos::MsgConn(i);
                        // the runtime turns its IO driver after the accept task completed
                        s.io_turn();
                        ex.push(Expect::AMsgConn(i));
                    } else {
                        s.a = APos::Parked;
                    }
                }
                APos::MsgConn(i) => {
                    // `next_worker` only advances when a queue is full (QUEUE_CAP messages not yet taken by the worker)
                    let n = s.w.len();
                    let mut target: Option<u8> = None;
                    for _ in 0..n {
                        let w = s.next_w;
                        if s.w[w as usize] == WPos::Parked || s.queue[w as usize].len() < QUEUE_CAP.load(std::sync::atomic::Ordering::Relaxed) {
                            target = Some(w);
                            break;
                        }
                        s.next_w = (w + 1) % n as u8;
                    }
                    s.a = APos::Loop;
                    match target {
                        Some(w) => {
                            ex.push(Expect::ADispatched(i, w));
                            ex.push(Expect::ALoop);
                            if s.w[w as usize] == WPos::Parked {
                                s.c[i as usize].loc = Loc::Queued(w);
                                s.w[w as usize] = WPos::MsgConn(i);
                                ex.push(Expect::WMsgConn(w, i));
                            } else {
                                s.c[i as usize].loc = Loc::Queued(w);
                                s.queue[w as usize].push(i);
                            }
                        }
                        None => {
                            // all queues full: the connection is dropped (and closed)
                            ex.push(Expect::ADropped(i));
                            ex.push(Expect::ALoop);
                            ex.push(Expect::Closed(i));
                            s.c[i as usize].loc = Loc::Gone;
                        }
                    }
                }
                APos::MsgShutdown => {
                    s.a = APos::ShutdownSent;
                    ex.push(Expect::AShutdownSent);
                    for w in 0..s.w.len() {
                        if s.w[w] == WPos::Parked {
                            s.w[w] = WPos::MsgShutdown;
                            ex.push(Expect::WMsgShutdown(w as u8));
                        } else {
                            s.wsd[w] = true;
                        }
                    }
                }
                APos::ShutdownSent => {
                    // The acceptor yields to its runtime (graceful) or exits (forced): the
                    // listener is closed, connections still in the backlog are reset.
                    for i in std::mem::take(&mut s.backlog) {
                        s.c[i as usize].loc = Loc::Gone;
                        ex.push(Expect::Closed(i));
                    }
                    if s.cfg.mode == Mode::Forced {
                        s.a = APos::Done;
                        s.resolved = true;
                        ex.push(Expect::Resolved);
                    } else {
                        s.a = APos::Waiting;
                    }
                }
                _ => panic!("RelA not enabled in {:?}", s.a),
            },
            Action::RelW(w) => {
                let wi = w as usize;
                match s.w[wi] {
                    WPos::Loop => {
                        if s.wsd[wi] {
                            s.wsd[wi] = false;
                            s.w[wi] = WPos::MsgShutdown;
                            ex.push(Expect::WMsgShutdown(w));
                        } else if !s.queue[wi].is_empty() {
                            let i = s.queue[wi].remove(0);
                            s.w[wi] = WPos::MsgConn(i);
                            ex.push(Expect::WMsgConn(w, i));
                        } else {
                            s.w[wi] = WPos::Parked;
                        }
                    }
                    WPos::MsgConn(i) => {
                        s.c[i as usize].loc = Loc::Started(w);
                        s.w[wi] = WPos::Loop;
                        ex.push(Expect::WLoop(w));
                    }
                    WPos::MsgShutdown => {
                        if s.cfg.mode == Mode::Forced {
                            s.w[wi] = WPos::Done;
                            for (i, c) in s.c.iter_mut().enumerate() {
                                if c.loc == Loc::Started(w) || c.loc == Loc::Queued(w) {
                                    c.loc = Loc::Gone;
                                    ex.push(Expect::Closed(i as u8));
                                }
                            }
                            s.queue[wi].clear();
                        } else {
                            let q = std::mem::take(&mut s.queue[wi]);
                            ex.push(Expect::WDrained(w, q.len() as u8));
                            for i in q {
                                s.c[i as usize].loc = Loc::Started(w);
                            }
                            s.w[wi] = WPos::Drained;
                        }
                    }
                    WPos::Drained => {
                        // hyper-util signals every watched connection: connections that are not
                        // in the middle of a request (nothing parsed yet, or keep-alive idle)
                        // are closed, unread bytes included.
                        s.w[wi] = WPos::Wait;
                        if POLLS_BEFORE_SIGNAL.load(std::sync::atomic::Ordering::Relaxed) {
                            let bulk = s.cfg.bulk;
                            for (i, c) in s.c.iter_mut().enumerate() {
                                if c.loc == Loc::Started(w) && c.delivered > c.entered {
                                    c.entered += 1;
                                    if bulk {
                                        c.opened = c.entered; // handlers never wait in bulk configurations
                                    }
                                    ex.push(Expect::Entered(i as u8));
                                }
                            }
                        }
                        for (i, c) in s.c.iter_mut().enumerate() {
                            if c.loc == Loc::Started(w) && c.entered == c.responded {
                                c.loc = Loc::Gone;
                                ex.push(Expect::Closed(i as u8));
                            }
                        }
                    }
                    p => panic!("RelW not enabled in {p:?}"),
                }
            }
        }
        s.progress(&mut ex);
        (s, ex)
    }
}
