//! The oracle: what property C16 states, evaluated on facts observed on the real server only
//! (never on the shadow model's predictions).
use crate::exec::{GENEROUS_MS, Outcome, SHORT_MS, SLACK_MS};
use crate::model::{Cfg, Mode};

/// Classes of requests for which "had been received before the call" is taken to hold: the
/// request bytes were fully written AND the connection had been handed to a worker (or the
/// handler had been entered) before `shutdown()` was called.
pub const OWED: [&str; 4] = ["mid_handler", "started_unparsed", "keepalive_unparsed", "queued"];

/// Keys of the clauses that compare a real-time interval with an upper bound. Under CPU
/// starvation they can fire spuriously: they are only reported when they fire in every one of
/// several executions of the schedule, otherwise counted as `timing-inconclusive`.
pub const TIMING_KEYS: [&str; 4] = [
    "forced-not-prompt",
    "graceful-resolve-after-timeout",
    "graceful-resolve-late-after-idle",
    "handle-await-late",
];

pub fn is_timing_key(k: &str) -> bool {
    TIMING_KEYS.contains(&k)
}

pub fn judge(cfg: &Cfg, o: &Outcome) -> Vec<(String, String)> {
    let mut v: Vec<(String, String)> = Vec::new();
    // upper bounds get wider by what this process was observably starved during the execution
    let slack_ms = SLACK_MS as f64 + 4.0 * o.max_sched_gap_ms;
    if !o.called {
        return v;
    }
    let graceful = cfg.mode != Mode::Forced;
    let timeout_ms = match cfg.mode {
        Mode::Generous => GENEROUS_MS as f64,
        Mode::Short => SHORT_MS as f64,
        Mode::Forced => 0.0,
        // effectively unbounded: the shutdown may only end because every worker is idle
        Mode::Unbounded | Mode::Huge => f64::INFINITY,
    };
    // (1) every request received before the call is answered in full, provided its handler
    //     finishes within the timeout (i.e. its gate is one that opens)
    if graceful {
        for r in &o.reqs {
            if r.sent_before_call && !r.never_opens && !r.answered && OWED.contains(&r.class.as_str()) {
                v.push((
                    format!(
                        "lost-request:{}{}",
                        r.class,
                        match r.bytes_announced {
                            Some(true) => "",
                            Some(false) => ":bytes-not-yet-announced",
                            // only in executions that left the shadow model before the worker
                            // signalled its connections
                            None => ":in-unpredicted-execution",
                        }
                    ),
                    format!(
                        "graceful shutdown: request c{} r{} ({} when shutdown() was called, bytes fully sent before the call, announced to the connection by the IO driver before the worker signalled: {:?}, gate {}) got {}",
                        r.client,
                        r.k,
                        r.class,
                        r.bytes_announced,
                        if r.entered { if r.gate_opened { "opened" } else { "never reached" } } else { "never reached: handler not entered" },
                        if r.partial { "a truncated response" } else { "no response: connection closed" }
                    ),
                ));
            }
        }
    }
    // (2) no new connection is accepted after the call
    if !o.accepted_after_call.is_empty() {
        v.push((
            "accepted-after-shutdown-call".into(),
            format!("connection(s) {:?} made after shutdown() was called were accepted by the acceptor", o.accepted_after_call),
        ));
    }
    if o.probe == "served" {
        v.push((
            "served-after-shutdown-resolved".into(),
            "a connection made after the shutdown future resolved got an HTTP response".into(),
        ));
    }
    // (3) the shutdown future resolves once all workers are idle or at the timeout
    if !o.resolved {
        v.push((
            format!("shutdown-never-resolved:{:?}", cfg.mode),
            "the shutdown future did not resolve within timeout + 3 s".into(),
        ));
    } else if o.resolve_ms_after_t0 >= 0.0 {
        match cfg.mode {
            Mode::Forced => {
                if o.resolve_ms_after_t0 > slack_ms {
                    v.push((
                        "forced-not-prompt".into(),
                        format!("Forced shutdown resolved {:.0} ms after the worker commands were sent", o.resolve_ms_after_t0),
                    ));
                }
            }
            _ => {
                // every timer (the acceptor's, the workers') starts after the call
                if o.blocked_handler_at_resolve && o.resolve_ms_after_call < timeout_ms - 5.0 {
                    v.push((
                        "graceful-resolved-before-workers-idle".into(),
                        format!(
                            "graceful shutdown resolved {:.0} ms after shutdown() was called (timeout {timeout_ms} ms) while a handler was still blocked on a closed gate",
                            o.resolve_ms_after_call
                        ),
                    ));
                }
                let blocked_forever = o.reqs.iter().any(|r| r.never_opens && r.entered);
                if o.resolve_ms_after_t0 > timeout_ms + slack_ms {
                    v.push((
                        "graceful-resolve-after-timeout".into(),
                        format!("graceful shutdown resolved {:.0} ms after the commands were sent, timeout {timeout_ms} ms", o.resolve_ms_after_t0),
                    ));
                } else if !blocked_forever && !o.blocked_handler_at_resolve && o.resolve_ms_after_idle > slack_ms {
                    v.push((
                        "graceful-resolve-late-after-idle".into(),
                        format!("all handlers had finished, yet the shutdown future resolved only {:.0} ms later", o.resolve_ms_after_idle),
                    ));
                }
            }
        }
    }
    // (3b) the acceptor processes the shutdown command: with a finite timeout (or Forced) the future must resolve at the
    //      latest when the timeout expires, whatever the workers are doing; an acceptor that — not held at any checkpoint —
    //      has not even picked the command up after the watchdog (far beyond every finite timeout) cannot have done so
    if o.acceptor_unresponsive_after_call_ms > 0.0 && timeout_ms.is_finite() && o.acceptor_unresponsive_after_call_ms > timeout_ms + slack_ms {
        v.push((
            format!("acceptor-unresponsive-after-call:{:?}", cfg.mode),
            format!(
                "shutdown() had been called (timeout {timeout_ms} ms) and the acceptor, released from every checkpoint, did not reach {} within {:.0} ms: the command is not processed while the worker queues are full / the workers busy",
                o.acceptor_unresponsive_waiting_for, o.acceptor_unresponsive_after_call_ms
            ),
        ));
    }
    // (4) awaiting the handle resolves
    if o.resolved && !o.handle_resolved {
        v.push((
            "handle-await-unresolved".into(),
            "awaiting the ServerHandle had not resolved several seconds after the shutdown future".into(),
        ));
    } else if o.resolved && o.handle_ms_after_resolve > slack_ms {
        v.push((
            "handle-await-late".into(),
            format!("awaiting the ServerHandle resolved only {:.0} ms after the shutdown future", o.handle_ms_after_resolve),
        ));
    }
    v.sort();
    v.dedup_by(|a, b| a.0 == b.0);
    v
}
