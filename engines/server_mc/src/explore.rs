//! Exhaustive exploration of the shadow model and generation of a set of schedules that covers
//! every transition of the reachable model graph at least once.
use crate::model::{Action, Cfg, State};
use std::collections::{HashMap, HashSet, VecDeque};

pub struct Graph {
    pub states: Vec<State>,
    /// per state: (action, successor)
    pub edges: Vec<Vec<(Action, usize)>>,
    /// BFS tree: (predecessor, action)
    pub parent: Vec<Option<(usize, Action)>>,
    pub terminals: usize,
}

pub fn build(cfg: Cfg, seed: i64) -> Graph {
    let mut index: HashMap<State, usize> = HashMap::new();
    let mut g = Graph {
        states: vec![],
        edges: vec![],
        parent: vec![],
        terminals: 0,
    };
    let init = State::init(cfg);
    index.insert(init.clone(), 0);
    g.states.push(init);
    g.edges.push(vec![]);
    g.parent.push(None);
    let mut q = VecDeque::from([0usize]);
    while let Some(si) = q.pop_front() {
        let s = g.states[si].clone();
        let mut acts = s.enabled();
        verif_common::rotate_by_seed(&mut acts, seed);
        if acts.is_empty() {
            g.terminals += 1;
        }
        for a in acts {
            let (t, _) = s.step(a);
            let ti = match index.get(&t) {
                Some(&ti) => ti,
                None => {
                    let ti = g.states.len();
                    index.insert(t.clone(), ti);
                    g.states.push(t);
                    g.edges.push(vec![]);
                    g.parent.push(Some((si, a)));
                    q.push_back(ti);
                    ti
                }
            };
            g.edges[si].push((a, ti));
        }
    }
    g
}

impl Graph {
    pub fn transitions(&self) -> usize {
        self.edges.iter().map(|e| e.len()).sum()
    }

    fn path_to(&self, mut s: usize) -> Vec<(usize, Action)> {
        let mut p = Vec::new();
        while let Some((pred, a)) = self.parent[s] {
            p.push((pred, a));
            s = pred;
        }
        p.reverse();
        p
    }

    /// Maximal schedules (root to a terminal state) such that every transition of the graph is
    /// on at least one of them. Greedy: start at the shallowest state with an uncovered
    /// transition, then keep preferring uncovered transitions.
    pub fn covering_schedules(&self) -> Vec<Vec<Action>> {
        let mut covered: HashSet<(usize, Action)> = HashSet::new();
        let mut out = Vec::new();
        for s0 in 0..self.states.len() {
            for k in 0..self.edges[s0].len() {
                let (a0, _) = self.edges[s0][k];
                if covered.contains(&(s0, a0)) {
                    continue;
                }
                let mut sched: Vec<Action> = Vec::new();
                for (s, a) in self.path_to(s0) {
                    covered.insert((s, a));
                    sched.push(a);
                }
                let mut cur = s0;
                let mut next = Some((a0, self.edges[s0][k].1));
                while let Some((a, t)) = next {
                    covered.insert((cur, a));
                    sched.push(a);
                    cur = t;
                    next = self.edges[cur]
                        .iter()
                        .find(|(a, _)| !covered.contains(&(cur, *a)))
                        .or_else(|| self.edges[cur].first())
                        .copied();
                }
                out.push(sched);
            }
        }
        out
    }
}
