//! server_mc: controlled-scheduler exploration of pavex's server (property C16).
//!
//! parent: enumerate the shadow model exhaustively per configuration, derive a set of schedules
//! covering every model transition, execute each schedule on the real server in child processes
//! (one server per process at a time), judge the observed facts with the oracle.
use crate::exec::{self, Harness, Outcome};
use crate::model::{self, Action, Cfg, Mode};
use crate::{explore, oracle};
use serde::{Deserialize, Serialize};
use serde_json::{Value, json};
use std::collections::BTreeMap;
use std::io::{BufRead, BufReader, Write};
use std::sync::{Arc, Mutex};
use std::time::Instant;

#[derive(Serialize, Deserialize, Clone)]
struct Job {
    id: usize,
    /// value of `model::POLLS_BEFORE_SIGNAL` found by the calibration
    polls_before_signal: bool,
    /// value of `model::QUEUE_CAP` found by the calibration
    #[serde(default = "default_cap")]
    queue_cap: usize,
    cfg: Cfg,
    schedule: Vec<Action>,
}

fn default_cap() -> usize {
    15
}

#[derive(Serialize, Deserialize)]
struct JobResult {
    id: usize,
    attempts: u32,
    outcome: Outcome,
    violations: Vec<(String, String)>,
    /// timing clauses that fired in some but not all executions of this schedule
    #[serde(default)]
    timing_inconclusive: Vec<String>,
    /// executions that left the shadow model but did not do so again when repeated
    #[serde(default)]
    divergences_not_reproduced: u32,
}

fn cfgs_probe() -> Cfg {
    Cfg { workers: 1, clients: 1, max_req: 1, mode: Mode::Generous, bulk: false }
}

fn run_job(h: &mut Harness, job: &Job) -> JobResult {
    if job.id == usize::MAX {
        // calibration request from the parent
        let v = calibrate(h);
        let cap = calibrate_cap(h);
        return JobResult {
            id: job.id,
            attempts: 1,
            outcome: Outcome { probe: format!("calibrated:{v}:cap={cap}"), ..Default::default() },
            violations: vec![],
            timing_inconclusive: vec![],
            divergences_not_reproduced: 0,
        };
    }
    model::POLLS_BEFORE_SIGNAL.store(job.polls_before_signal, std::sync::atomic::Ordering::Relaxed);
    model::QUEUE_CAP.store(job.queue_cap, std::sync::atomic::Ordering::Relaxed);
    let mut attempts = 0u32;
    let mut divergences_not_reproduced = 0u32;
    // One "settled" execution: not timing-unsafe (the short timeout did not race the scheduled
    // part) and, if it left the shadow model, it did so again when repeated (a stall caused by
    // CPU starvation does not repeat; a real behavioural difference does).
    let settled = |h: &mut Harness, attempts: &mut u32, flaky: &mut u32| -> Outcome {
        let mut unsafe_tries = 0;
        let mut diverged_tries = 0;
        loop {
            *attempts += 1;
            let o = h.execute(job.cfg, &job.schedule);
            if o.timing_unsafe && unsafe_tries < 7 {
                unsafe_tries += 1;
                continue;
            }
            if o.diverged.is_some() && diverged_tries < 2 {
                diverged_tries += 1;
                continue;
            }
            if o.diverged.is_none() && diverged_tries > 0 {
                *flaky += 1;
            }
            return o;
        }
    };
    let outcome = settled(h, &mut attempts, &mut divergences_not_reproduced);
    let mut violations = oracle::judge(&job.cfg, &outcome);
    let mut timing_inconclusive = Vec::new();
    let timing: Vec<String> = violations
        .iter()
        .map(|(k, _)| k.clone())
        .filter(|k| oracle::is_timing_key(k))
        .collect();
    if !timing.is_empty() {
        // a real-time upper bound was exceeded: only believe it if it is exceeded every time
        let mut still: Vec<String> = timing.clone();
        for _ in 0..4 {
            let o = settled(h, &mut attempts, &mut divergences_not_reproduced);
            let v = oracle::judge(&job.cfg, &o);
            still.retain(|k| v.iter().any(|(k2, _)| k2 == k));
            if still.is_empty() {
                break;
            }
        }
        for k in timing {
            if !still.contains(&k) {
                violations.retain(|(k2, _)| *k2 != k);
                timing_inconclusive.push(k);
            }
        }
    }
    JobResult {
        id: job.id,
        attempts,
        outcome,
        violations,
        timing_inconclusive,
        divergences_not_reproduced,
    }
}

fn child_main() {
    let mut h = Harness::new();
    let stdin = std::io::stdin();
    let stdout = std::io::stdout();
    for line in stdin.lock().lines() {
        let Ok(line) = line else { break };
        if line.trim().is_empty() {
            continue;
        }
        let job: Job = serde_json::from_str(&line)
            .unwrap_or_else(|e| verif_common::machinery_error(&format!("child: bad job: {e}")));
        let mut res = run_job(&mut h, &job);
        if res.violations.is_empty() && res.outcome.diverged.is_none() {
            res.outcome.trace.clear();
        }
        let mut out = stdout.lock();
        let _ = writeln!(out, "{}", serde_json::to_string(&res).unwrap());
        let _ = out.flush();
    }
}

fn configs(tier: verif_common::Tier, shape: Option<&str>) -> Vec<Cfg> {
    let mut v = Vec::new();
    let base = [Mode::Generous, Mode::Short, Mode::Forced];
    // debugging aid: --shape "w,c,r;w,c,r"
    let custom: Vec<(u8, u8, u8)> = shape
        .map(|s| {
            s.split(';')
                .map(|t| {
                    let n: Vec<u8> = t.split(',').filter_map(|x| x.trim().parse().ok()).collect();
                    (n[0], n[1], n[2])
                })
                .collect()
        })
        .unwrap_or_default();
    let shapes: &[(u8, u8, u8)] = if !custom.is_empty() {
        &custom
    } else if tier.is_thorough() {
        // (workers, clients, max requests per connection)
        &[(1, 1, 2), (2, 1, 2), (1, 2, 2), (2, 2, 2), (1, 3, 2), (2, 3, 2)]
    } else {
        &[(1, 1, 2), (2, 1, 1), (1, 2, 2), (2, 2, 1)]
    };
    for &(workers, clients, max_req) in shapes {
        let mut modes = base.to_vec();
        // Graceful with an effectively unbounded timeout (Duration::MAX), and with a huge finite
        // one (u64::MAX / 4 s) in the smaller shapes.
        let unbounded = if !custom.is_empty() {
            true
        } else if tier.is_thorough() {
            clients <= 2
        } else {
            !(workers == 2 && clients == 2)
        };
        if unbounded {
            modes.push(Mode::Unbounded);
        }
        let small = if tier.is_thorough() { clients <= 2 } else { clients <= 1 };
        if small {
            modes.push(Mode::Huge);
        }
        for mode in modes {
            v.push(Cfg {
                workers,
                clients,
                max_req,
                mode,
                bulk: false,
            });
        }
    }
    if custom.is_empty() {
        // BULK configurations: enough interchangeable connections to fill the worker queues (capacity 15)
        let bulk: &[(u8, u8, &[Mode])] = if tier.is_thorough() {
            &[(1, 8, &[Mode::Generous, Mode::Forced]), (1, 9, &[Mode::Generous]), (1, 15, &[Mode::Generous, Mode::Forced, Mode::Unbounded]),
              (1, 16, &[Mode::Generous, Mode::Forced]), (1, 17, &[Mode::Generous]), (2, 17, &[Mode::Generous, Mode::Forced]), (2, 31, &[Mode::Generous])]
        } else {
            &[(1, 9, &[Mode::Generous]), (1, 16, &[Mode::Generous, Mode::Forced])]
        };
        // sizes are written for the capacity of the pinned tree (15); with another measured capacity c the sizes that were chosen
        // relative to it move along: n >= 15 becomes n - 15 + c (capped at 80 connections: beyond the 61 tasks a tokio LocalSet
        // polls per tick, which is what a deeper queue has to survive), smaller sizes stay
        let cap = model::QUEUE_CAP.load(std::sync::atomic::Ordering::Relaxed);
        let mut seen = std::collections::BTreeSet::new();
        for &(workers, clients, modes) in bulk {
            let per_worker = 15 * workers as usize;
            let n = if (clients as usize) >= per_worker { (clients as usize - per_worker + cap * workers as usize).min(80) } else { clients as usize };
            for &mode in modes {
                if seen.insert((workers, n, mode as u8)) {
                    v.push(Cfg { workers, clients: n as u8, max_req: 1, mode, bulk: true });
                }
            }
        }
    }
    v
}

/// One probe execution: a connection started on the worker, request bytes announced but not yet
/// parsed, when a graceful shutdown starts. Tells which implementation variant the shadow model
/// has to mirror (every later execution validates the choice event by event).
fn calibrate(h: &mut Harness) -> bool {
    use Action::*;
    let cfg = Cfg { workers: 1, clients: 1, max_req: 1, mode: Mode::Generous, bulk: false };
    let mut schedule = vec![
        Connect(0), Send(0), RelA, RelA, RelW(0), RelW(0), Call { late: false }, RelA, RelA, RelA, RelW(0), RelW(0), RelW(0),
    ];
    model::POLLS_BEFORE_SIGNAL.store(false, std::sync::atomic::Ordering::Relaxed);
    let a = h.execute(cfg, &schedule);
    let answered = a.reqs.first().map(|r| r.answered).unwrap_or(false);
    model::POLLS_BEFORE_SIGNAL.store(answered, std::sync::atomic::Ordering::Relaxed);
    if answered {
        schedule.push(Open(0));
    }
    let b = h.execute(cfg, &schedule);
    if b.diverged.is_some() || b.reqs.first().map(|r| r.answered) != Some(answered) {
        // not fatal here: the main run will show (and report) the divergences
        eprintln!(
            "calibration of the shadow model is inconclusive: first {:?}, second {:?} / {:?}",
            a.canonical(), b.canonical(), b.trace
        );
    }
    answered
}

/// Capacity probe: one worker held at its first checkpoint, `CAP_PROBE_CLIENTS` connections sent one after the other, the shadow
/// model told that the queue never fills: the first connection the implementation DROPS (a divergence from that model) is the
/// capacity. No drop: the capacity is at least the number of clients (and that is what the model will assume).
const CAP_PROBE_CLIENTS: u8 = 140;
fn calibrate_cap(h: &mut Harness) -> usize {
    use std::sync::atomic::Ordering::Relaxed;
    let saved = model::QUEUE_CAP.load(Relaxed);
    model::QUEUE_CAP.store(usize::MAX, Relaxed);
    let cfg = Cfg { workers: 1, clients: CAP_PROBE_CLIENTS, max_req: 1, mode: Mode::Forced, bulk: true };
    let mut st = crate::model::State::init(cfg);
    let mut schedule = Vec::new();
    for _ in 0..100_000 {
        let en = st.enabled();
        let Some(&a) = en.first() else { break };
        schedule.push(a);
        st = st.step(a).0;
    }
    let mut seen: Vec<usize> = Vec::new();
    for _ in 0..2 {
        let o = h.execute(cfg, &schedule);
        let cap = match &o.diverged {
            Some(why) => why
                .split("ADropped(")
                .nth(1)
                .and_then(|r| r.split(|c: char| !c.is_ascii_digit()).next())
                .and_then(|n| n.parse::<usize>().ok()),
            None => Some(CAP_PROBE_CLIENTS as usize),
        };
        match cap {
            Some(c) => seen.push(c),
            None => eprintln!("capacity probe: unexpected divergence {:?}", o.diverged),
        }
    }
    model::QUEUE_CAP.store(saved, Relaxed);
    match seen.as_slice() {
        [a, b] if a == b && *a > 0 => *a,
        _ => {
            eprintln!("capacity probe inconclusive ({seen:?}): keeping {saved}");
            saved
        }
    }
}

struct Pool {
    results: Vec<JobResult>,
}

/// Run all jobs on `n` child processes; stops handing out jobs after `deadline`.
fn run_pool(jobs: Vec<Job>, n: usize, deadline: Option<Instant>) -> (Pool, usize) {
    let exe = std::env::current_exe()
        .unwrap_or_else(|e| verif_common::machinery_error(&format!("current_exe: {e}")));
    let total = jobs.len();
    let queue = Arc::new(Mutex::new(jobs.into_iter().rev().collect::<Vec<_>>()));
    let results = Arc::new(Mutex::new(Vec::new()));
    let skipped = Arc::new(Mutex::new(0usize));
    let mut threads = Vec::new();
    for _ in 0..n.min(total.max(1)) {
        let queue = queue.clone();
        let results = results.clone();
        let skipped = skipped.clone();
        let exe = exe.clone();
        threads.push(std::thread::spawn(move || {
            let mut child = std::process::Command::new(&exe)
                .arg("--worker")
                .arg("1")
                .stdin(std::process::Stdio::piped())
                .stdout(std::process::Stdio::piped())
                .spawn()
                .unwrap_or_else(|e| verif_common::machinery_error(&format!("spawn child: {e}")));
            let mut cin = child.stdin.take().unwrap();
            let mut cout = BufReader::new(child.stdout.take().unwrap());
            loop {
                let job = { queue.lock().unwrap().pop() };
                let Some(job) = job else { break };
                if let Some(d) = deadline
                    && Instant::now() > d
                {
                    *skipped.lock().unwrap() += 1;
                    continue;
                }
                let line = serde_json::to_string(&job).unwrap();
                if writeln!(cin, "{line}").is_err() || cin.flush().is_err() {
                    verif_common::machinery_error("child process died (write)");
                }
                let mut resp = String::new();
                match cout.read_line(&mut resp) {
                    Ok(n) if n > 0 => {}
                    _ => verif_common::machinery_error(&format!(
                        "child process died while executing job {} ({:?} {:?})",
                        job.id, job.cfg, job.schedule
                    )),
                }
                if resp.starts_with("MACHINERY-ERROR") {
                    verif_common::machinery_error(&format!("child: {}", resp.trim()));
                }
                let res: JobResult = serde_json::from_str(&resp)
                    .unwrap_or_else(|e| verif_common::machinery_error(&format!("child output: {e}: {resp}")));
                results.lock().unwrap().push(res);
            }
            drop(cin);
            let _ = child.wait();
        }));
    }
    for t in threads {
        let _ = t.join();
    }
    let results = std::mem::take(&mut *results.lock().unwrap());
    let skipped = *skipped.lock().unwrap();
    (Pool { results }, skipped)
}

fn replay_main(args: &verif_common::Args, path: &std::path::Path) -> ! {
    let case = verif_common::load_replay(path);
    let cfg: Cfg = serde_json::from_value(case["cfg"].clone())
        .unwrap_or_else(|e| verif_common::machinery_error(&format!("replay cfg: {e}")));
    let schedule: Vec<Action> = serde_json::from_value(case["schedule"].clone())
        .unwrap_or_else(|e| verif_common::machinery_error(&format!("replay schedule: {e}")));
    let mut h = Harness::new();
    let polls_before_signal = calibrate(&mut h);
    let queue_cap = calibrate_cap(&mut h);
    model::QUEUE_CAP.store(queue_cap, std::sync::atomic::Ordering::Relaxed);
    let job = Job { id: 0, polls_before_signal, queue_cap, cfg, schedule };
    let r1 = run_job(&mut h, &job);
    let r2 = run_job(&mut h, &job);
    println!("replay of {} ({})", path.display(), args.property);
    println!("configuration: {cfg:?}");
    println!("schedule: {:?}", job.schedule);
    println!("trace of the first execution:");
    for l in &r1.outcome.trace {
        println!("  {l}");
    }
    println!("observed: {}", serde_json::to_string_pretty(&r1.outcome.canonical()).unwrap());
    println!("expected: every request in a class of {:?} with `sent_before_call` and a gate that opens is `answered`; no accepted_after_call; probe not served; timing within bounds", oracle::OWED);
    if r1.outcome.facts() != r2.outcome.facts() {
        verif_common::machinery_error("nondeterministic: two executions of the replayed schedule differ");
    }
    if r1.violations.is_empty() {
        println!("no violation on this schedule");
        std::process::exit(0);
    }
    for (k, w) in &r1.violations {
        println!("STILL VIOLATES [{k}]: {w}");
    }
    std::process::exit(1);
}

pub fn main() {
    let args = verif_common::Args::parse();
    if args.extra("worker").is_some() {
        child_main();
        return;
    }
    if args.property != "C16" {
        verif_common::machinery_error(&format!("server_mc serves C16, not {:?}", args.property));
    }
    if let Some(p) = args.replay.clone() {
        replay_main(&args, &p);
    }
    let mut rep = verif_common::Reporter::from_args(&args);
    let started = Instant::now();
    let cap_s: u64 = args
        .extra("cap-s")
        .and_then(|s| s.parse().ok())
        .unwrap_or(if args.tier.is_thorough() { 1080 } else { 300 });
    let deadline = started + std::time::Duration::from_secs(cap_s);
    let n_children: usize = args
        .extra("jobs")
        .and_then(|s| s.parse().ok())
        .unwrap_or_else(|| {
            std::thread::available_parallelism()
                .map(|n| n.get())
                .unwrap_or(4)
                .saturating_sub(2)
                .clamp(2, 14)
        });

    // 0. which implementation variant does the shadow model have to mirror?
    let (polls_before_signal, queue_cap) = {
        let (p, _) = run_pool(
            vec![Job { id: usize::MAX, polls_before_signal: false, queue_cap: default_cap(), cfg: cfgs_probe(), schedule: vec![] }],
            1,
            None,
        );
        let probe = p.results[0].outcome.probe.clone();
        let cap = probe.split(":cap=").nth(1).and_then(|c| c.parse::<usize>().ok()).unwrap_or_else(default_cap);
        (probe.starts_with("calibrated:true"), cap)
    };
    model::POLLS_BEFORE_SIGNAL.store(polls_before_signal, std::sync::atomic::Ordering::Relaxed);
    model::QUEUE_CAP.store(queue_cap, std::sync::atomic::Ordering::Relaxed);
    println!("calibration: polls_before_signal={polls_before_signal}, measured queue capacity={queue_cap}");
    // 1. exhaustive exploration of the shadow model, per configuration
    let cfgs = configs(args.tier, args.extra("shape"));
    let mut jobs: Vec<Job> = Vec::new();
    let mut states = 0usize;
    let mut transitions = 0usize;
    let mut per_cfg = Vec::new();
    let mut job_cfg_range: Vec<(Cfg, usize, usize)> = Vec::new();
    for cfg in &cfgs {
        let g = explore::build(*cfg, args.seed);
        let sch = g.covering_schedules();
        states += g.states.len();
        transitions += g.transitions();
        per_cfg.push(json!({"cfg": cfg, "states": g.states.len(), "transitions": g.transitions(),
            "terminal_states": g.terminals, "schedules": sch.len()}));
        let first = jobs.len();
        for s in sch {
            let id = jobs.len();
            jobs.push(Job { id, polls_before_signal, queue_cap, cfg: *cfg, schedule: s });
        }
        job_cfg_range.push((*cfg, first, jobs.len()));
    }
    let all_jobs = jobs.clone();
    println!(
        "model: {} configurations, {states} states, {transitions} transitions, {} schedules; {n_children} executor processes",
        cfgs.len(),
        jobs.len()
    );

    // 2. execute every schedule on the real server
    let (pool, skipped) = run_pool(jobs, n_children, Some(deadline));
    let mut results = pool.results;
    results.sort_by_key(|r| r.id);

    // 3. judge, re-execute failures once
    let mut hist: BTreeMap<String, usize> = BTreeMap::new();
    let mut bump = |k: String| *hist.entry(k).or_insert(0) += 1;
    let mut validated = 0usize;
    let mut diverged: Vec<&JobResult> = Vec::new();
    let mut nontrivial = std::collections::BTreeSet::new();
    let mut retried = 0u32;
    let mut timing_inconclusive: BTreeMap<String, usize> = BTreeMap::new();
    let mut flaky_divergences = 0u32;
    let mut timing_unsafe: Vec<&JobResult> = Vec::new();
    let mut events = 0usize;
    let mut failing: BTreeMap<String, Vec<&JobResult>> = BTreeMap::new();
    for r in &results {
        let cfg = all_jobs[r.id].cfg;
        events += r.outcome.events;
        retried += r.attempts - 1;
        if r.outcome.diverged.is_none() {
            validated += 1;
        } else {
            diverged.push(r);
        }
        if r.outcome.timing_unsafe && r.outcome.diverged.is_none() {
            timing_unsafe.push(r);
        }
        for q in &r.outcome.reqs {
            let res = if q.answered { "answered" } else if q.partial { "truncated" } else { "no_response" };
            let gate = if q.never_opens { "gate_never_opens" } else { "gate_opens" };
            let ann = match q.bytes_announced {
                Some(true) => "announced",
                Some(false) => "not_announced",
                None => "-",
            };
            bump(format!("request:{:?}:{}:{}:{}:{}", cfg.mode, q.class, ann, gate, res));
            if q.sent_before_call && q.class != "done" {
                nontrivial.insert(r.id);
            }
        }
        bump(format!("probe:{:?}:{}", cfg.mode, r.outcome.probe));
        bump(format!(
            "resolution:{:?}:{}",
            cfg.mode,
            if !r.outcome.resolved {
                "never"
            } else if r.outcome.reqs.iter().any(|q| q.never_opens && q.entered) && cfg.mode == Mode::Short {
                "at_timeout"
            } else {
                "when_idle"
            }
        ));
        bump(format!("handle_await:{}", if r.outcome.handle_resolved { "resolved" } else { "unresolved" }));
        if !r.outcome.accepted_after_call.is_empty() {
            bump("late_connection:accepted".into());
        } else if r.outcome.reqs.iter().any(|q| q.class == "late_connect") {
            bump("late_connection:not_accepted".into());
        }
        for (k, _) in &r.violations {
            failing.entry(k.clone()).or_default().push(r);
        }
        for k in &r.timing_inconclusive {
            *timing_inconclusive.entry(k.clone()).or_insert(0) += 1;
        }
        flaky_divergences += r.divergences_not_reproduced;
    }
    let mut reexecuted = 0usize;
    let mut unreproduced: Vec<String> = Vec::new();
    for (key, rs) in &failing {
        // shortest schedules first: the first one that reproduces becomes the replay artefact
        let mut cands: Vec<&&JobResult> = rs.iter().collect();
        cands.sort_by_key(|r| (r.outcome.diverged.is_some(), all_jobs[r.id].schedule.len()));
        let mut reported = false;
        for r in cands.into_iter().take(3) {
            let job = all_jobs[r.id].clone();
            // up to two re-executions: one of them has to reproduce facts and key
            let mut again = run_pool(vec![job.clone()], 1, None).0;
            reexecuted += 1;
            let same = |a: &JobResult| a.outcome.facts() == r.outcome.facts() && a.violations.iter().any(|(k, _)| k == key);
            if !same(&again.results[0]) {
                again = run_pool(vec![job.clone()], 1, None).0;
                reexecuted += 1;
            }
            let a = &again.results[0];
            if !same(a) {
                if oracle::is_timing_key(key) {
                    // a real-time bound that is not exceeded reproducibly says nothing
                    *timing_inconclusive.entry(key.clone()).or_insert(0) += 1;
                    continue;
                }
                if r.outcome.diverged.is_none() {
                    verif_common::machinery_error(&format!(
                        "nondeterministic: re-execution of schedule {} ({:?} {:?}) did not reproduce [{key}]: first {} second {}",
                        job.id, job.cfg, job.schedule, r.outcome.canonical(), a.outcome.canonical()
                    ));
                }
                // the execution had left the shadow model: from there on the harness only drives
                // the server to completion, uncontrolled; try another schedule showing this key
                continue;
            }
            let what = &r.violations.iter().find(|(k, _)| k == key).unwrap().1;
            rep.violation(
                key,
                &format!("{what} ({} schedules of this run show it; cfg {:?})", rs.len(), job.cfg),
                json!({"cfg": job.cfg, "schedule": job.schedule, "observed": r.outcome.canonical(), "trace": r.outcome.trace}),
            );
            reported = true;
            break;
        }
        if !reported {
            unreproduced.push(key.clone());
        }
    }
    for r in diverged.iter().take(8) {
        eprintln!(
            "diverged: {:?} {:?}: {} | trace: {:?}",
            all_jobs[r.id].cfg,
            all_jobs[r.id].schedule,
            r.outcome.diverged.clone().unwrap_or_default(),
            r.outcome.trace
        );
    }
    // A few schedules whose scheduled part could not be run within half the short timeout even
    // after 8 attempts are counted as timing-inconclusive; many of them mean the run says nothing.
    if timing_unsafe.len() * 100 > all_jobs.len() && rep.new_violations() == 0 {
        let r = timing_unsafe[0];
        verif_common::machinery_error(&format!(
            "more than 1% of the schedules ({}) stayed timing-unsafe after {} attempts (the scheduled part took more than half of the {} ms timeout: machine too loaded, or the server is slow to produce a predicted event); first: {:?} {:?}",
            timing_unsafe.len(), r.attempts, exec::SHORT_MS, all_jobs[r.id].cfg, all_jobs[r.id].schedule
        ));
    }
    if !diverged.is_empty() && rep.new_violations() == 0 {
        let r = diverged[0];
        verif_common::machinery_error(&format!(
            "{} executions diverged from the shadow model without any property violation; first: {:?} {:?}: {} | trace: {:?}",
            diverged.len(), all_jobs[r.id].cfg, all_jobs[r.id].schedule,
            r.outcome.diverged.clone().unwrap_or_default(), r.outcome.trace
        ));
    }

    let completed: Vec<Value> = job_cfg_range
        .iter()
        .map(|(cfg, a, b)| {
            let done = results.iter().filter(|r| r.id >= *a && r.id < *b).count();
            json!({"cfg": cfg, "schedules": b - a, "executed": done})
        })
        .collect();
    let exhaustive = skipped == 0
        && results.len() == all_jobs.len()
        && diverged.is_empty()
        && timing_unsafe.is_empty();
    let samples: Vec<Value> = results
        .iter()
        .filter(|r| nontrivial.contains(&r.id))
        .step_by((nontrivial.len() / 6).max(1))
        .take(6)
        .map(|r| json!({"cfg": all_jobs[r.id].cfg, "schedule": all_jobs[r.id].schedule, "observed": r.outcome.canonical()}))
        .collect();
    let coverage = json!({
        "states": states,
        "transitions": transitions,
        "traces_validated_against_impl": validated,
        "evaluations": results.len(),
        "distinct_nontrivial": nontrivial.len(),
        "exhaustive": exhaustive,
        "rule": "Alphabet: environment actions Connect(i) / Send(i) (one complete HTTP/1.1 request, no pipelining) / Open(i) (open the gate the handler of client i blocks on) / Call{late} (call ServerHandle::shutdown(mode); late = a further client connects and sends right after the call) and thread releases RelA / RelW(w) at the H2 checkpoints (A_LOOP, A_MSG, A_SHUTDOWN_SENT, W_LOOP, W_MSG, W_DRAINED; A_DISPATCHED is passed through). Bound: per configuration (workers, clients, max requests per connection, mode in {Generous: Graceful(2000 ms) every gate opens; Unbounded: Graceful(Duration::MAX) every gate opens; Huge: Graceful(u64::MAX/4 s) every gate opens, smaller shapes only; Short: Graceful(150 ms) gate of c0's first request never opens; Forced}) the shadow model of Appendix C is explored exhaustively (BFS, all enabled actions in every state; Send/Connect only before the call); a set of maximal schedules covering EVERY transition of that graph is executed on the real server (fresh server per schedule, every predicted checkpoint/handler/response/close event awaited and compared = trace validated). Oracle (facts observed on the real server only): in graceful modes every request whose bytes were fully sent and whose connection had been handed to a worker (queued / started / keep-alive) or whose handler had been entered before the call, and whose gate opens, gets a complete 200 response with the right body; no connection made after the call reaches A_MSG; a connection made after the shutdown future resolved is refused or never answered; Forced resolves within 400 ms of A_SHUTDOWN_SENT; graceful does not resolve earlier than `timeout` after the call while a handler is still blocked on a closed gate, within timeout+400 ms, and within 400 ms of the last harness action when nothing stays blocked; awaiting the handle resolves within 400 ms of the shutdown future. Non-trivial = schedule in which at least one request was sent and still unanswered when shutdown() was called; distinct = distinct schedules.",
        "samples": samples,
        "per_configuration": per_cfg,
        "executed_per_configuration": completed,
        "schedules_total": all_jobs.len(),
        "schedules_skipped_by_time_cap": skipped,
        "time_cap_s": cap_s,
        "executions_diverged_from_model": diverged.len(),
        "timing_retries": retried,
        "schedules_timing_inconclusive_short_timeout_raced_the_schedule": timing_unsafe.len(),
        "timing_inconclusive": timing_inconclusive,
        "divergences_not_reproduced_on_repetition": flaky_divergences,
        "violations_reexecuted": reexecuted,
        "keys_seen_only_in_unpredicted_executions_and_not_reproduced": unreproduced,
        "events_observed": events,
        "executor_processes": n_children,
        "model_variant_polls_before_signal": polls_before_signal,
        "measured_queue_capacity": queue_cap,
        "outcome_histogram": hist,
    });
    let code = rep.finish(
        "model_checking",
        coverage,
        &[
            "interleavings below checkpoint granularity (inside tokio, hyper, the kernel) are not enumerated: a released thread runs freely until its next checkpoint or until it parks",
            "the shadow model (src/model.rs) decides which schedules exist; every execution checks each predicted event, a mismatch is reported (machinery error unless the oracle finds a new violation); one model parameter (does the worker poll its connection tasks once before signalling hyper-util?) is calibrated by a probe execution at start-up",
            "every accepted TcpStream is registered with the acceptor runtime's IO driver: request bytes are only announced to a connection when the acceptor thread reaches its driver; the harness tells the two cases apart via /proc/self/task/<tid>/{syscall,status} (thread parked in epoll_wait, voluntary context switches) - Linux x86_64 only",
            "each executor process binds its own loopback address 127.(64+x).y.z:0, so the post-shutdown probe can never reach another process' listener on a reused ephemeral port",
            "real time: Graceful timeouts are 2000 ms (never expected to fire) and 150 ms (fires only after the last scheduled action; executions whose scheduled part took > 75 ms after the call are re-run, up to 8 times, then counted as timing-inconclusive)",
            "clauses that compare a real-time interval with an upper bound (forced-not-prompt, graceful-resolve-after-timeout, graceful-resolve-late-after-idle, handle-await-late) use a slack of 400 ms + 4 x the largest scheduling delay a 1 ms sleeper thread of the executor process saw during the execution, and are only reported if they fire in 5 out of 5 executions of the schedule and again in the parent's re-execution; otherwise they are counted under timing_inconclusive (neither violation nor machinery error). Lost requests, accepts after the call, the post-shutdown probe, an unresolved handle/shutdown future and resolving while a handler is blocked are not timing clauses and stay strict",
            "an execution that leaves the shadow model is repeated (up to 2 more times) and only counts as diverged if it diverges again",
            "the acceptor always dispatches to worker 0 while its queue is not full (next_worker only advances on failure), so worker 1 never gets a connection at these bounds",
            "HTTP/1.1 only, requests without body, at most 2 requests per connection, no client-side close before the server's",
        ],
    );
    std::process::exit(code);
}
