//! server_mc: controlled-scheduler exploration of pavex's server (property C16).
//! See `engine.rs`. Needs hook H2 (`pavex::server::verif`, delivered as `hook.patch`);
//! `build.rs` sets `has_h2` when the pavex sources this workspace points at contain it.
#[cfg(has_h2)]
mod engine;
#[cfg(has_h2)]
mod exec;
#[cfg(has_h2)]
mod explore;
#[cfg(has_h2)]
mod model;
#[cfg(has_h2)]
mod oracle;

#[cfg(has_h2)]
fn main() {
    engine::main()
}

#[cfg(not(has_h2))]
fn main() {
    verif_common::machinery_error(
        "hook H2 (pavex::server::verif) is missing from the pavex sources: apply /verif/engines/server_mc/hook.patch with `git -C /repo apply`, then rebuild",
    );
}
