//! bpgen: spec (JSON) -> serialized blueprint (RON), in the schema `pavexc` reads.
//!
//! usage: bpgen <catalog.json> <specs.jsonl> <out-dir>
//! Each spec line: {"id": "...", "bp": {"ops": [ ... ]}}. One `<id>.ron` file per spec.
//! The builder->schema channel itself is the subject of C19 (engine rt_bp); here the schema value
//! is assembled directly, with the same RON writer configuration as `Blueprint::persist`.
use pavex_bp_schema as s;
use serde_json::Value;
use std::collections::{BTreeMap, HashMap};

struct Ctx {
    macro_of: HashMap<String, String>,
    line: u32,
}

impl Ctx {
    fn loc(&mut self) -> s::Location {
        self.line += 1;
        s::Location {
            line: self.line,
            column: 5,
            file: "holder/src/lib.rs".into(),
        }
    }
    fn coords(&self, id: &str) -> s::AnnotationCoordinates {
        let macro_name = self
            .macro_of
            .get(id)
            .unwrap_or_else(|| panic!("component {id} is not in the catalog"))
            .clone();
        s::AnnotationCoordinates {
            id: id.to_string(),
            created_at: s::CreatedAt {
                package_name: "verif_app".into(),
                package_version: "0.1.0".into(),
            },
            macro_name,
        }
    }
    fn eh(&mut self, v: &Value) -> Option<s::ErrorHandler> {
        let id = v.get("eh")?.as_str()?;
        Some(s::ErrorHandler {
            coordinates: self.coords(id),
            registered_at: self.loc(),
        })
    }
    fn cloning(v: &Value) -> Option<s::CloningPolicy> {
        match v.get("cl").and_then(|c| c.as_str()) {
            Some("clone_if_necessary") => Some(s::CloningPolicy::CloneIfNecessary),
            Some("never_clone") => Some(s::CloningPolicy::NeverClone),
            _ => None,
        }
    }
    fn blueprint(&mut self, v: &Value) -> s::Blueprint {
        let creation_location = self.loc();
        let mut components = Vec::new();
        for op in v["ops"].as_array().expect("ops") {
            let k = op["k"].as_str().expect("k");
            let c = op.get("c").and_then(|c| c.as_str()).unwrap_or("");
            let comp: s::Component = match k {
                "ctor" => {
                    let lifecycle = match op.get("lc").and_then(|l| l.as_str()) {
                        Some("singleton") => Some(s::Lifecycle::Singleton),
                        Some("request_scoped") => Some(s::Lifecycle::RequestScoped),
                        Some("transient") => Some(s::Lifecycle::Transient),
                        _ => None,
                    };
                    let mut lints = BTreeMap::new();
                    if let Some(l) = op.get("lints").and_then(|l| l.as_object()) {
                        for (k, v) in l {
                            let lint = match k.as_str() {
                                "unused" => s::Lint::Unused,
                                "error_fallback" => s::Lint::ErrorFallback,
                                o => panic!("unknown lint {o}"),
                            };
                            let setting = match v.as_str().unwrap() {
                                "allow" => s::LintSetting::Allow,
                                "warn" => s::LintSetting::Warn,
                                "deny" => s::LintSetting::Deny,
                                o => panic!("unknown lint setting {o}"),
                            };
                            lints.insert(lint, setting);
                        }
                    }
                    let registered_at = self.loc();
                    s::Constructor {
                        coordinates: self.coords(c),
                        lifecycle,
                        cloning_policy: Self::cloning(op),
                        error_handler: self.eh(op),
                        lints,
                        registered_at,
                    }
                    .into()
                }
                "pre" => {
                    let registered_at = self.loc();
                    s::PreProcessingMiddleware {
                        coordinates: self.coords(c),
                        registered_at,
                        error_handler: self.eh(op),
                    }
                    .into()
                }
                "post" => {
                    let registered_at = self.loc();
                    s::PostProcessingMiddleware {
                        coordinates: self.coords(c),
                        registered_at,
                        error_handler: self.eh(op),
                    }
                    .into()
                }
                "wrap" => {
                    let registered_at = self.loc();
                    s::WrappingMiddleware {
                        coordinates: self.coords(c),
                        registered_at,
                        error_handler: self.eh(op),
                    }
                    .into()
                }
                "route" => {
                    let registered_at = self.loc();
                    s::Route {
                        coordinates: self.coords(c),
                        registered_at,
                        error_handler: self.eh(op),
                    }
                    .into()
                }
                "fallback" => {
                    let registered_at = self.loc();
                    s::Fallback {
                        coordinates: self.coords(c),
                        registered_at,
                        error_handler: self.eh(op),
                    }
                    .into()
                }
                "observer" => s::ErrorObserver {
                    coordinates: self.coords(c),
                    registered_at: self.loc(),
                }
                .into(),
                "eh" => s::ErrorHandler {
                    coordinates: self.coords(c),
                    registered_at: self.loc(),
                }
                .into(),
                "prebuilt" => s::PrebuiltType {
                    coordinates: self.coords(c),
                    cloning_policy: Self::cloning(op),
                    registered_at: self.loc(),
                }
                .into(),
                "config" => s::ConfigType {
                    coordinates: self.coords(c),
                    cloning_policy: Self::cloning(op),
                    default_if_missing: op.get("default_if_missing").and_then(|b| b.as_bool()),
                    include_if_unused: op.get("include_if_unused").and_then(|b| b.as_bool()),
                    registered_at: self.loc(),
                }
                .into(),
                "routes" => {
                    // bp.routes(from![<module>]) invoked from the root module of verif_app
                    let module = op["module"].as_str().expect("module").to_string();
                    s::RoutesImport {
                        sources: s::Sources::Some(vec![module]),
                        relative_to: "verif_app".into(),
                        created_at: s::CreatedAt {
                            package_name: "verif_app".into(),
                            package_version: "0.1.0".into(),
                        },
                        registered_at: self.loc(),
                    }
                    .into()
                }
                "import" => {
                    // bp.import(from![<module>]) invoked from the root module of verif_app
                    let module = op["module"].as_str().expect("module").to_string();
                    s::Import {
                        sources: s::Sources::Some(vec![module]),
                        relative_to: "verif_app".into(),
                        created_at: s::CreatedAt {
                            package_name: "verif_app".into(),
                            package_version: "0.1.0".into(),
                        },
                        registered_at: self.loc(),
                    }
                    .into()
                }
                "nest" => {
                    let nested_at = self.loc();
                    let path_prefix = op.get("prefix").and_then(|p| p.as_str()).map(|p| s::PathPrefix {
                        path_prefix: p.to_string(),
                        registered_at: self.loc(),
                    });
                    let domain = op.get("domain").and_then(|p| p.as_str()).map(|p| s::Domain {
                        domain: p.to_string(),
                        registered_at: self.loc(),
                    });
                    // `"loc": n` = the nested blueprint is the value of a FUNCTION whose body starts at line n: two `nest`
                    // ops with the same `loc` describe `bp.nest(api())` called twice — every registration inside carries
                    // the same source location both times (the call sites, above, still differ).
                    let saved = self.line;
                    if let Some(l) = op.get("loc").and_then(|l| l.as_u64()) {
                        self.line = l as u32;
                    }
                    let blueprint = self.blueprint(&op["bp"]);
                    if op.get("loc").is_some() {
                        self.line = saved;
                    }
                    s::NestedBlueprint {
                        blueprint,
                        path_prefix,
                        domain,
                        nested_at,
                    }
                    .into()
                }
                o => panic!("unknown op kind {o}"),
            };
            components.push(comp);
        }
        s::Blueprint {
            creation_location,
            components,
        }
    }
}

fn main() {
    let a: Vec<String> = std::env::args().collect();
    if a.len() != 4 {
        eprintln!("usage: bpgen <catalog.json> <specs.jsonl> <out-dir>");
        std::process::exit(2);
    }
    let catalog: Vec<Value> = serde_json::from_str(&std::fs::read_to_string(&a[1]).unwrap()).unwrap();
    let macro_of: HashMap<String, String> = catalog
        .iter()
        .map(|c| (c["id"].as_str().unwrap().to_string(), c["macro"].as_str().unwrap().to_string()))
        .collect();
    std::fs::create_dir_all(&a[3]).unwrap();
    let specs = std::fs::read_to_string(&a[2]).unwrap();
    let mut n = 0;
    for line in specs.lines().filter(|l| !l.trim().is_empty()) {
        let v: Value = serde_json::from_str(line).unwrap();
        let id = v["id"].as_str().unwrap();
        let mut ctx = Ctx {
            macro_of: macro_of.clone(),
            line: 0,
        };
        let bp = ctx.blueprint(&v["bp"]);
        let contents = ron::ser::to_string_pretty(&bp, ron::ser::PrettyConfig::new()).unwrap();
        std::fs::write(format!("{}/{id}.ron", a[3]), contents).unwrap();
        n += 1;
    }
    println!("bpgen: wrote {n} blueprints");
}
