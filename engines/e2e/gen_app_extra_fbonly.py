"""Extra verif_app components for the `fbonly` family (C09): catch-all routes glued to / below a static prefix, to be registered
by a parent blueprint next to a nested blueprint under that very prefix."""


def gen(w, catalog):
    w("// ================= gen_app_extra_fbonly.py =================")
    for cid, path in (("RT_PREST_ANY", "/p{*rest}"), ("RT_PSLASHREST_ANY", "/p/{*rest}"), ("RT_PQREST_ANY", "/p/{q}{*rest}")):
        w(f"#[pavex::route(path = \"{path}\", id = \"{cid}\", allow(any_method))]")
        w(f"pub fn {cid.lower()}() -> pavex::Response {{ rt::call(\"handler\", \"{cid}\", &[]); rt::respond(\"h\", \"{cid}\") }}")
        catalog.append({"id": cid, "kind": "handler", "macro": "route", "inputs": [], "fallible": False, "err": None, "path": path,
                        "methods": "ANY", "fbonly": True})
    w()
