"""Family `fbonly` (C09): a parent blueprint registers a catch-all route that covers exactly what the path-based fallback of a
prefix-nested blueprint would cover (`/p{*rest}`, `/p/{*rest}`), next to a nested blueprint under `/p` that has a fallback and no
routes / one route / is nested once more. pavexc skips the shadowed path-based fallback; whatever it decides, the run must end
with a verdict: exit 0, or exit 1 with an error diagnostic (oracles.oracle_c09)."""
import itertools

import oracles as O

FAM = "fbonly"


def specs(tier):
    out = []
    parents = ["RT_PREST_ANY", "RT_PSLASHREST_ANY"] + (["RT_PQREST_ANY"] if tier == "thorough" else [])
    inners = {
        "fallback-only": [{"k": "fallback", "c": "FB1__NA_0"}],
        "fallback+route": [{"k": "route", "c": "RT_A_GET"}, {"k": "fallback", "c": "FB1__NA_0"}],
        "nested-fallback": [{"k": "nest", "bp": {"ops": [{"k": "route", "c": "RT_A_GET"}, {"k": "fallback", "c": "FB2__NA_0"}]}}],
    }
    for parent, (iname, inner), order, rootfb in itertools.product(parents, inners.items(), (0, 1), (False, True)):
        nest = {"k": "nest", "prefix": "/p", "bp": {"ops": inner}}
        route = {"k": "route", "c": parent}
        ops = [route, nest] if order == 0 else [nest, route]
        if rootfb:
            ops.append({"k": "fallback", "c": "FB3__NA_0"})
        out.append({"id": f"fbonly_{parent.lower()}_{iname}_{order}_{int(rootfb)}", "family": FAM, "bp": {"ops": ops}, "requests": []})
    return out


def observe(tier):
    import lib_e2e as L
    import orchestrator
    sp = specs(tier)
    o = orchestrator.observe_specs(sp, f"{L.E2E_WORK}/{FAM}-{tier}", with_run=False)
    o["specs"] = sp
    o["built_specs"] = [s for s in sp if s["id"] in o["build"]]
    o["singles_gen"] = o["gen"]
    o["packs_gen"] = {}
    return o


PROPERTIES = {"C09": (lambda tier: [FAM], O.oracle_c09), "C01": (lambda tier: [FAM], O.oracle_c01)}
