"""Python twin of engines/common (verif_common): violations, known findings, replay files, evidence."""
import hashlib
import json
import os
import time

VERIF = "/verif"


class Reporter:
    def __init__(self, prop, tier, seed=0):
        self.prop = prop
        self.tier = tier
        self.seed = seed
        self.t0 = time.time()
        self.known = set()
        p = f"{VERIF}/known_findings.json"
        if os.path.exists(p):
            with open(p) as f:
                kf = json.load(f)
            for e in kf.get("findings", []):
                if e.get("property") == prop:
                    self.known.add(e["key"])
        self.violations = []
        self.seen = set()
        self.suppressed = 0
        self.max_files = 20

    def violation(self, key, what, case):
        if key in self.seen:
            self.suppressed += 1
            return
        self.seen.add(key)
        known = key in self.known
        short = hashlib.sha256(key.encode()).hexdigest()[:12]
        d = f"{VERIF}/replays/{self.prop}"
        path = f"{d}/{short}.json"
        if len(self.violations) < self.max_files:
            os.makedirs(d, exist_ok=True)
            with open(path, "w") as f:
                json.dump({"property": self.prop, "key": key, "what": what, "case": case}, f, indent=1)
        if known:
            print(f"KNOWN-FINDING: property={self.prop} {what} [key={key}]", flush=True)
        else:
            print(f"VIOLATION property={self.prop} replay={path}", flush=True)
            print(f"  detail: {what} [key={key}]", flush=True)
        self.violations.append({"key": key, "what": what, "path": path, "known": known})

    def new_violations(self):
        return sum(1 for v in self.violations if not v["known"])

    def finish(self, level, coverage, assumptions):
        coverage = dict(coverage)
        coverage["known_findings_matched"] = [v["key"] for v in self.violations if v["known"]]
        coverage["violation_keys"] = [v["key"] for v in self.violations if not v["known"]]
        coverage["duplicate_key_violations_suppressed"] = self.suppressed
        doc = {"property_id": self.prop, "tier": self.tier, "seed": self.seed, "level": level,
               "coverage": coverage, "assumptions": assumptions, "wall_s": round(time.time() - self.t0, 2),
               "violations": self.new_violations()}
        # seeded-change measurements (tools/now_family.py) keep their evidence out of the registered evidence directory
        evd = os.environ.get("VERIF_EVIDENCE_DIR") or f"{VERIF}/evidence"
        os.makedirs(evd, exist_ok=True)
        with open(f"{evd}/{self.prop}.json", "w") as f:
            json.dump(doc, f, indent=1)
        n = self.new_violations()
        print(f"RESULT property={self.prop} tier={self.tier} violations={n} "
              f"known_findings={len(self.violations) - n} wall_s={time.time() - self.t0:.1f}", flush=True)
        return 1 if n else 0
