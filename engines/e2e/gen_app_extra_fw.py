"""Extra verif_app components for the FW family (fam_fw.py; properties C01 / C09 / run-time values).

Consumers of FRAMEWORK-PROVIDED inputs (compiler/pavexc/src/compiler/analyses/framework_items.rs): one component of
every kind that may take an input, for every framework item and passing mode in `ITEMS`, at every blueprint level of
the FW nesting trees (R = root, A = nested under `/a`, B = nested under `/a/b`). Every consumer logs what it saw as one
trace event

    fwsee <COMPONENT ID> <ITEM> <k>=<v>[ <k>=<v>]

(RH: `m=<method> p=<path>`; CI*: `peer=<ip>`; B*: `body=1`; PP*: `params=<k=v&...>`; MP*: `mp=<pattern>`;
AM*: `am=<M1+M2|ALL|>`), next to the usual `call <kind> <ID> in=[]` event.

Component ids (<L> in R/A/B, <I> in ITEMS or `0` = takes no framework input):
  FWH_<L>_<I>     GET /fw/{x} handler               FWPL_<L>        GET /plain handler (never takes an input)
  FWFB_<L>_<I>    fallback                          FWPRE/FWWRAP/FWPOST_<L>_<I>   middlewares
  C_FWV_<I>       request-scoped constructor of the marker type Fwv<I> (takes the item)
  FWHV_<L>_<I>    GET /fw/{x} handler taking &Fwv<I>       FWFBV_<L>_<I>   fallback taking &Fwv<I>
  FWHF_<L>        fallible GET /fw/{x} handler (fails under plan `fail:FWHF_<L>`), no framework input
  FWEH_<L>_<I>    error handler for ErrH            FWOBS_<L>_<I>   error observer
"""

LEVELS = ["R", "A", "B"]

# key -> (class, mode, Rust parameter type, fwrt logger, expression that turns the parameter `a` into the logger's argument)
ITEMS = {
    "RH": ("RH", "r", "&pavex::request::RequestHead", "head", "a"),
    "CIV": ("CI", "v", "pavex::connection::ConnectionInfo", "conn", "&a"),
    "CIR": ("CI", "r", "&pavex::connection::ConnectionInfo", "conn", "a"),
    "BV": ("B", "v", "pavex::request::body::RawIncomingBody", "body", "&a"),
    "BR": ("B", "r", "&pavex::request::body::RawIncomingBody", "body", "a"),
    "PPV": ("PP", "v", "pavex::request::path::RawPathParams<'_, '_>", "params", "&a"),
    "PPR": ("PP", "r", "&pavex::request::path::RawPathParams<'_, '_>", "params", "a"),
    "MPV": ("MP", "v", "pavex::request::path::MatchedPathPattern", "matched", "&a"),
    "MPR": ("MP", "r", "&pavex::request::path::MatchedPathPattern", "matched", "a"),
    "AMV": ("AM", "v", "pavex::router::AllowedMethods", "allowed", "&a"),
    "AMR": ("AM", "r", "&pavex::router::AllowedMethods", "allowed", "a"),
}

FWRT = r'''
/// Trace events of the FW family: what a consumer of a framework-provided input saw.
pub mod fwrt {
    use crate::rt;
    pub fn head(id: &str, item: &str, h: &pavex::request::RequestHead) {
        rt::ev(format!("fwsee {id} {item} m={} p={}", h.method, h.target.path()));
    }
    pub fn conn(id: &str, item: &str, c: &pavex::connection::ConnectionInfo) {
        rt::ev(format!("fwsee {id} {item} peer={}", c.peer_addr().ip()));
    }
    pub fn body(id: &str, item: &str, _b: &pavex::request::body::RawIncomingBody) {
        rt::ev(format!("fwsee {id} {item} body=1"));
    }
    pub fn params(id: &str, item: &str, p: &pavex::request::path::RawPathParams<'_, '_>) {
        let mut v: Vec<String> = p.iter().map(|(k, v)| format!("{k}={}", v.as_str())).collect();
        v.sort();
        rt::ev(format!("fwsee {id} {item} params={}", v.join("&")));
    }
    pub fn matched(id: &str, item: &str, m: &pavex::request::path::MatchedPathPattern) {
        rt::ev(format!("fwsee {id} {item} mp={}", m.inner()));
    }
    pub fn allowed(id: &str, item: &str, am: &pavex::router::AllowedMethods) {
        let s = match am {
            pavex::router::AllowedMethods::Some(l) => { let mut v: Vec<String> = l.iter().map(|m| m.to_string()).collect(); v.sort(); v.join("+") }
            pavex::router::AllowedMethods::All => "ALL".to_string(),
        };
        rt::ev(format!("fwsee {id} {item} am={s}"));
    }
}
'''


def gen(w, catalog):
    w(FWRT)

    def see(ident, ik):
        if ik == "0":
            return []
        _, _, _, logger, expr = ITEMS[ik]
        return [f"    fwrt::{logger}(\"{ident}\", \"{ik}\", {expr});"]

    def param(ik):
        return [] if ik == "0" else [f"a: {ITEMS[ik][2]}"]

    def reg(ident, kind, macro, ik, **extra):
        d = {"id": ident, "kind": kind, "macro": macro, "inputs": [], "fallible": False, "err": None, "fw_family": True,
             "fw_item": None if ik == "0" else ik}
        d.update(extra)
        catalog.append(d)

    for ik in ITEMS:
        w(f"#[derive(Debug)] pub struct Fwv{ik} {{ pub id: u64 }}")
        name = f"c_fwv_{ik.lower()}"
        ident = name.upper()
        w(f"#[pavex::request_scoped(id = \"{ident}\")]")
        w(f"pub fn {name}({', '.join(param(ik))}) -> Fwv{ik} {{")
        for l in see(ident, ik):
            w(l)
        w(f"    Fwv{ik} {{ id: rt::new_value(\"Fwv{ik}\", \"{ident}\", &[]) }}")
        w("}")
        reg(ident, "ctor", "constructor", ik, out=f"Fwv{ik}", **{"async": False})
    w()

    for lv in LEVELS:
        l = lv.lower()
        # plain handler and the fallible handler (no framework inputs)
        name, ident = f"fwpl_{l}", f"FWPL_{lv}"
        w(f"#[pavex::get(path = \"/plain\", id = \"{ident}\")]")
        w(f"pub fn {name}() -> pavex::Response {{ rt::call(\"handler\", \"{ident}\", &[]); rt::respond(\"h\", \"{ident}\") }}")
        reg(ident, "handler", "route", "0", path="/plain", methods=["GET"])
        name, ident = f"fwhf_{l}", f"FWHF_{lv}"
        w(f"#[pavex::get(path = \"/fw/{{x}}\", id = \"{ident}\")]")
        w(f"pub fn {name}() -> Result<pavex::Response, ErrH> {{")
        w(f"    rt::call(\"handler\", \"{ident}\", &[]);")
        w(f"    if rt::fails(\"{ident}\") {{ return Err(ErrH::new(\"{ident}\")); }}")
        w(f"    Ok(rt::respond(\"h\", \"{ident}\"))")
        w("}")
        reg(ident, "handler", "route", "0", path="/fw/{x}", methods=["GET"], fallible=True, err="ErrH")
        for ik in ["0"] + list(ITEMS):
            s = ik.lower()
            # handler
            name = f"fwh_{l}_{s}"
            ident = name.upper()
            w(f"#[pavex::get(path = \"/fw/{{x}}\", id = \"{ident}\")]")
            w(f"pub fn {name}({', '.join(param(ik))}) -> pavex::Response {{")
            w(f"    rt::call(\"handler\", \"{ident}\", &[]);")
            for x in see(ident, ik):
                w(x)
            w(f"    rt::respond(\"h\", \"{ident}\")")
            w("}")
            reg(ident, "handler", "route", ik, path="/fw/{x}", methods=["GET"])
            # fallback
            name = f"fwfb_{l}_{s}"
            ident = name.upper()
            w(f"#[pavex::fallback(id = \"{ident}\")]")
            w(f"pub fn {name}({', '.join(param(ik))}) -> pavex::Response {{")
            w(f"    rt::call(\"fallback\", \"{ident}\", &[]);")
            for x in see(ident, ik):
                w(x)
            w(f"    rt::respond_status(\"fb\", \"{ident}\", 470)")
            w("}")
            reg(ident, "fallback", "fallback", ik)
            # pre
            name = f"fwpre_{l}_{s}"
            ident = name.upper()
            w(f"#[pavex::pre_process(id = \"{ident}\")]")
            w(f"pub fn {name}({', '.join(param(ik))}) -> pavex::middleware::Processing {{")
            w(f"    rt::call(\"pre\", \"{ident}\", &[]);")
            for x in see(ident, ik):
                w(x)
            w("    pavex::middleware::Processing::Continue")
            w("}")
            reg(ident, "pre", "pre_process", ik)
            # post
            name = f"fwpost_{l}_{s}"
            ident = name.upper()
            w(f"#[pavex::post_process(id = \"{ident}\")]")
            w(f"pub fn {name}({', '.join(['resp: pavex::Response'] + param(ik))}) -> pavex::Response {{")
            w(f"    rt::call(\"post\", \"{ident}\", &[]);")
            for x in see(ident, ik):
                w(x)
            w("    resp")
            w("}")
            reg(ident, "post", "post_process", ik)
            # wrap
            name = f"fwwrap_{l}_{s}"
            ident = name.upper()
            w(f"#[pavex::wrap(id = \"{ident}\")]")
            w(f"pub async fn {name}<C>({', '.join(['next: pavex::middleware::Next<C>'] + param(ik))}) -> pavex::Response")
            w("where C: std::future::IntoFuture<Output = pavex::Response> {")
            w(f"    rt::call(\"wrap\", \"{ident}\", &[]);")
            for x in see(ident, ik):
                w(x)
            w("    let resp = next.await;")
            w(f"    rt::ev(format!(\"wrapexit {ident}\"));")
            w("    resp")
            w("}")
            reg(ident, "wrap", "wrap", ik)
            # error handler for ErrH, error observer
            name = f"fweh_{l}_{s}"
            ident = name.upper()
            w(f"#[pavex::error_handler(id = \"{ident}\")]")
            w(f"pub fn {name}({', '.join(['#[px(error_ref)] e: &ErrH'] + param(ik))}) -> pavex::Response {{")
            w(f"    rt::call_err(\"eh\", \"{ident}\", &e.to_string(), &[]);")
            for x in see(ident, ik):
                w(x)
            w(f"    rt::respond_status(\"eh\", \"{ident}\", 510)")
            w("}")
            reg(ident, "eh", "error_handler", ik, err="ErrH")
            if ik != "0":
                name = f"fwobs_{l}_{s}"
                ident = name.upper()
                w(f"#[pavex::error_observer(id = \"{ident}\")]")
                w(f"pub fn {name}({', '.join(['e: &pavex::Error'] + param(ik))}) {{")
                w(f"    rt::call_err(\"obs\", \"{ident}\", &e.to_string(), &[]);")
                for x in see(ident, ik):
                    w(x)
                w("}")
                reg(ident, "obs", "error_observer", ik)
                # consumers of the marker type built by C_FWV_<I>
                name = f"fwhv_{l}_{s}"
                ident = name.upper()
                w(f"#[pavex::get(path = \"/fw/{{x}}\", id = \"{ident}\")]")
                w(f"pub fn {name}(v: &Fwv{ik}) -> pavex::Response {{")
                w(f"    rt::call(\"handler\", \"{ident}\", &[rt::tag(\"Fwv{ik}\", v.id, v.id, \"C_FWV_{ik}\", false)]);")
                w(f"    rt::respond(\"h\", \"{ident}\")")
                w("}")
                reg(ident, "handler", "route", "0", path="/fw/{x}", methods=["GET"], fw_via_ctor=ik)
                name = f"fwfbv_{l}_{s}"
                ident = name.upper()
                w(f"#[pavex::fallback(id = \"{ident}\")]")
                w(f"pub fn {name}(v: &Fwv{ik}) -> pavex::Response {{")
                w(f"    rt::call(\"fallback\", \"{ident}\", &[rt::tag(\"Fwv{ik}\", v.id, v.id, \"C_FWV_{ik}\", false)]);")
                w(f"    rt::respond_status(\"fb\", \"{ident}\", 470)")
                w("}")
                reg(ident, "fallback", "fallback", "0", fw_via_ctor=ik)
        w()
