"""Family `ehdep` (C08, C09): an error handler whose EXTRA input (besides the error reference) has no constructor.
"Missing constructor" is one of the documented rules of C08 for every kind of component; error handlers are the kind the
plant family did not reach (they are transformers, not user components, inside pavexc). For every fallible component kind
(handler, pre / post / wrapping middleware, constructor) x {error handler registered on the blueprint, attached at the
registration} x {the missing type is T0P, T1P}: the blueprint must be rejected with an error diagnostic and without an SDK."""
import itertools

import oracles as O

FAM = "ehdep"
ERR_OF = {"handler": "ERRH", "pre": "ERRPRE", "post": "ERRPOST", "wrap": "ERRW", "ctor": "ERRC"}


def specs(tier):
    out = []
    for kind, where, missing in itertools.product(ERR_OF, ("blueprint", "attached"), ("T0P", "T1P")):
        err = ERR_OF[kind]
        code = "PR" if missing == "T0P" else "0_PR"
        eh = f"EH_{err}_{1 if where == 'blueprint' else 2}__{code}"
        ops = []
        att = {"eh": eh} if where == "attached" else {}
        if where == "blueprint":
            ops.append({"k": "eh", "c": eh})
        if kind == "handler":
            ops.append(dict({"k": "route", "c": "H0__0_0_0__F"}, **att))
        elif kind == "ctor":
            # the failing constructor builds T2 (so that neither T0P nor T1P is registered)
            ops.append(dict({"k": "ctor", "c": "C_T2P__0_0__F", "lc": "request_scoped"}, **att))
            ops.append({"k": "route", "c": "H0__0_0_PR__I"})
        else:
            ops.append(dict({"k": kind, "c": f"{kind.upper()}1__0_0__F"}, **att))
            ops.append({"k": "route", "c": "H0__0_0_0__I"})
        out.append({"id": f"ehdep_{kind}_{where}_{missing}", "family": FAM, "bp": {"ops": ops}, "requests": [],
                    "ehdep": {"kind": kind, "where": where, "missing": missing}})
    return out


def observe(tier):
    import lib_e2e as L
    import orchestrator
    sp = specs(tier)
    o = orchestrator.observe_specs(sp, f"{L.E2E_WORK}/{FAM}-{tier}", with_run=False)
    o["specs"] = sp
    o["built_specs"] = [s for s in sp if s["id"] in o["build"]]
    o["singles_gen"] = o["gen"]
    o["packs_gen"] = {}
    return o


def oracle_c08(obs, rep, tier):
    o = obs.get(FAM) or {}
    n = 0
    for spec in o.get("specs", []):
        g = o["gen"][spec["id"]]
        n += 1
        m = spec.get("ehdep") or {}
        if g["exit"] == 0:
            rep.violation(f"{FAM}:accepted:{m.get('kind')}:{m.get('where')}",
                          f"{spec['id']}: the error handler needs `{m.get('missing')}`, which has no constructor, yet pavexc accepted the blueprint",
                          {"oracle": "C08", "spec": spec})
        elif g["panic"] or g["n_error"] == 0:
            # C08 wants a rejection WITH a diagnostic; a panic is C09's finding and is reported there
            pass
        if g["exit"] != 0 and g.get("sdk_changed_files"):
            rep.violation(f"{FAM}:sdk-written", f"{spec['id']}: rejected, but the SDK on disk changed: {g['sdk_changed_files']}", {"oracle": "C08", "spec": spec})
    cov = {"evaluations": n, "distinct_nontrivial": n, "exhaustive": True,
           "rule": "ehdep: fallible component kind x {blueprint-level, attached} error handler x missing extra input {T0P, T1P}: rejected, no SDK"}
    return "exploration", cov, []


PROPERTIES = {"C08": (lambda tier: [FAM], oracle_c08), "C09": (lambda tier: [FAM], O.oracle_c09)}
