"""Extra verif_app components for the BADSIG family (property C09) -- loaded by gen_app.py (see EXTENDING.md).

Part A: components whose *signature* breaks a rule of their component kind but that still compile as Rust under
the pavex attribute macros (the macros only check visibility and, for error handlers, that there is at least one
input and that one of several inputs is marked `#[px(error_ref)]`; everything else is left to pavexc).
Every such component carries a `badsig` record in the catalog:
    {"fault": <name>, "kind": <component kind>, "core": bool (named in the task statement -> gets more positions in
     the quick tier), "doc": <key into fam_badsig.DOC or None>, "needs": [constructor ids its injected inputs need],
     "consumer": <id of a /bs handler that injects the produced type, constructors/prebuilts only>}
fam_badsig.py reads the fault list from the catalog, so it is defined only here.

Part B: five more types T3..T7 (flavours P / K / Y like T0..T2) for ownership stalemates:
    cell 1: A = T0f, B = T1f (existing root constructors), C = T2P <- (A, B) (existing), D = T3P <- (A, B)   (new)
    cell 2: A2 = T4f, B2 = T5f (new root constructors), C2 = T6P <- (A2, B2), D2 = T7P <- (A2, B2)            (new)
    constructors C_T3P__<a>_<b>__S, C_T6P__<a>_<b>__S, C_T7P__<a>_<b>__S for the full product of per-input
    {absent, by value, by reference} x flavour (49 each), C_T4f__0__S / C_T5f__0__S;
    handlers  HT__<a>_<b>_<c>_<d>__I  (one cell; a, b = direct use of A / B: absent or flavour x {v, r}; c, d in {v, r})
              HB__<c>_<d>_<c2>_<d2>__I (two cells; every input in {absent, v, r})
Bodies are instrumentation only, as everywhere in verif_app.
"""
import itertools

FLAV = ["P", "K", "Y"]
RESP = "pavex::Response"
NEXT_WHERE = "where C: std::future::IntoFuture<Output = pavex::Response>"


def in_code(inp):
    return "0" if inp is None else (inp[0] + inp[1]).lower()


def mode_ty(ty, mode):
    return {"v": ty, "r": f"&{ty}", "m": f"&mut {ty}"}[mode]


# ----------------------------------------------------------------------------------------------------------------
# part A
# ----------------------------------------------------------------------------------------------------------------
def part_a(w, catalog):
    w("""
// ---- support types
#[derive(Debug)] pub struct NotResp(pub u8);
#[derive(Debug)] pub struct BsT(pub u8);
pub static BS_STATIC: BsT = BsT(0);
pub static BS_NOTRESP: NotResp = NotResp(0);
#[derive(Debug)] pub struct BsG<T>(pub T);
#[derive(Debug)] pub struct BsArr<const N: usize>(pub [u8; N]);
pub trait BsTrait { fn bs(&self) -> u8 { 0 } }
impl BsTrait for BsT {}
pub trait BsAssoc { type Out; }
impl BsAssoc for BsT { type Out = u8; }
#[derive(Debug)] pub struct BsGErr<T>(pub T);
impl<T: std::fmt::Debug> std::fmt::Display for BsGErr<T> { fn fmt(&self, f: &mut std::fmt::Formatter<'_>) -> std::fmt::Result { write!(f, "BsGErr") } }
impl<T: std::fmt::Debug> std::error::Error for BsGErr<T> {}
""")

    def add(cid, kind, macro, fault, rust, core=False, doc=None, needs=(), consumer=None, fallible=False, err=None, **extra):
        assert cid == cid.upper()
        w(rust.replace("@ID", cid).replace("@fn", cid.lower()))
        d = {"id": cid, "kind": kind, "macro": macro, "inputs": [], "fallible": fallible, "err": err,
             "badsig": {"fault": fault, "kind": kind, "core": core, "doc": doc, "needs": list(needs), "consumer": consumer}}
        if kind in ("handler",):
            d.update({"path": "/bs", "methods": ["GET"]})
        d.update(extra)
        catalog.append(d)

    T0 = ["C_T0P__0__S"]

    # ---- consumers (valid components; they make a faulty constructor / prebuilt type *used*)
    for cid, sig in [("BS_H_USE_BST_R", "_a: &BsT"), ("BS_H_USE_BST_V", "_a: BsT"), ("BS_H_USE_RH", "_a: &pavex::request::RequestHead"),
                     ("BS_H_USE_PBL", "_a: &BsPbL<'static>"), ("BS_H_USE_PBG", "_a: &BsPbG<u8>"), ("BS_H_USE_PBE", "_a: &BsPbE"),
                     ("BS_H_USE_TUPLE", "_a: &(BsT, BsT)"), ("BS_H_USE_U8", "_a: &u8"), ("BS_H_USE_ARR", "_a: &BsArr<3>"),
                     ("BS_H_USE_MAP", "_a: &std::collections::HashMap<u8, u8>"), ("BS_H_USE_STRING", "_a: &String"),
                     ("BS_H_USE_BSG", "_a: &BsG<u8>")]:
        w(f"#[pavex::get(path = \"/bs\", id = \"{cid}\")] pub fn {cid.lower()}({sig}) -> {RESP} {{ rt::respond(\"h\", \"{cid}\") }}")
        catalog.append({"id": cid, "kind": "handler", "macro": "route", "inputs": [], "fallible": False, "err": None, "path": "/bs",
                        "methods": ["GET"], "badsig_support": True})

    # ---- constructors
    C = "#[pavex::request_scoped(id = \"@ID\")] pub "
    ctor = lambda cid, fault, body, **kw: add(cid, "ctor", "constructor", fault, C + body, **kw)
    ctor("BS_C_UNIT", "returns_unit", "fn @fn() {}", core=True, doc="ctor_output")
    ctor("BS_C_OK_UNIT", "returns_ok_unit", "fn @fn() -> Result<(), ErrC> { Ok(()) }", core=True, doc="ctor_output", fallible=True, err="ErrC")
    ctor("BS_C_ASYNC_UNIT", "async_returns_unit", "async fn @fn() {}", core=True, doc="ctor_output")
    ctor("BS_C_STATIC_REF", "returns_static_ref", "fn @fn() -> &'static BsT { &BS_STATIC }", core=True, consumer="BS_H_USE_BST_R")
    ctor("BS_C_OK_STATIC_REF", "returns_ok_static_ref", "fn @fn() -> Result<&'static BsT, ErrC> { Ok(&BS_STATIC) }", consumer="BS_H_USE_BST_R",
         fallible=True, err="ErrC")
    ctor("BS_C_BORROWED_REF", "returns_borrowed_ref", "fn @fn<'a>(a: &'a T0P) -> &'a u64 { &a.id }", needs=T0)
    ctor("BS_C_NAKED_GENERIC", "returns_naked_generic", "fn @fn<T: Default>() -> T { T::default() }", core=True, doc="ctor_naked_generic",
         consumer="BS_H_USE_U8")
    ctor("BS_C_IMPL_TRAIT", "returns_impl_trait", "fn @fn() -> impl std::fmt::Debug { 0u8 }", core=True)
    ctor("BS_C_UNCONSTRAINED", "unconstrained_generic_input", "fn @fn<T>(_t: &BsG<T>) -> BsT { BsT(0) }", core=True, doc="ctor_generics_output_driven",
         consumer="BS_H_USE_BST_R")
    ctor("BS_C_NAKED_GENERIC_INPUT", "naked_generic_input", "fn @fn<T>(_t: T) -> BsT { BsT(0) }", doc="ctor_generics_output_driven",
         consumer="BS_H_USE_BST_R")
    ctor("BS_C_MUT_INPUT", "mut_ref_input", "fn @fn(_a: &mut T0P) -> BsT { BsT(0) }", core=True, doc="ctor_no_mut", needs=T0,
         consumer="BS_H_USE_BST_R")
    ctor("BS_C_ASYNC_MUT_INPUT", "async_mut_ref_input", "async fn @fn(_a: &mut T0P) -> BsT { BsT(0) }", doc="ctor_no_mut", needs=T0,
         consumer="BS_H_USE_BST_V")
    ctor("BS_C_REQUEST_HEAD", "framework_type", "fn @fn() -> pavex::request::RequestHead { unimplemented!() }", core=True,
         doc="framework_primitives", consumer="BS_H_USE_RH")
    ctor("BS_C_REF_REQUEST_HEAD", "ref_framework_type", "fn @fn() -> &'static pavex::request::RequestHead { unimplemented!() }",
         doc="framework_primitives", consumer="BS_H_USE_RH")
    ctor("BS_C_PAVEX_ERROR", "returns_pavex_error", "fn @fn() -> pavex::Error { unimplemented!() }")
    ctor("BS_C_PAVEX_RESPONSE", "returns_pavex_response", "fn @fn() -> pavex::Response { pavex::Response::ok() }")
    ctor("BS_C_NEVER", "returns_never", "fn @fn() -> ! { loop {} }")
    ctor("BS_C_TUPLE", "returns_tuple", "fn @fn() -> (BsT, BsT) { (BsT(0), BsT(1)) }", consumer="BS_H_USE_TUPLE")
    ctor("BS_C_BOX_DYN", "returns_box_dyn", "fn @fn() -> Box<dyn BsTrait> { Box::new(BsT(0)) }")
    ctor("BS_C_FN_PTR", "returns_fn_pointer", "fn @fn() -> fn() -> u8 { || 0 }")
    ctor("BS_C_SLICE_REF", "returns_slice_ref", "fn @fn() -> &'static [u8] { &[] }")
    ctor("BS_C_ARRAY", "returns_array", "fn @fn() -> [u8; 4] { [0; 4] }")
    ctor("BS_C_RAW_PTR", "returns_raw_pointer", "fn @fn() -> *const u8 { std::ptr::null() }")
    ctor("BS_C_ASSOC_TYPE", "returns_associated_type", "fn @fn() -> <BsT as BsAssoc>::Out { 0 }", consumer="BS_H_USE_U8")
    ctor("BS_C_CONST_GENERIC", "returns_const_generic", "fn @fn() -> BsArr<3> { BsArr([0; 3]) }", consumer="BS_H_USE_ARR")
    ctor("BS_C_IN_FN_PTR", "fn_pointer_input", "fn @fn(_x: fn() -> u8) -> BsT { BsT(0) }", consumer="BS_H_USE_BST_R")
    ctor("BS_C_IN_DYN", "dyn_ref_input", "fn @fn(_x: &dyn BsTrait) -> BsT { BsT(0) }", consumer="BS_H_USE_BST_R")
    ctor("BS_C_IN_IMPL", "impl_trait_input", "fn @fn(_x: impl BsTrait) -> BsT { BsT(0) }", consumer="BS_H_USE_BST_R")
    ctor("BS_C_ERR_NOT_ERROR", "error_type_is_not_an_error", "fn @fn() -> Result<BsT, NotResp> { Ok(BsT(0)) }", consumer="BS_H_USE_BST_R",
         fallible=True, err="NotResp")
    ctor("BS_C_ERR_GENERIC", "generic_error_type", "fn @fn<E>() -> Result<BsT, E> { Ok(BsT(0)) }", consumer="BS_H_USE_BST_R", fallible=True,
         err="E")

    # ---- request handlers (GET /bs)
    H = "#[pavex::get(path = \"/bs\", id = \"@ID\")] pub "
    hnd = lambda cid, fault, body, **kw: add(cid, "handler", "route", fault, H + body, **kw)
    hnd("BS_H_UNIT", "returns_unit", "fn @fn() {}", core=True, doc="into_response")
    hnd("BS_H_OK_UNIT", "returns_ok_unit", "fn @fn() -> Result<(), ErrH> { Ok(()) }", core=True, doc="into_response", fallible=True, err="ErrH")
    hnd("BS_H_ASYNC_UNIT", "async_returns_unit", "async fn @fn() {}", core=True, doc="into_response")
    hnd("BS_H_NOT_RESP", "returns_non_into_response", "fn @fn() -> NotResp { NotResp(0) }", core=True, doc="into_response")
    hnd("BS_H_OK_NOT_RESP", "returns_ok_non_into_response", "fn @fn() -> Result<NotResp, ErrH> { Ok(NotResp(0)) }", core=True, doc="into_response",
        fallible=True, err="ErrH")
    hnd("BS_H_REF_NOT_RESP", "returns_ref_non_into_response", "fn @fn() -> &'static NotResp { &BS_NOTRESP }", doc="into_response")
    hnd("BS_H_ERR_NOT_ERROR", "error_type_is_not_an_error", f"fn @fn() -> Result<{RESP}, NotResp> {{ Ok({RESP}::ok()) }}", fallible=True, err="NotResp")
    hnd("BS_H_ERR_GENERIC", "generic_error_type", f"fn @fn<E>() -> Result<{RESP}, E> {{ Ok({RESP}::ok()) }}", fallible=True, err="E")
    hnd("BS_H_IMPL_TRAIT", "returns_impl_trait", f"fn @fn() -> impl pavex::IntoResponse {{ {RESP}::ok() }}")
    hnd("BS_H_GENERIC_OUT", "returns_naked_generic", "fn @fn<T: pavex::IntoResponse + Default>() -> T { T::default() }")
    hnd("BS_H_NEVER", "returns_never", "fn @fn() -> ! { loop {} }")
    hnd("BS_H_GENERIC_INPUT", "unconstrained_generic_input", f"fn @fn<T>(_t: T) -> {RESP} {{ {RESP}::ok() }}", core=True, doc="no_generics")
    hnd("BS_H_GENERIC_INPUT2", "unconstrained_generic_input_nested", f"fn @fn<T>(_t: &BsG<T>) -> {RESP} {{ {RESP}::ok() }}")
    hnd("BS_H_IN_FN_PTR", "fn_pointer_input", f"fn @fn(_x: fn() -> u8) -> {RESP} {{ {RESP}::ok() }}")
    hnd("BS_H_IN_DYN", "dyn_ref_input", f"fn @fn(_x: &dyn BsTrait) -> {RESP} {{ {RESP}::ok() }}")
    hnd("BS_H_IN_IMPL", "impl_trait_input", f"fn @fn(_x: impl BsTrait) -> {RESP} {{ {RESP}::ok() }}")
    hnd("BS_H_IN_TUPLE", "tuple_input", f"fn @fn(_x: (u8, u8)) -> {RESP} {{ {RESP}::ok() }}")
    hnd("BS_H_IN_SLICE", "slice_ref_input", f"fn @fn(_x: &[u8]) -> {RESP} {{ {RESP}::ok() }}")
    hnd("BS_H_IN_STATIC_REF", "static_ref_input", f"fn @fn(_a: &'static T0P) -> {RESP} {{ {RESP}::ok() }}", needs=T0)
    hnd("BS_H_IN_NEXT", "next_input", f"fn @fn<C>(_n: pavex::middleware::Next<C>) -> {RESP} {NEXT_WHERE} {{ {RESP}::ok() }}")
    hnd("BS_H_IN_RESPONSE", "response_input", f"fn @fn(r: {RESP}) -> {RESP} {{ r }}")
    hnd("BS_H_IN_ERROR", "pavex_error_input", f"fn @fn(_e: &pavex::Error) -> {RESP} {{ {RESP}::ok() }}")
    hnd("BS_H_MUT_FRAMEWORK", "mut_ref_framework_type_input", f"fn @fn(_h: &mut pavex::request::RequestHead) -> {RESP} {{ {RESP}::ok() }}")

    # ---- pre-processing middlewares
    PROC = "pavex::middleware::Processing"
    P = "#[pavex::pre_process(id = \"@ID\")] pub "
    pre = lambda cid, fault, body, **kw: add(cid, "pre", "pre_process", fault, P + body, **kw)
    pre("BS_PRE_UNIT", "returns_unit", "fn @fn() {}", core=True, doc="pre_output")
    pre("BS_PRE_OK_UNIT", "returns_ok_unit", "fn @fn() -> Result<(), ErrPre> { Ok(()) }", core=True, doc="pre_output", fallible=True, err="ErrPre")
    pre("BS_PRE_ASYNC_UNIT", "async_returns_unit", "async fn @fn() {}", doc="pre_output")
    pre("BS_PRE_RESPONSE", "returns_response_not_processing", f"fn @fn() -> {RESP} {{ {RESP}::ok() }}", core=True, doc="pre_output")
    pre("BS_PRE_OK_RESPONSE", "returns_ok_response_not_processing", f"fn @fn() -> Result<{RESP}, ErrPre> {{ Ok({RESP}::ok()) }}", core=True,
        doc="pre_output", fallible=True, err="ErrPre")
    pre("BS_PRE_NOT_RESP", "returns_non_into_response", "fn @fn() -> NotResp { NotResp(0) }", core=True, doc="pre_output")
    # (`Processing<NotResp>` does not compile: the enum itself carries the bound `T: IntoResponse`)
    pre("BS_PRE_GENERIC_INPUT", "unconstrained_generic_input", f"fn @fn<T>(_t: T) -> {PROC} {{ {PROC}::Continue }}", core=True, doc="no_generics")
    pre("BS_PRE_NEVER", "returns_never", "fn @fn() -> ! { loop {} }")
    pre("BS_PRE_IN_NEXT", "next_input", f"fn @fn<C>(_n: pavex::middleware::Next<C>) -> {PROC} {NEXT_WHERE} {{ {PROC}::Continue }}")
    pre("BS_PRE_IN_RESPONSE", "response_input", f"fn @fn(_r: {RESP}) -> {PROC} {{ {PROC}::Continue }}")

    # ---- post-processing middlewares
    Q = "#[pavex::post_process(id = \"@ID\")] pub "
    post = lambda cid, fault, body, **kw: add(cid, "post", "post_process", fault, Q + body, **kw)
    post("BS_POST_UNIT", "returns_unit", f"fn @fn(_r: {RESP}) {{}}", core=True, doc="post_output")
    post("BS_POST_OK_UNIT", "returns_ok_unit", f"fn @fn(_r: {RESP}) -> Result<(), ErrPost> {{ Ok(()) }}", core=True, doc="post_output", fallible=True,
         err="ErrPost")
    post("BS_POST_ASYNC_UNIT", "async_returns_unit", f"async fn @fn(_r: {RESP}) {{}}", doc="post_output")
    post("BS_POST_NO_RESPONSE", "no_response_input", f"fn @fn() -> {RESP} {{ {RESP}::ok() }}", core=True, doc="post_response_input")
    post("BS_POST_TWO_RESPONSES", "two_response_inputs", f"fn @fn(r: {RESP}, _s: {RESP}) -> {RESP} {{ r }}", core=True)
    post("BS_POST_REF_RESPONSE", "response_by_reference", f"fn @fn(_r: &{RESP}) -> {RESP} {{ {RESP}::ok() }}", doc="post_response_input")
    post("BS_POST_MUT_RESPONSE", "response_by_mut_reference", f"fn @fn(_r: &mut {RESP}) -> {RESP} {{ {RESP}::ok() }}", doc="post_response_input")
    post("BS_POST_NOT_RESP", "returns_non_into_response", f"fn @fn(_r: {RESP}) -> NotResp {{ NotResp(0) }}", core=True, doc="post_output")
    post("BS_POST_GENERIC_INPUT", "unconstrained_generic_input", f"fn @fn<T>(r: {RESP}, _t: T) -> {RESP} {{ r }}", core=True, doc="no_generics")
    post("BS_POST_PROCESSING", "returns_processing", f"fn @fn(_r: {RESP}) -> {PROC} {{ {PROC}::Continue }}")
    post("BS_POST_NEVER", "returns_never", f"fn @fn(_r: {RESP}) -> ! {{ loop {{}} }}")

    # ---- wrapping middlewares
    NX = "pavex::middleware::Next"
    W = "#[pavex::wrap(id = \"@ID\")] pub "
    wrap = lambda cid, fault, body, **kw: add(cid, "wrap", "wrap", fault, W + body, **kw)
    wrap("BS_WRAP_UNIT", "returns_unit", f"async fn @fn<C>(next: {NX}<C>) {NEXT_WHERE} {{ next.await; }}", core=True, doc="wrap_output")
    wrap("BS_WRAP_OK_UNIT", "returns_ok_unit", f"async fn @fn<C>(next: {NX}<C>) -> Result<(), ErrW> {NEXT_WHERE} {{ next.await; Ok(()) }}", core=True,
         doc="wrap_output", fallible=True, err="ErrW")
    wrap("BS_WRAP_NO_NEXT", "no_next_input", f"async fn @fn() -> {RESP} {{ {RESP}::ok() }}", core=True, doc="wrap_next_input")
    wrap("BS_WRAP_TWO_NEXT", "two_next_inputs", f"async fn @fn<C>(next: {NX}<C>, _n2: {NX}<C>) -> {RESP} {NEXT_WHERE} {{ next.await }}", core=True)
    wrap("BS_WRAP_TWO_NEXT_DISTINCT", "two_next_inputs_distinct_generics",
         f"async fn @fn<C, D>(next: {NX}<C>, _n2: {NX}<D>) -> {RESP} {NEXT_WHERE}, D: std::future::IntoFuture<Output = {RESP}> {{ next.await }}")
    wrap("BS_WRAP_NEXT_CONCRETE", "next_with_concrete_parameter", f"async fn @fn(next: {NX}<std::future::Ready<{RESP}>>) -> {RESP} {{ next.await }}")
    wrap("BS_WRAP_REF_NEXT", "next_by_reference", f"async fn @fn<C>(_next: &{NX}<C>) -> {RESP} {NEXT_WHERE} {{ {RESP}::ok() }}", doc="wrap_next_input")
    wrap("BS_WRAP_MUT_INPUT", "mut_ref_input", f"async fn @fn<C>(next: {NX}<C>, _a: &mut T0P) -> {RESP} {NEXT_WHERE} {{ next.await }}", core=True, needs=T0)
    wrap("BS_WRAP_EXTRA_GENERIC", "unconstrained_generic_input", f"async fn @fn<C, T>(next: {NX}<C>, _t: &BsG<T>) -> {RESP} {NEXT_WHERE} {{ next.await }}",
         core=True)
    wrap("BS_WRAP_NOT_RESP", "returns_non_into_response", f"async fn @fn<C>(next: {NX}<C>) -> NotResp {NEXT_WHERE} {{ next.await; NotResp(0) }}", core=True,
         doc="wrap_output")
    wrap("BS_WRAP_SYNC", "not_async", f"fn @fn<C>(_next: {NX}<C>) -> {RESP} {NEXT_WHERE} {{ {RESP}::ok() }}")
    wrap("BS_WRAP_NEVER", "returns_never", f"async fn @fn<C>(_next: {NX}<C>) -> ! {NEXT_WHERE} {{ loop {{}} }}")

    # ---- error handlers (for the error type of handlers, ErrH, and of constructors, ErrC)
    E = "#[pavex::error_handler(id = \"@ID\")] pub "
    for ety in ("ErrH", "ErrC"):
        u = ety.upper()
        eh = lambda cid, fault, body, **kw: add(cid.replace("@E", u), "eh", "error_handler", fault, (E + body).replace("@ety", ety), err=ety, **kw)
        core = ety == "ErrH"
        eh("BS_EH_@E_UNIT", "returns_unit", "fn @fn(_e: &@ety) {}", core=core, doc="eh_into_response")
        eh("BS_EH_@E_ASYNC_UNIT", "async_returns_unit", "async fn @fn(_e: &@ety) {}", doc="eh_into_response")
        eh("BS_EH_@E_RESULT", "returns_result", f"fn @fn(_e: &@ety) -> Result<{RESP}, ErrX> {{ Ok({RESP}::ok()) }}", core=core, doc="eh_infallible")
        eh("BS_EH_@E_BY_VALUE", "error_by_value", f"fn @fn(_e: @ety) -> {RESP} {{ {RESP}::ok() }}", core=core, doc="eh_error_ref")
        eh("BS_EH_@E_MUT_ERROR_REF", "error_by_mut_reference", f"fn @fn(_e: &mut @ety) -> {RESP} {{ {RESP}::ok() }}", core=core, doc="eh_error_ref")
        eh("BS_EH_@E_STATIC_REF", "error_by_static_reference", f"fn @fn(_e: &'static @ety) -> {RESP} {{ {RESP}::ok() }}")
        eh("BS_EH_@E_MUT_INPUT", "mut_ref_input", f"fn @fn(#[px(error_ref)] _e: &@ety, _a: &mut T0P) -> {RESP} {{ {RESP}::ok() }}", core=core, needs=T0)
        eh("BS_EH_@E_GENERIC_INPUT", "unconstrained_generic_input", f"fn @fn<T>(#[px(error_ref)] _e: &@ety, _t: &BsG<T>) -> {RESP} {{ {RESP}::ok() }}",
           core=core)
        eh("BS_EH_@E_NOT_RESP", "returns_non_into_response", "fn @fn(_e: &@ety) -> NotResp { NotResp(0) }", core=core, doc="eh_into_response")
        eh("BS_EH_@E_WRONG_MARK", "error_ref_marks_another_input", f"fn @fn(_e: &@ety, #[px(error_ref)] _a: &T0P) -> {RESP} {{ {RESP}::ok() }}",
           needs=T0)
        eh("BS_EH_@E_NEVER", "returns_never", "fn @fn(_e: &@ety) -> ! { loop {} }")
    add("BS_EH_NO_ERROR_REF", "eh", "error_handler", "no_error_reference", E + f"fn @fn(_a: T0P) -> {RESP} {{ {RESP}::ok() }}", core=True,
        doc="eh_error_ref", needs=T0, err="T0P")
    add("BS_EH_GENERIC_ERROR", "eh", "error_handler", "generic_error_type", E + f"fn @fn<T>(_e: &BsGErr<T>) -> {RESP} {{ {RESP}::ok() }}", err="BsGErr<T>")
    add("BS_EH_NAKED_GENERIC_ERROR", "eh", "error_handler", "naked_generic_error_type", E + f"fn @fn<T>(_e: &T) -> {RESP} {{ {RESP}::ok() }}", err="T")

    # ---- error observers
    O = "#[pavex::error_observer(id = \"@ID\")] pub "
    obs = lambda cid, fault, body, **kw: add(cid, "obs", "error_observer", fault, O + body, **kw)
    obs("BS_OBS_RETURNS_VALUE", "returns_value", "fn @fn(_e: &pavex::Error) -> u8 { 0 }", core=True, doc="obs_no_output")
    obs("BS_OBS_ASYNC_RETURNS_VALUE", "async_returns_value", "async fn @fn(_e: &pavex::Error) -> u8 { 0 }", doc="obs_no_output")
    obs("BS_OBS_RESULT", "returns_result", "fn @fn(_e: &pavex::Error) -> Result<(), ErrX> { Ok(()) }", core=True, doc="obs_infallible")
    obs("BS_OBS_NO_ERROR", "no_error_input", "fn @fn() {}", core=True, doc="obs_error_input")
    obs("BS_OBS_BY_VALUE", "error_by_value", "fn @fn(_e: pavex::Error) {}", core=True, doc="obs_error_input")
    obs("BS_OBS_MUT_ERROR", "error_by_mut_reference", "fn @fn(_e: &mut pavex::Error) {}", doc="obs_error_input")
    obs("BS_OBS_SPECIFIC_ERROR", "specific_error_type", "fn @fn(_e: &ErrH) {}", doc="obs_error_input")
    obs("BS_OBS_MUT_INPUT", "mut_ref_input", "fn @fn(_e: &pavex::Error, _a: &mut T0P) {}", core=True, needs=T0)
    obs("BS_OBS_GENERIC_INPUT", "unconstrained_generic_input", "fn @fn<T>(_e: &pavex::Error, _t: &BsG<T>) {}", core=True, doc="no_generics")
    obs("BS_OBS_TWO_ERRORS", "two_error_inputs", "fn @fn(_e: &pavex::Error, _f: &pavex::Error) {}")
    obs("BS_OBS_NEVER", "returns_never", "fn @fn(_e: &pavex::Error) -> ! { loop {} }")

    # ---- fallbacks
    F = "#[pavex::fallback(id = \"@ID\")] pub "
    fb = lambda cid, fault, body, **kw: add(cid, "fallback", "fallback", fault, F + body, **kw)
    fb("BS_FB_UNIT", "returns_unit", "fn @fn() {}", core=True, doc="into_response")
    fb("BS_FB_ASYNC_UNIT", "async_returns_unit", "async fn @fn() {}", core=True, doc="into_response")
    fb("BS_FB_OK_UNIT", "returns_ok_unit", "fn @fn() -> Result<(), ErrH> { Ok(()) }", core=True, doc="into_response", fallible=True, err="ErrH")
    fb("BS_FB_NOT_RESP", "returns_non_into_response", "fn @fn() -> NotResp { NotResp(0) }", core=True, doc="into_response")
    fb("BS_FB_OK_NOT_RESP", "returns_ok_non_into_response", "fn @fn() -> Result<NotResp, ErrH> { Ok(NotResp(0)) }", doc="into_response", fallible=True,
       err="ErrH")
    fb("BS_FB_GENERIC_INPUT", "unconstrained_generic_input", f"fn @fn<T>(_t: T) -> {RESP} {{ {RESP}::ok() }}", core=True, doc="no_generics")
    fb("BS_FB_NEVER", "returns_never", "fn @fn() -> ! { loop {} }")

    # ---- prebuilt types
    B = "#[pavex::prebuilt(id = \"@ID\")] pub "
    pb = lambda cid, fault, body, **kw: add(cid, "prebuilt", "prebuilt", fault, B + body, **kw)
    pb("BS_PB_LIFETIME", "lifetime_parameter", "struct BsPbL<'a>(pub &'a str);", core=True, consumer="BS_H_USE_PBL")
    pb("BS_PB_GENERIC", "unassigned_generic_parameter", "struct BsPbG<T>(pub T);", core=True, consumer="BS_H_USE_PBG")
    pb("BS_PB_ENUM", "enum", "enum BsPbE { A, B }", consumer="BS_H_USE_PBE")
    pb("BS_PB_ALIAS", "type_alias", "type BsAlias = BsT;", consumer="BS_H_USE_BST_R")
    pb("BS_PB_ALIAS_GENERIC", "generic_type_alias", "type BsAliasG<T> = BsG<T>;", consumer="BS_H_USE_BSG")
    pb("BS_PB_ALIAS_REF", "type_alias_of_reference", "type BsAliasRef = &'static BsT;", consumer="BS_H_USE_BST_R")
    pb("BS_PB_ALIAS_TUPLE", "type_alias_of_tuple", "type BsAliasTuple = (BsT, BsT);", consumer="BS_H_USE_TUPLE")
    pb("BS_PB_ALIAS_FN", "type_alias_of_fn_pointer", "type BsAliasFn = fn() -> u8;")
    pb("BS_PB_REEXPORT_GENERIC", "reexport_of_generic_std_type", "use std::collections::HashMap as BsMap;", consumer="BS_H_USE_MAP")
    pb("BS_PB_REEXPORT", "reexport_of_std_type", "use std::string::String as BsString;", consumer="BS_H_USE_STRING")
    # the runner's glue builds prebuilt inputs through `Make` (only needed for the members pavexc accepts)
    w("impl crate::Make for BsPbE { fn make() -> Self { BsPbE::A } }")
    w("impl crate::Make for BsT { fn make() -> Self { BsT(0) } }")


# ----------------------------------------------------------------------------------------------------------------
# part B
# ----------------------------------------------------------------------------------------------------------------
NEW_TYPES = ["T3", "T4", "T5", "T6", "T7"]
OPTS = [None] + [(f, m) for f in FLAV for m in ("v", "r")]


def part_b(w, catalog):
    for t in NEW_TYPES:
        for f in FLAV:
            ty = t + f
            w("#[derive(Debug)]" if f != "Y" else "#[derive(Debug, Clone, Copy)]")
            w(f"pub struct {ty} {{ pub id: u64, pub root: u64, pub by: &'static str, pub cloned: bool }}")
            w(f"impl {ty} {{")
            w(f"    pub fn tag(&self) -> String {{ rt::tag(\"{ty}\", self.id, self.root, self.by, self.cloned) }}")
            w(f"    pub fn mk(by: &'static str, ins: &[String]) -> Self {{ let id = rt::new_value(\"{ty}\", by, ins); Self {{ id, root: id, by, cloned: false }} }}")
            w("}")
            if f == "K":
                w(f"impl Clone for {ty} {{")
                w(f"    fn clone(&self) -> Self {{ let id = rt::cloned(\"{ty}\", self.id, self.root, self.by); Self {{ id, root: self.root, by: self.by, cloned: true }} }}")
                w("}")
            w(f"impl crate::Tagged for {ty} {{ fn tagged(&self) -> String {{ self.tag() }} }}")

    def ctor(out_ty, in_types, inputs):
        ps, tags, cat = [], [], []
        for k, (inp, t) in enumerate(zip(inputs, in_types)):
            if inp is None:
                continue
            ty = t + inp[0]
            ps.append(f"a{k}: {mode_ty(ty, inp[1])}")
            tags.append(f"a{k}.tag()")
            cat.append({"type": ty, "mode": inp[1]})
        sig = "_".join(in_code(i) for i in inputs) if inputs else "0"
        name = f"c_{out_ty.lower()}__{sig}__s"
        ident = name.upper()
        tg = "&[" + ", ".join(tags) + "]"
        w(f"#[pavex::request_scoped(id = \"{ident}\")] pub fn {name}({', '.join(ps)}) -> {out_ty} {{ {out_ty}::mk(\"{ident}\", {tg}) }}")
        catalog.append({"id": ident, "kind": "ctor", "macro": "constructor", "out": out_ty, "inputs": cat, "fallible": False, "async": False,
                        "err": None, "badsig_b": True})

    for f in FLAV:
        ctor("T4" + f, [], [])
        ctor("T5" + f, [], [])
    for out, ins in (("T3P", ["T0", "T1"]), ("T6P", ["T4", "T5"]), ("T7P", ["T4", "T5"])):
        for inputs in itertools.product(OPTS, repeat=2):
            ctor(out, ins, list(inputs))

    def handler(name, types, inputs):
        ps, tags, cat = [], [], []
        for k, (inp, t) in enumerate(zip(inputs, types)):
            if inp is None:
                continue
            ty = t + inp[0]
            ps.append(f"a{k}: {mode_ty(ty, inp[1])}")
            tags.append(f"a{k}.tag()")
            cat.append({"type": ty, "mode": inp[1]})
        ident = name.upper()
        tg = "&[" + ", ".join(tags) + "]"
        w(f"#[pavex::get(path = \"/r0\", id = \"{ident}\")] pub fn {name}({', '.join(ps)}) -> {RESP} {{ rt::call(\"handler\", \"{ident}\", {tg}); rt::respond(\"h\", \"{ident}\") }}")
        catalog.append({"id": ident, "kind": "handler", "macro": "route", "inputs": cat, "fallible": False, "err": None, "path": "/r0",
                        "methods": ["GET"], "badsig_b": True})

    pv = [("P", "v"), ("P", "r")]
    # one cell: direct use of A (T0) and B (T1) + C (T2P) and D (T3P)
    for a in OPTS:
        for b in OPTS:
            for c in pv:
                for d in pv:
                    handler(f"ht__{in_code(a)}_{in_code(b)}_{in_code(c)}_{in_code(d)}__i", ["T0", "T1", "T2", "T3"], [a, b, c, d])
    # two cells: C (T2P), D (T3P), C2 (T6P), D2 (T7P)
    for ins in itertools.product([None] + pv, repeat=4):
        if all(i is None for i in ins):
            continue
        handler("hb__" + "_".join(in_code(i) for i in ins) + "__i", ["T2", "T3", "T6", "T7"], list(ins))


def gen(w, catalog):
    w("// ================= gen_app_extra_badsig.py =================")
    part_a(w, catalog)
    part_b(w, catalog)
    w("// ================= end gen_app_extra_badsig.py =================")
    w()
