"""SCOPE family (property C04; feeds C01, C02, C03, C09): which registration builds the value a route receives.

Enumerated space (DESIGN §3.1 SCOPE)
  nesting trees with <= 3 blueprints: R | R>A | R>A,R>B (siblings) | R>A>B (chain, thorough only);
  one type (T0P; thorough also T0K clone-if-necessary) whose constructor is registered 0, 1 or 2 times in every
  blueprint (every subset of levels, twice in at most one blueprint, <= 4 registrations), every registration being a
  *different* function (C_T0P__0__S / __A / __S2 / __S3) so that the `by=` field of the trace tags tells them apart;
  lifecycles request-scoped / transient (thorough: also mixed per registration); constructors registered before or
  after the routes and nests of their blueprint; a route in every blueprint from which a registration is visible,
  taking the value by reference;
  + T1 members: a constructor of T1 (needs &T0) registered in one blueprint, routes taking &T1 below it;
  + generic members: C_WRAP_GENERIC (Wrap<T> from &T) registered in one blueprint, specialised by a route that
    takes &Wrap<T0P> in the same or a nested blueprint.
Oracle    each consumer's tag must say `by=<the registration designated by the blueprint>`: nearest enclosing
          blueprint with a registration wins, inside one blueprint the latest registration wins, parents are inherited,
          siblings / children are invisible (RoutingModifiers::nest rustdoc 'Constructors', 'Precedence';
          Blueprint::constructor rustdoc 'If a constructor for the same type has already been registered, it will be
          overwritten.'). Judged by (a) oracles.eval_values (the shared C03/C04 trace oracle) on the members without
          undocumented aspects and (b) a direct check written here against a resolver that does not use refmodel.
Not judged (recorded in `unspecified_shadowed_dependency`): when a constructor registered in an outer blueprint
          (T1's, or the generic one) needs T0 and an inner blueprint on the route's chain re-registers T0, the docs
          do not say whether the dependency is resolved from the constructor's blueprint or from the route's.
"""
import collections
import copy
import itertools
import json

import lib_e2e as L
import refmodel as M

FNS = ["S", "A", "S2", "S3"]  # distinct infallible constructor functions of T0<flavour>
SHAPES = {
    "R": {"R": None},
    "R>A": {"R": None, "A": "R"},
    "R>A,R>B": {"R": None, "A": "R", "B": "R"},
    "R>A>B": {"R": None, "A": "R", "B": "A"},
}
SLOT = {"R": 0, "A": 1, "B": 2}


def chain_up(shape, bp):
    out = []
    while bp is not None:
        out.append(bp)
        bp = SHAPES[shape][bp]
    return out  # bp, parent, grandparent


def patterns(shape):
    bps = list(SHAPES[shape])
    for pat in itertools.product((0, 1, 2), repeat=len(bps)):
        if sum(pat) == 0 or sum(pat) > 4 or sum(1 for x in pat if x == 2) > 1:
            continue
        if shape == "R>A,R>B" and pat[1] < pat[2]:
            continue  # A/B symmetric up to the route slot
        yield dict(zip(bps, pat))


def designated(shape, regs, bp):
    """The resolver of this family: nearest enclosing blueprint with >= 1 registration, the latest one there."""
    for x in chain_up(shape, bp):
        if regs.get(x):
            return regs[x][-1], x
    return None, None


def relation(shape, regs, route_bp, cid):
    """Where does registration `cid` sit relative to the route's blueprint?"""
    for bp, lst in regs.items():
        if cid in lst:
            up = chain_up(shape, route_bp)
            if bp == route_bp:
                return f"own#last/{len(lst)}" if lst[-1] == cid else f"own#earlier/{len(lst)}"
            if bp in up:
                dist = up.index(bp)
                tag = {1: "parent", 2: "grandparent"}[dist]
                return tag + (f"#last/{len(lst)}" if lst[-1] == cid else f"#earlier/{len(lst)}")
            if SHAPES[shape][bp] == SHAPES[shape][route_bp]:
                return "sibling"
            if route_bp in chain_up(shape, bp):
                return "descendant"
            return "unrelated"
    return "not-registered-in-this-blueprint-tree"


LC = {"R": "request_scoped", "T": "transient", "S": "singleton"}


def lifecycle_of(lcv, k):
    if len(lcv) > 1:  # one lifecycle code per registration, e.g. "SR"
        return LC[lcv[k]]
    return {"R": "request_scoped", "T": "transient", "M": ["request_scoped", "transient"][k % 2]}[lcv]


def build(shape, pat, lcv, late, flav="P", t1_at=None, wrap_at=None, wrap_route_at=None, prefixes=False, sid=None, fns=None):
    """-> spec. pat: {bp: number of T0 registrations}. fns: the constructor functions of the registrations in order
    (default FNS; `F` is the fallible `-> Result<T0, ErrC>` one)."""
    fns = fns or FNS
    bps = list(SHAPES[shape])
    regs, reg_ops = {}, {}
    k = 0
    for bp in bps:
        regs[bp], reg_ops[bp] = [], []
        for _ in range(pat[bp]):
            cid = f"C_T0{flav}__0__{fns[k]}"
            op = {"k": "ctor", "c": cid, "lc": lifecycle_of(lcv, k)}
            if flav == "K":
                op["cl"] = "clone_if_necessary"
            regs[bp].append(cid)
            reg_ops[bp].append(op)
            k += 1
    routes = []
    extra_ctor = {bp: [] for bp in bps}
    t1_cid = f"C_T1P__{flav}R__S"
    if t1_at:
        extra_ctor[t1_at].append({"k": "ctor", "c": t1_cid, "lc": "request_scoped"})
    if wrap_at:
        extra_ctor[wrap_at].append({"k": "ctor", "c": "C_WRAP_GENERIC", "lc": "request_scoped"})
    free_slots = [1, 2, 0] if wrap_at else None
    route_op = {}
    for bp in bps:
        d, d_bp = designated(shape, regs, bp)
        info = {"bp": bp, "kind": "none", "cid": None}
        if wrap_at and bp == wrap_route_at:
            own, _ = designated(shape, regs, wrap_at)
            info.update(kind="wrap", cid="H0_WRAP_T0P", expect_t0=d, own_scope_t0=own)
        elif t1_at and t1_at in chain_up(shape, bp):
            own, _ = designated(shape, regs, t1_at)
            slot = SLOT[bp]
            info.update(kind="t1", cid=f"H{slot}__0_PR_0__I", expect_t1=t1_cid, expect_t0=d, own_scope_t0=own)
        elif d is not None:
            slot = free_slots.pop(0) if wrap_at else SLOT[bp]
            info.update(kind="t0", cid=f"H{slot}__{flav}R_0_0__I", expect_t0=d)
        else:
            slot = free_slots.pop(0) if wrap_at else SLOT[bp]
            info.update(kind="none", cid=f"H{slot}__0_0_0__I")
        if info["kind"] in ("wrap", "t1"):
            if info["own_scope_t0"] is None:
                info["judged"], info["why"] = False, "t0_not_visible_from_the_outer_constructor"
            elif info["own_scope_t0"] != info["expect_t0"]:
                info["judged"], info["why"] = False, "shadowed_dependency"
            else:
                info["judged"] = True
        else:
            info["judged"] = True
        routes.append(info)
        route_op[bp] = {"k": "route", "c": info["cid"]}

    def ops_of(bp):
        ctors = reg_ops[bp] + extra_ctor[bp]
        body = [route_op[bp]]
        for child in bps:
            if SHAPES[shape][child] == bp:
                n = {"k": "nest", "bp": {"ops": ops_of(child)}}
                if prefixes:
                    n["prefix"] = "/" + child.lower()
                body.append(n)
        return (body + ctors) if late else (ctors + body)

    cls = "generic" if wrap_at else ("t1" if t1_at else ("lcmix" if len(lcv) > 1 else ("fallmix" if "F" in fns[:sum(pat.values())] else "plain")))
    two_singletons = len(lcv) > 1 and lcv.count("S") > 1
    meta = {"shape": shape, "pattern": pat, "lc": lcv, "late": late, "flavour": flav, "regs": regs, "routes": routes, "class": cls,
            "t1_at": t1_at, "wrap_at": wrap_at, "wrap_route_at": wrap_route_at,
            "fully_judged": all(r["judged"] for r in routes),
            # two singleton registrations of one type are a C08 rule (PLANT family): recorded here, not judged
            "two_singletons": two_singletons,
            "expect_rejected": two_singletons or any(r.get("why") == "t0_not_visible_from_the_outer_constructor" for r in routes)}
    return {"id": sid, "family": "scope", "bp": {"ops": ops_of("R")}, "scope": meta}


# --------------------------------------------------------------------------------------------------
# generic-vs-concrete members: constructors of one instantiated type (Wrap<T0P>) that are generic (Wrap<T>) in some
# blueprints and concrete in others
# --------------------------------------------------------------------------------------------------
GC_FN = {"G0": "C_WRAP_GENERIC0", "G1": "C_WRAP_GENERIC1", "C0": "C_WRAP_T0P_C0", "C1": "C_WRAP_T0P_C1",
         "GI": "C_WRAP_GENERIC", "CI": "C_WRAP_T0P_CIN"}  # GI / CI take &T0P (T0P registered once, in the root)


def gc_kind(cid):
    return "generic" if "GENERIC" in cid else "concrete"


def build_gc(shape, assign, lc="request_scoped", late=False):
    """assign: {bp: [registration codes]} -> spec. Every blueprint gets a route taking &Wrap<T0P> if a registration is
    visible from it. Judged: the nearest enclosing blueprint with a registration designates it (C04: 'the registration
    in the nearest enclosing (nested) blueprint wins'; RoutingModifiers::nest rustdoc 'Precedence'), whatever its
    genericity. A generic and a concrete registration (or two generic ones) in the SAME blueprint: recorded only."""
    bps = list(SHAPES[shape])
    regs = {bp: [GC_FN[c] for c in assign.get(bp, [])] for bp in bps}
    needs_t0 = any(c in ("GI", "CI") for v in assign.values() for c in v)
    routes = []
    for bp in bps:
        owner = next((x for x in chain_up(shape, bp) if regs[x]), None)
        info = {"bp": bp}
        if owner is None:
            info.update(kind="none", cid=f"H{SLOT[bp]}__0_0_0__I", judged=True)
        else:
            lst = regs[owner]
            outer = [gc_kind(c) for x in chain_up(shape, owner)[1:] for c in regs[x]]
            info.update(kind="gc", cid=f"HW{SLOT[bp]}_WRAP_T0P", owner=owner, candidates=lst,
                        shadowed="+".join(sorted(set(outer))) or "nothing")
            if len(lst) == 1:
                info.update(judged=True, expect_wrap=lst[0])
            else:
                info.update(judged=False, why="several_registrations_in_one_blueprint:" + "+".join(gc_kind(c) for c in lst))
        routes.append(info)

    def ops_of(bp):
        ctors = [{"k": "ctor", "c": c, "lc": lc} for c in regs[bp]]
        if bp == "R" and needs_t0:
            ctors.append({"k": "ctor", "c": "C_T0P__0__S", "lc": "request_scoped"})
        body = [{"k": "route", "c": next(r["cid"] for r in routes if r["bp"] == bp)}]
        for child in bps:
            if SHAPES[shape][child] == bp:
                body.append({"k": "nest", "bp": {"ops": ops_of(child)}})
        return (body + ctors) if late else (ctors + body)

    meta = {"shape": shape, "pattern": assign, "lc": lc[0].upper(), "late": late, "flavour": "P", "regs": regs, "routes": routes,
            "class": "genconc", "fully_judged": False,  # refmodel does not model generic constructors: direct check only
            "expect_rejected": False, "two_singletons": False}
    return {"id": None, "family": "scope", "bp": {"ops": ops_of("R")}, "scope": meta}


GC_QUICK = [
    # generic inner / concrete outer; concrete inner / generic outer; a second generic innermost
    ("R>A>B", {"R": ["C0"], "A": ["G0"], "B": ["C1"]}),
    ("R>A>B", {"R": ["G0"], "A": ["C0"], "B": ["G1"]}),
    # a registration two levels up, of the other kind; the middle blueprint inherits
    ("R>A>B", {"R": ["C0"], "A": [], "B": ["G0"]}),
    # generic at two levels
    ("R>A", {"R": ["G0"], "A": ["G1"]}),
    # siblings: one generic, one concrete, over a concrete parent / over nothing
    ("R>A,R>B", {"R": ["C0"], "A": ["G0"], "B": []}),
    # constructors with an input (T0P registered in the root only): generic inner / concrete outer
    ("R>A", {"R": ["CI"], "A": ["GI"]}),
]


def gc_specs(tier):
    if tier == "quick":
        return [build_gc(shape, assign) for shape, assign in GC_QUICK]
    out = []
    seen = set()
    for shape in ("R>A", "R>A>B", "R>A,R>B"):
        bps = list(SHAPES[shape])
        choices = [[], ["G0"], ["G1"], ["C0"], ["C1"]]
        for combo in itertools.product(choices, repeat=len(bps)):
            used = [c for v in combo for c in v]
            if len(used) < 2 or len(set(used)) != len(used) or not any(c.startswith("G") for c in used):
                continue
            # canonical: G0 before G1, C0 before C1 in blueprint order
            if ("G1" in used and "G0" not in used) or ("C1" in used and "C0" not in used):
                continue
            if "G1" in used and used.index("G1") < used.index("G0"):
                continue
            if "C1" in used and used.index("C1") < used.index("C0"):
                continue
            key = (shape, json.dumps(combo))
            if key in seen:
                continue
            seen.add(key)
            k = len(out)
            out.append(build_gc(shape, dict(zip(bps, combo)), ["request_scoped", "transient"][k % 2], k % 3 == 1))
    # with inputs
    for shape, assign in [("R>A", {"R": ["CI"], "A": ["GI"]}), ("R>A", {"R": ["GI"], "A": ["CI"]}),
                          ("R>A>B", {"R": ["CI"], "A": ["GI"], "B": ["C0"]}), ("R>A>B", {"R": ["GI"], "A": [], "B": ["CI"]}),
                          ("R>A,R>B", {"R": [], "A": ["GI"], "B": ["CI"]}), ("R>A,R>B", {"R": ["CI"], "A": ["GI"], "B": ["G0"]})]:
        out.append(build_gc(shape, assign))
    # both kinds in ONE blueprint (recorded only)
    for shape, assign in [("R", {"R": ["G0", "C0"]}), ("R", {"R": ["C0", "G0"]}), ("R>A", {"R": ["C0"], "A": ["G0", "C1"]}),
                          ("R>A", {"R": ["G0"], "A": ["C0", "G1"]}), ("R", {"R": ["G0", "G1"]})]:
        out.append(build_gc(shape, assign))
    return out


def enumerate_specs(tier):
    specs = []
    shapes = ["R", "R>A", "R>A,R>B"] + (["R>A>B"] if tier == "thorough" else [])
    k = 0
    for shape in shapes:
        for pat in patterns(shape):
            if tier == "quick":
                variants = [("R" if k % 2 == 0 else "T", k % 3 == 1, "P")]
            else:
                variants = [("R", False, "P"), ("T", True, "P"), ("M", k % 2 == 0, "P"), ("R", k % 2 == 1, "K")]
            for lcv, late, flav in variants:
                specs.append(build(shape, pat, lcv, late, flav))
            k += 1
    # T1 members: T1's constructor in blueprint Y, T0 registered per pattern, routes taking &T1 wherever T1 is visible
    t1_shapes = ["R>A", "R>A,R>B"] + (["R>A>B"] if tier == "thorough" else [])
    for shape in t1_shapes:
        for t1_at in [bp for bp in SHAPES[shape] if bp != "B" or tier == "thorough"]:
            for pat in patterns(shape):
                if max(pat.values()) > 1 and tier == "quick":
                    continue
                if sum(pat.values()) > 3:
                    continue
                # interesting only if T0 is registered somewhere on/above a route that sees T1
                below = [bp for bp in SHAPES[shape] if t1_at in chain_up(shape, bp)]
                if not any(pat[x] for bp in below for x in chain_up(shape, bp)):
                    continue
                if tier == "quick" and shape == "R>A,R>B" and (t1_at != "R" or pat["B"]):
                    continue
                for lcv, late in ([("R", False)] if tier == "quick" or shape != "R>A" else [("R", False), ("T", True)]):
                    specs.append(build(shape, pat, lcv, late, "P", t1_at=t1_at))
    # generic members
    for shape in t1_shapes:
        for wrap_at in [bp for bp in SHAPES[shape]]:
            for route_at in [bp for bp in SHAPES[shape] if wrap_at in chain_up(shape, bp)]:
                for pat in patterns(shape):
                    if max(pat.values()) > 1 and tier == "quick":
                        continue
                    if sum(pat.values()) > 3:
                        continue
                    if not any(pat[x] for x in chain_up(shape, route_at)):
                        continue  # no T0 visible from the specialising route: a missing-constructor plant, not ours
                    if tier == "quick" and (shape != "R>A" and not (wrap_at == "R" and route_at == "B" and pat["A"] and pat["R"] and not pat["B"])):
                        continue
                    for lcv, late in ([("R", False)] if tier == "quick" else [("R", False)] + ([("T", True)] if shape == "R>A" else [])):
                        specs.append(build(shape, pat, lcv, late, "P", wrap_at=wrap_at, wrap_route_at=route_at, prefixes=True))
    # lifecycle-mix members: the same type registered in two blueprints with every pair of lifecycles
    # {singleton, request-scoped, transient}^2: parent+child, two siblings (thorough: also grandparent+grandchild,
    # child+grandchild, and parent+two children)
    mixes = [("R>A", {"R": 1, "A": 1}), ("R>A,R>B", {"R": 0, "A": 1, "B": 1})]
    if tier == "thorough":
        mixes += [("R>A>B", {"R": 1, "A": 0, "B": 1}), ("R>A>B", {"R": 0, "A": 1, "B": 1}), ("R>A,R>B", {"R": 1, "A": 1, "B": 1})]
    for shape, pat in mixes:
        n = sum(pat.values())
        for lcs in itertools.product("SRT", repeat=n):
            specs.append(build(shape, pat, "".join(lcs), False, "P"))
    # fallible / infallible mixes: two registrations of T0 where one is fallible (`-> Result<T0, ErrC>`: the value is
    # yielded by a synthetic Ok-matcher, a different component than the registered callable), twice in one blueprint in
    # both orders, and parent / child in both orders; routes in every blueprint
    for shape, pat in [("R", {"R": 2}), ("R>A", {"R": 2, "A": 0}), ("R>A", {"R": 0, "A": 2}), ("R>A", {"R": 1, "A": 1})] + (
            [("R>A,R>B", {"R": 2, "A": 1, "B": 0}), ("R>A>B", {"R": 0, "A": 2, "B": 0})] if tier == "thorough" else []):
        n = sum(pat.values())
        for fns in ([["F", "S"], ["S", "F"], ["F", "A"]] if n == 2 else [["F", "S", "A"], ["S", "F", "A"], ["A", "S", "F"]]):
            for late in ((False, True) if tier == "thorough" else (False,)):
                specs.append(build(shape, pat, "R", late, "P", fns=fns))
    specs.extend(gc_specs(tier))
    for i, s in enumerate(specs):
        s["id"] = f"scope{i:05d}"
    return specs


def observe(tier):
    import orchestrator
    specs = enumerate_specs(tier)
    o = orchestrator.observe_specs(specs, f"{L.E2E_WORK}/scope-{tier}", with_run=True, batch_size=60)
    for g in o["gen"].values():
        g.pop("stdout", None)
    o["specs"] = specs
    o["built_specs"] = [s for s in specs if s["id"] in o["build"]]
    o["singles_gen"] = o["gen"]
    o["packs_gen"] = {}
    return o


# --------------------------------------------------------------------------------------------------
# oracles
# --------------------------------------------------------------------------------------------------
def _walk_ops(ops):
    for op in ops:
        yield None, op
        if op["k"] == "nest":
            yield from _walk_ops(op["bp"]["ops"])


def _units(o):
    for spec in o.get("built_specs", []):
        sid = spec["id"]
        yield spec, o["gen"].get(sid) or o.get("singles_gen", {}).get(sid), o["build"].get(sid), o["run"].get(sid), o["scripts"].get(sid)


def _direct_check(o):
    """-> (pending violations [(spec id, key, what, case)], counters...)"""
    pending = []
    # (b) direct check
    n_req = 0
    hist = collections.Counter()
    unspec = collections.Counter()
    gen_hist = collections.Counter()
    distinct = set()
    samples = []
    for spec in o.get("specs", []):
        sc = spec.get("scope")
        g = o["gen"].get(spec["id"])
        if not sc or g is None:
            continue
        out = "accepted" if g["exit"] == 0 else "rejected"
        gen_hist[f"{sc['class']}:{'expect_rejected' if sc['expect_rejected'] else 'expect_accepted'}:{out}"] += 1
        if sc.get("two_singletons"):
            unspec[f"two_singleton_registrations(C08 rule):{out}"] += 1
        elif sc["expect_rejected"]:
            unspec[f"outer_constructor_needs_T0_registered_only_below_it:{out}"] += 1
        if sc["class"] == "lcmix":
            gen_hist[f"lcmix:{sc['shape']}:{sc['lc']}:{'panic' if g.get('panic') else out}"] += 1
        if sc["class"] == "genconc" and out != "accepted":
            gen_hist[f"genconc:{sc['shape']}:{json.dumps(sc['pattern'], sort_keys=True)}:{'panic' if g.get('panic') else out}"] += 1
    for spec, g, build, run, script in _units(o):
        sc = spec.get("scope")
        if not sc or not build or not build["build_ok"] or run is None:
            continue
        st = run.get("startup")
        if not st or not st.get("ok"):
            pending.append((spec["id"], "scope:startup-failure", f"server of {spec['id']} did not start: {st}", {"oracle": "C04", "spec": spec, "startup": st}))
            continue
        by_handler = {r["cid"]: r for r in sc["routes"]}
        for req, resp in zip(script, run["responses"]):
            if req.get("plan"):
                continue  # single-fault plans (fallmix members): judged by the shared trace oracle, not here
            events = M.parse_trace(resp.get("trace", []))
            calls = [e for e in events if e["e"] == "call" and e["kind"] == "handler"]
            if len(calls) != 1 or calls[0]["cid"] not in by_handler:
                pending.append((spec["id"], "scope:handler-not-reached", f"{spec['id']} {req['path']}: expected exactly one handler call, trace {resp.get('trace')}",
                                {"oracle": "C04", "spec": spec, "request": req, "trace": resp.get("trace"), "status": resp.get("status")}))
                continue
            r = by_handler[calls[0]["cid"]]
            n_req += 1
            if r["kind"] == "none":
                hist["route_without_injection"] += 1
                continue
            news = [e for e in events if e["e"] == "new"]
            if r["kind"] == "gc":
                mk = [e for e in news if e["type"] == "Wrap"]
                got = mk[0]["by"] if len(mk) == 1 else (None if not mk else "+".join(e["by"] for e in mk))
                strip = lambda x: x.split("/")[0].split("#")[0]
                where = lambda cid: f"{gc_kind(cid)}@{strip(relation(sc['shape'], sc['regs'], r['bp'], cid))}" if cid and cid in GC_FN.values() else str(cid)
                if not r["judged"]:
                    unspec[f"gc:{r['why']}:candidates={'+'.join(r['candidates'])}:built_by={got}"] += 1
                    continue
                exp = r["expect_wrap"]
                ok = got == exp
                hist[f"gc:designated={where(exp)}:shadows={r['shadowed']}:{'ok' if ok else 'WRONG'}"] += 1
                distinct.add((sc["shape"], json.dumps(sc["pattern"], sort_keys=True), r["bp"], "gc", sc["lc"], sc["late"]))
                if ok and len(samples) < 4 and r["shadowed"] != "nothing" and not any("Wrap" in json.dumps(x.get("trace")) for x in samples):
                    samples.append({"spec": spec["id"], "ops": spec["bp"]["ops"], "request": req["path"], "expected_by": exp,
                                    "trace": resp.get("trace")})
                if not ok:
                    pending.append((spec["id"], f"scope:wrong-constructor:gc:designated={where(exp)}:observed={where(got)}",
                                    f"{spec['id']} {req['path']}: the route in blueprint {r['bp']} of tree {sc['shape']} with Wrap<T0P> registrations "
                                    f"{sc['regs']} received a Wrap<T0P> built by {got}; the nearest enclosing registration is {exp}",
                                    {"oracle": "C04", "spec": spec, "request": req, "route": r, "trace": resp.get("trace"),
                                     "startup_trace": st.get("trace")}))
                continue
            t0_seen = None  # the registration that built the T0 that (directly or through T1 / Wrap) reached the handler
            problems = []
            if r["kind"] == "t0":
                tags = [t for t in calls[0]["ins"] if t["type"].startswith("T0")]
                t0_seen = tags[0]["by"] if tags else None
            elif r["kind"] == "t1":
                tags = [t for t in calls[0]["ins"] if t["type"] == "T1P"]
                if not tags or tags[0]["by"] != r["expect_t1"]:
                    problems.append(("T1P", r["expect_t1"], tags[0]["by"] if tags else None))
                mk = [e for e in news if e["type"] == "T1P"]
                t0_seen = mk[0]["ins"][0]["by"] if mk and mk[0]["ins"] else None
            elif r["kind"] == "wrap":
                tags = [t for t in calls[0]["ins"] if t["type"].startswith("T0")]
                t0_seen = tags[0]["by"] if tags else None
                mk = [e for e in news if e["type"] == "Wrap"]
                if not mk or mk[0]["by"] != "C_WRAP_GENERIC":
                    problems.append(("Wrap<T0P>", "C_WRAP_GENERIC", mk[0]["by"] if mk else None))
            if r["judged"]:
                exp = r["expect_t0"]
                rel_e = relation(sc["shape"], sc["regs"], r["bp"], exp)
                if t0_seen != exp:
                    problems.append((f"T0{sc['flavour']}", exp, t0_seen))
                hist[f"{r['kind']}:designated={rel_e}:{'ok' if not problems else 'WRONG'}"] += 1
                distinct.add((sc["shape"], json.dumps(sc["pattern"], sort_keys=True), r["bp"], r["kind"], sc["lc"], sc["late"]))
                if len(samples) < 3 and len(sc["regs"]) > 1 and sum(len(v) for v in sc["regs"].values()) >= 2:
                    samples.append({"spec": spec["id"], "ops": spec["bp"]["ops"], "request": req["path"], "expected_by": exp,
                                    "trace": resp.get("trace")})
            else:
                which = "own_scope_of_the_outer_constructor" if t0_seen == r["own_scope_t0"] else (
                    "scope_of_the_route" if t0_seen == r["expect_t0"] else f"other:{t0_seen}")
                unspec[f"{r['kind']}:{r['why']}:resolved_from_{which}"] += 1
            for ty, exp, got in problems:
                strip = lambda x: x.split("/")[0].split("#")[0]
                rel_o = strip(relation(sc["shape"], sc["regs"], r["bp"], got)) if ty.startswith("T0") and got else str(got)
                lc_exp = next((op.get("lc") for _, op in _walk_ops(spec["bp"]["ops"]) if op.get("c") == exp), "?")
                pending.append((spec["id"], f"scope:wrong-constructor:{r['kind']}:designated_is_{lc_exp}:observed={rel_o}",
                              f"{spec['id']} {req['path']}: the {r['kind']} route in blueprint {r['bp']} of tree {sc['shape']} with registrations "
                              f"{sc['regs']} (lifecycles {sc['lc']}) received a {ty} built by {got}; the blueprint designates {exp}",
                              {"oracle": "C04", "spec": spec, "request": req, "route": r, "trace": resp.get("trace"),
                               "startup_trace": st.get("trace")}))
    return pending, n_req, hist, unspec, gen_hist, distinct, samples


def oracle_c04_scope(obs, rep, tier):
    import oracles as O
    o = obs["scope"]
    # (a) the shared trace oracle on the members without undocumented aspects
    plain = dict(o)
    plain["built_specs"] = [s for s in o.get("built_specs", []) if s.get("scope", {}).get("fully_judged", True)]
    lvl, cov_a, asm = O.eval_values({"scope": plain}, rep, tier, "C04")
    # (b) direct check; a violating member is observed once more (pavexc, rustc, server) before it is reported
    pending, n_req, hist, unspec, gen_hist, distinct, samples = _direct_check(o)
    n_reexecuted = 0
    if pending:
        import orchestrator
        bad_ids = sorted({p[0] for p in pending})
        redo = [sp for sp in o["specs"] if sp["id"] in bad_ids]
        n_reexecuted = len(redo)
        o2 = orchestrator.observe_specs(redo, f"{L.E2E_WORK}/scope-recheck", with_run=True, batch_size=60)
        o2["specs"] = redo
        o2["built_specs"] = [sp for sp in redo if sp["id"] in o2["build"]]
        again = {(p[0], p[1]) for p in _direct_check(o2)[0]}
        for sid, key, what, case in pending:
            if (sid, key) in again:
                rep.violation(key, what, case)
            else:
                raise L.MachineryError(f"nondeterministic: {sid} violated {key} in the first observation but not when re-executed")
    cov = {
        "evaluations": n_req + cov_a["evaluations"], "distinct_nontrivial": len(distinct), "exhaustive": True,
        "rule": "nesting trees R | R>A | R>A,R>B" + (" | R>A>B" if tier == "thorough" else "") + "; constructor of T0 registered 0/1/2 times "
                "per blueprint (all subsets of levels, twice in <= 1 blueprint, every registration a different function), request-scoped / "
                "transient" + (" / mixed, before or after the routes (alternating), flavours P and K+clone-if-necessary" if tier == "thorough" else
                               " (alternating), before or after the routes (alternating)") +
                ", a route taking &T0 in every blueprint that sees a registration; T1 members (constructor of T1 needing &T0 in one blueprint, "
                "routes taking &T1 below it), generic members (C_WRAP_GENERIC specialised by a route taking &Wrap<T0P>) and generic-vs-concrete "
                "members (constructors of Wrap<T0P> that are generic Wrap<T> in some blueprints and concrete in others: generic inner / "
                "concrete outer, concrete inner / generic outer, generic at two levels, siblings, with and without an input; a route "
                "taking &Wrap<T0P> in every blueprint; the nearest enclosing registration must build the value whatever its genericity; "
                "a generic and a concrete registration in the same blueprint are recorded only). Oracle: the `by` "
                "field of the tag received by every consumer = registration designated by 'nearest enclosing blueprint, latest registration "
                "inside a blueprint, parents inherited, siblings/children invisible' (direct check, plus oracles.eval_values on the members "
                "without undocumented aspects). Members where an outer constructor's dependency is shadowed on the route's chain are recorded, "
                "not judged. distinct = distinct (tree, pattern, route blueprint, kind, lifecycle variant, position variant).",
        "samples": samples, "designation_histogram": dict(sorted(hist.items())),
        "unspecified_shadowed_dependency": dict(sorted(unspec.items())),
        "generation_histogram": dict(sorted(gen_hist.items())),
        "shared_trace_oracle": {k: v for k, v in cov_a.items() if k in ("evaluations", "distinct_nontrivial", "type_site_histogram")},
        "specs": len(o.get("specs", [])), "members_re_executed_before_reporting": n_reexecuted,
    }
    return "exploration", cov, asm + ["which scope resolves the dependencies of a constructor inherited from an outer blueprint is undocumented"]


def oracle_c03_scope(obs, rep, tier):
    import oracles as O
    o = obs["scope"]
    plain = dict(o)
    plain["built_specs"] = [s for s in o.get("built_specs", []) if s.get("scope", {}).get("fully_judged", True)]
    return O.eval_values({"scope": plain}, rep, tier, "C03")


def oracle_c01_scope(obs, rep, tier):
    import oracles as O
    return O.oracle_c01({"scope": obs["scope"]}, rep, tier)


def oracle_c09_scope(obs, rep, tier):
    import oracles as O
    import fam_plant
    o = obs["scope"]
    suspicious = [s for s in o["specs"] if s["id"] in o["gen"] and (
        fam_plant.outcome_of(o["gen"][s["id"]]) in ("hang", "panic", "rejected_uncleanly") or o["gen"][s["id"]].get("root_manifest_changed")
        or o["gen"][s["id"]]["exit"] not in (0, 1))]
    gen, n_replaced = fam_plant.settle(o, suspicious, "scope-c09")
    o2 = dict(o)
    o2["gen"] = gen
    lvl, cov, asm = O.oracle_c09({"scope": o2}, rep, tier)
    cov["re_executed_before_reporting"] = len(suspicious)
    cov["transient_timeouts_or_interference_replaced_by_second_run"] = n_replaced
    return lvl, cov, asm


def oracle_c02_scope(obs, rep, tier):
    """Rule-abiding members (everything except the members whose outer constructor cannot see a T0 from its own
    blueprint) must be accepted without an ERROR."""
    import oracles as O
    o = obs["scope"]
    n = 0
    hist = collections.Counter()
    distinct = set()
    samples = []
    for spec in o.get("specs", []):
        sc = spec.get("scope")
        g = o["gen"].get(spec["id"])
        if not sc or g is None:
            continue
        n += 1
        if sc["expect_rejected"] or not sc["fully_judged"] or sc["class"] in ("lcmix", "genconc"):
            hist[f"outside_class:{sc['class']}:{'accepted' if g['exit'] == 0 else 'rejected'}"] += 1
            continue
        distinct.add(json.dumps(spec["bp"], sort_keys=True))
        hist[f"must_accept:{'accepted' if g['exit'] == 0 else 'rejected'}"] += 1
        if len(samples) < 2:
            samples.append({"id": spec["id"], "ops": spec["bp"]["ops"]})
        if g["exit"] != 0 or g["n_error"] > 0:
            title = O.first_error_title(g["stderr"])
            rep.violation(f"scope:reject:{title}", f"scope blueprint {spec['id']} ({sc['shape']} {sc['pattern']}) is rule-abiding but pavexc rejected it: {title}",
                          {"oracle": "C02", "spec": spec, "stderr": O.ANSI.sub("", g["stderr"])[:3000]})
    cov = {"evaluations": n, "distinct_nontrivial": len(distinct), "exhaustive": True,
           "rule": "every SCOPE member whose constructors all see their dependencies from their own blueprint and without a shadowed "
                   "dependency (same-type registrations at several levels and twice in one blueprint are documented as legal: "
                   "'it will be overwritten', 'the one declared against the nested blueprint takes precedence') must be accepted",
           "samples": samples, "verdict_histogram": dict(hist)}
    return "exploration", cov, []


PROPERTIES = {
    "C04": (lambda tier: ["scope"], oracle_c04_scope),
    "C03": (lambda tier: ["scope"], oracle_c03_scope),
    "C02": (lambda tier: ["scope"], oracle_c02_scope),
    "C01": (lambda tier: ["scope"], oracle_c01_scope),
    "C09": (lambda tier: ["scope"], oracle_c09_scope),
}
