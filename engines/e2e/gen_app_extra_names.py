"""Extra verif_app components for the `names` family (C01, C09): singleton types whose NAME, once turned into the snake_case
field name of `ApplicationState`, is a Rust keyword — strict (`type`, `match`, ...), reserved (`final`, `try`, `yield`, ...) or
weak (`union`, `dyn`) — or needs care for another reason (leading digit after stripping, single letter, trailing underscore)."""

KW = ["Type", "Match", "Move", "Ref", "Static", "Async", "Await", "Dyn", "Loop", "Final", "Try", "Yield", "Macro", "Override",
      "Virtual", "Abstract", "Become", "Do", "Priv", "Typeof", "Unsized", "Union", "Gen", "Crate", "Super", "A", "Fn_"]


def gen(w, catalog):
    w("// ================= gen_app_extra_names.py =================")
    w("pub mod kw {")
    w("    use crate::rt;")
    for name in KW:
        cid = f"KW_{name.upper()}"
        hid = f"HKW_{name.upper()}"
        w(f"    #[derive(Debug)] pub struct {name} {{ pub id: u64 }}")
        w(f"    #[pavex::singleton(id = \"{cid}\")] pub fn mk_{name.lower()}() -> {name} {{ {name} {{ id: rt::new_value(\"{name}\", \"{cid}\", &[]) }} }}")
        w(f"    #[pavex::get(path = \"/r0\", id = \"{hid}\")] pub fn h_{name.lower()}(a: &{name}) -> pavex::Response {{ rt::call(\"handler\", \"{hid}\", &[format!(\"{name}#{{}}\", a.id)]); rt::respond(\"h\", \"{hid}\") }}")
        catalog.append({"id": cid, "kind": "ctor", "macro": "constructor", "out": f"kw::{name}", "inputs": [], "fallible": False, "async": False,
                        "err": None, "names": True})
        catalog.append({"id": hid, "kind": "handler", "macro": "route", "inputs": [{"type": f"kw::{name}", "mode": "r"}], "fallible": False,
                        "err": None, "path": "/r0", "methods": ["GET"], "names": True})
    w("}")
    w()
