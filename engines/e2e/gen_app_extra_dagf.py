"""Fallible twins of the DAG family's source constructors: `DGF_N<i><k>__0() -> Result<N<i><k>, ErrC>`.
Used by fam_dag.fallible_source_variants: the contended values of an ownership stalemate are then produced by derived
components (the `Ok` arm of a match on the Result), which have no user registration of their own."""


def gen(w, catalog):
    w("// ---- fallible source constructors of the DAG family (gen_app_extra_dagf.py)")
    for i in range(6):
        for f in "PK":
            ty = f"N{i}{f}"
            cid = f"DGF_{ty}__0"
            w(f"#[pavex::request_scoped(id = \"{cid}\")]")
            w(f"pub fn {cid.lower()}() -> Result<{ty}, ErrC> {{")
            w(f"    if rt::fails(\"{cid}\") {{ rt::ev(format!(\"fail ctor {cid} in=[]\")); return Err(ErrC::new(\"{cid}\")); }}")
            w(f"    Ok({ty}::mk(\"{cid}\", &[]))")
            w("}")
            catalog.append({"id": cid, "kind": "ctor", "macro": "constructor", "out": ty, "inputs": [],
                            "fallible": True, "async": False, "err": "ErrC", "dag": True})
    w()
