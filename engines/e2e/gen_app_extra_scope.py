"""Extra verif_app components for the SCOPE family (C04): generic-vs-concrete constructors of one instantiated type.

  * two input-less generic constructors of Wrap<T> (C_WRAP_GENERIC0 / C_WRAP_GENERIC1) and two input-less concrete
    constructors of Wrap<T0P> (C_WRAP_T0P_C0 / C_WRAP_T0P_C1): all distinct functions, so that the `by=` field of the
    `new Wrap` trace event tells which registration built the value a route received;
  * a concrete constructor with the same input as the existing generic C_WRAP_GENERIC (C_WRAP_T0P_CIN: &T0P -> Wrap<T0P>);
  * three handlers taking &Wrap<T0P> on distinct paths (one per blueprint of a nesting tree).
Bodies are instrumentation only.
"""


def gen(w, catalog):
    w("// ================= gen_app_extra_scope.py =================")
    for cid in ("C_WRAP_GENERIC0", "C_WRAP_GENERIC1"):
        w(f"#[pavex::request_scoped(id = \"{cid}\")]")
        w(f"pub fn {cid.lower()}<T>() -> Wrap<T> {{ let id = rt::new_value(\"Wrap\", \"{cid}\", &[]); "
          "Wrap { inner_tag: String::new(), id, _t: std::marker::PhantomData } }")
        catalog.append({"id": cid, "kind": "ctor", "macro": "constructor", "out": "Wrap<T>", "inputs": [], "fallible": False,
                        "async": False, "err": None, "generic": True, "plant": True})
    for cid in ("C_WRAP_T0P_C0", "C_WRAP_T0P_C1"):
        w(f"#[pavex::request_scoped(id = \"{cid}\")]")
        w(f"pub fn {cid.lower()}() -> Wrap<T0P> {{ let id = rt::new_value(\"Wrap\", \"{cid}\", &[]); "
          "Wrap { inner_tag: String::new(), id, _t: std::marker::PhantomData } }")
        catalog.append({"id": cid, "kind": "ctor", "macro": "constructor", "out": "Wrap<T0P>", "inputs": [], "fallible": False,
                        "async": False, "err": None, "plant": True})
    w("#[pavex::request_scoped(id = \"C_WRAP_T0P_CIN\")]")
    w("pub fn c_wrap_t0p_cin(t: &T0P) -> Wrap<T0P> { let id = rt::new_value(\"Wrap\", \"C_WRAP_T0P_CIN\", &[t.tag()]); "
      "Wrap { inner_tag: t.tag(), id, _t: std::marker::PhantomData } }")
    catalog.append({"id": "C_WRAP_T0P_CIN", "kind": "ctor", "macro": "constructor", "out": "Wrap<T0P>",
                    "inputs": [{"type": "T0P", "mode": "r"}], "fallible": False, "async": False, "err": None, "plant": True})
    for slot in (0, 1, 2):
        cid = f"HW{slot}_WRAP_T0P"
        w(f"#[pavex::get(path = \"/w{slot}\", id = \"{cid}\")] pub fn {cid.lower()}(a: &Wrap<T0P>) -> pavex::Response "
          f"{{ rt::call(\"handler\", \"{cid}\", &[format!(\"Wrap#{{}}/{{}}\", a.id, a.inner_tag)]); rt::respond(\"h\", \"{cid}\") }}")
        catalog.append({"id": cid, "kind": "handler", "macro": "route", "inputs": [{"type": "Wrap<T0P>", "mode": "r"}],
                        "fallible": False, "err": None, "path": f"/w{slot}", "methods": ["GET"], "plant": True})
    w("// ================= end gen_app_extra_scope.py =================")
    w()
