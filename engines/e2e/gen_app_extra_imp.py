"""Extra verif_app components for `bp.import(from![..])` (DI-IMP shapes of the di family): two sibling modules under one
parent module, each with a request-scoped constructor for T0P, so that importing the parent brings both in and importing one
child brings exactly one."""


def gen(w, catalog):
    w("// ================= gen_app_extra_imp.py =================")
    w("pub mod impp {")
    for m in ("a", "b"):
        cid = f"IMPP_{m.upper()}_T0"
        w(f"    pub mod {m} {{")
        w(f"        #[pavex::request_scoped(id = \"{cid}\")]")
        w(f"        pub fn t0() -> crate::T0P {{ crate::T0P::mk(\"{cid}\", &[]) }}")
        w("    }")
        catalog.append({"id": cid, "kind": "ctor", "macro": "constructor", "out": "T0P", "inputs": [], "fallible": False, "async": False,
                        "err": None, "module": f"crate::impp::{m}", "imp": True})
    w("}")
    w()
