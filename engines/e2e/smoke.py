import json, sys, time
sys.path.insert(0, "/verif/engines/e2e")
import lib_e2e as L
specs = []
n = 0
for f0 in "PKY":
  for lc0 in ("request_scoped", "transient", "singleton"):
    for cl in (None, "clone_if_necessary"):
      for hm in ("v", "r"):
        for pre in (None, "r", "v"):
          ops = [{"k":"ctor","c":f"C_T0{f0}__0__S","lc":lc0, **({"cl":cl} if cl else {})}]
          if pre: ops.append({"k":"pre","c":f"PRE1__{f0}{pre.upper()}_0__I"})
          ops.append({"k":"route","c":f"H0__{f0}{hm.upper()}_0_0__I"})
          specs.append({"id":f"smoke{n:03d}","bp":{"ops":ops}}); n+=1
print(len(specs))
L.ensure_built(); L.warm_cache()
d = L.WORK + "/e2e/smoke"
t0=time.time()
obs = L.generate_all(specs, d)
print("gen", time.time()-t0)
ok = [s for s in specs if obs[s["id"]]["exit"]==0]
for s in specs:
    o = obs[s["id"]]
    if o["exit"] != 0: print(s["id"], json.dumps(s["bp"]["ops"]), "exit", o["exit"], "err", o["n_error"], "panic", o["panic"], o["stderr"][:300].replace("\n"," | "))
t0=time.time()
br, runners = L.build_batches(ok, d+"/gen", d+"/batch")
print("build", time.time()-t0, sum(1 for b in br.values() if not b["build_ok"]), "failed")
for sid,b in br.items():
    if not b["build_ok"]: print(sid, b["build_errors"][0][:600])
for bd, ids, binp in runners:
    script = {i: [{"method":"GET","path":"/r0","plan":[]},{"method":"GET","path":"/r0","plan":[]},{"method":"POST","path":"/r0","plan":[]},{"method":"GET","path":"/zz","plan":[]}] for i in ids}
    t0=time.time()
    res = L.run_runner(binp, script)
    print("run", time.time()-t0)
    json.dump(res, open(d+"/run.json","w"), indent=1)
    for i in ids[:3]:
        print(i, json.dumps(res[i], indent=1)[:3000])
