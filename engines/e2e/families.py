"""Bounded-exhaustive enumerators of blueprint specs (DESIGN.md §3.1 "Families", Appendix B).

A *shape* is a list of registration ops for one blueprint. A *spec* is {"id", "family", "bp"}.
Shapes of the DI/MW/ERR families can be *packed*: N shapes become N sibling nested blueprints of one
root (each under its own path prefix), which is itself a member of the program space and costs one
compiler run and one rustc crate instead of N.
Enumeration order is canonical (simplest first); VERIF_SEED only rotates it.
"""
import itertools
import json

FLAV_CL = [("P", None), ("K", None), ("K", "clone_if_necessary"), ("Y", None)]
LIFECYCLES = ["request_scoped", "transient", "singleton"]
LC_CODE = {"request_scoped": "R", "transient": "T", "singleton": "S"}


def ctor_op(t, flav, inputs_code, var, lc, cl, eh=None):
    op = {"k": "ctor", "c": f"C_T{t}{flav}__{inputs_code}__{var.upper()}", "lc": lc}
    if cl:
        op["cl"] = cl
    if eh:
        op["eh"] = eh
    return op


def in_code(flav, mode):
    return "0" if mode is None else f"{flav}{mode.upper()}"


def handler_id(slot, codes, fallible=False):
    return f"H{slot}__{'_'.join(codes)}__{'F' if fallible else 'I'}"


# --------------------------------------------------------------------------------------------------
# DI family
# --------------------------------------------------------------------------------------------------
def di_shapes(tier):
    """Dependency-graph shapes: T0 [+ T1 [+ T2]] + handler on slot 0 (infallible, sync constructors;
    fallibility is the ERR family's subject).

    DI-1: T0 (flavour/cloning x 3 lifecycles) x handler mode {v, r, m}.
    DI-2: T0 (flavour/cloning x {request, transient}) x T1 (flavour/cloning x {request, transient} x
          edge T1<-T0 in {none, v, r}) x handler edges (T0 in {none, v, r}, T1 in {v, r}).
    DI-S: singleton T0 x T1 in {P request-scoped, K clone-if-necessary transient} x edges.
    DI-M: `&mut` edges from the handler onto T0/T1 of every flavour/lifecycle (quick: T1<-T0 by ref only).
    thorough adds DI-3: T2 with edges from (T0, T1), request/transient inner nodes, all edge modes
    in {none, v, r}, T0 over all flavour/cloning combos, T1 in {P, K clone-if-necessary}, T2 plain.
    """
    shapes = []
    RT = ["request_scoped", "transient"]
    # DI-1
    for (f0, cl0), lc0 in itertools.product(FLAV_CL, LIFECYCLES):
        t0 = ctor_op(0, f0, "0", "s", lc0, cl0)
        for hm0 in ["v", "r", "m"]:
            shapes.append([t0, {"k": "route", "c": handler_id(0, [in_code(f0, hm0), "0", "0"])}])
    # DI-2
    for (f0, cl0), lc0, (f1, cl1), lc1, m10 in itertools.product(FLAV_CL, RT, FLAV_CL, RT, [None, "v", "r"]):
        t0 = ctor_op(0, f0, "0", "s", lc0, cl0)
        t1 = ctor_op(1, f1, in_code(f0, m10), "s", lc1, cl1)
        for hm0, hm1 in itertools.product([None, "v", "r"], ["v", "r"]):
            if m10 is None and hm0 is None:
                continue
            shapes.append([t0, t1, {"k": "route", "c": handler_id(0, [in_code(f0, hm0), in_code(f1, hm1), "0"])}])
    # DI-S
    for (f0, cl0), (f1, cl1, lc1), m10 in itertools.product(
            FLAV_CL, [("P", None, "request_scoped"), ("K", "clone_if_necessary", "transient"), ("P", None, "singleton")],
            ["v", "r"]):
        t0 = ctor_op(0, f0, "0", "s", "singleton", cl0)
        t1 = ctor_op(1, f1, in_code(f0, m10), "s", lc1, cl1)
        for hm0, hm1 in itertools.product([None, "v", "r"], ["v", "r"]):
            shapes.append([t0, t1, {"k": "route", "c": handler_id(0, [in_code(f0, hm0), in_code(f1, hm1), "0"])}])
    # DI-M
    for (f0, cl0), lc0, (f1, cl1), lc1 in itertools.product(FLAV_CL, RT, [("P", None), ("K", "clone_if_necessary")], RT):
        t0 = ctor_op(0, f0, "0", "s", lc0, cl0)
        t1 = ctor_op(1, f1, in_code(f0, "r"), "s", lc1, cl1)
        for hm0, hm1 in [("m", "r"), ("m", "v"), ("r", "m"), (None, "m"), ("m", "m")]:
            shapes.append([t0, t1, {"k": "route", "c": handler_id(0, [in_code(f0, hm0), in_code(f1, hm1), "0"])}])
    # DI-M2: `&mut` from the handler onto a T0 that another constructor consumes BY VALUE (or borrows)
    # upstream: T1 <- T0 in {v, r}, handler (&mut T0, T1 in {v, r})
    for (f0, cl0), lc0, m10, hm1 in itertools.product(FLAV_CL, RT, ["v", "r"], ["v", "r"]):
        if m10 == "r" and tier == "quick":
            continue  # covered by DI-M
        t0 = ctor_op(0, f0, "0", "s", lc0, cl0)
        t1 = ctor_op(1, "P", in_code(f0, m10), "s", "request_scoped", None)
        shapes.append([t0, t1, {"k": "route", "c": handler_id(0, [in_code(f0, "m"), in_code("P", hm1), "0"])}])
    # DI-A: cloning policy on the annotation (`#[request_scoped(clone_if_necessary)]`), kept or
    # overridden (`.never_clone()`) at registration; the value needs a clone in every member
    for cl0 in (None, "never_clone", "clone_if_necessary"):
        t0 = {"k": "ctor", "c": "C_T0K__0__C", "lc": "request_scoped"}
        if cl0:
            t0["cl"] = cl0
        for m10, hm0 in [("v", "v"), ("v", "r"), ("r", "v")]:
            t1 = ctor_op(1, "P", in_code("K", m10), "s", "request_scoped", None)
            shapes.append([t0, t1, {"k": "route", "c": handler_id(0, [in_code("K", hm0), "PR", "0"])}])
    # DI-B: build-time graphs (ApplicationState::new): two singletons T1, T2 fed by one transient T0
    # (one instance per injection site there too), T2 optionally also borrowing T1
    for (f0, cl0), m10, m20, m21 in itertools.product([("P", None), ("K", "clone_if_necessary")], ["v", "r"], ["v", "r"], [None, "r"]):
        t0 = ctor_op(0, f0, "0", "s", "transient", cl0)
        t1 = ctor_op(1, "P", in_code(f0, m10), "s", "singleton", None)
        t2 = ctor_op(2, "P", f"{in_code(f0, m20)}_{in_code('P', m21)}", "s", "singleton", None)
        shapes.append([t0, t1, t2, {"k": "route", "c": handler_id(0, ["0", "PR", "PR"])}])
    # DI-SIB: the SAME type registered in two sibling blueprints with different cloning policies (clone-if-necessary in one,
    # never-clone in the other), each with the same ownership conflict (T1 built from T0 by value while the handler also needs
    # T0): the clone-if-necessary sibling is solved by a clone, the never-clone sibling must not be (the whole blueprint is
    # rejected on a correct compiler; if it is accepted the run-time oracles see a clone of a never-clone value)
    for m10, hm0, order in itertools.product(["v"], ["r", "v"], [0, 1]):
        def sib(cl, slot):
            return [ctor_op(0, "K", "0", "s", "request_scoped", cl), ctor_op(1, "P", in_code("K", m10), "s", "request_scoped", None),
                    {"k": "route", "c": handler_id(0, [in_code("K", hm0), "PR", "0"])}]
        a = {"k": "nest", "prefix": "/x", "bp": {"ops": sib("clone_if_necessary", 0)}}
        b = {"k": "nest", "prefix": "/y", "bp": {"ops": sib(None, 0)}}
        shapes.append([a, b] if order == 0 else [b, a])
        # control: both siblings clone-if-necessary (accepted, clones in both)
        b2 = {"k": "nest", "prefix": "/y", "bp": {"ops": sib("clone_if_necessary", 0)}}
        if order == 0:
            shapes.append([a, b2])
    # DI-INH: a constructor INHERITED from the parent whose input is re-registered by the nested blueprint: the value it receives is
    # the one designated at the route (the child's registration), and the handler sees the same instance
    for fl, cl in (("P", None), ("K", "clone_if_necessary")):
        for depth, hm0, m10 in itertools.product([1, 2], ["r", None], ["r", "v"]):
            if m10 == "v" and (fl == "P" and hm0 is not None):
                continue  # would move a never-clone value that the handler also borrows: not this shape's subject
            outer = ctor_op(0, fl, "0", "s", "request_scoped", cl)
            outer["c"] = outer["c"][:-1] + "S2"
            t1 = ctor_op(1, "P", in_code(fl, m10), "s", "request_scoped", None)
            inner = ctor_op(0, fl, "0", "s", "request_scoped", cl)
            route = {"k": "route", "c": handler_id(0, [in_code(fl, hm0), "PR", "0"])}
            body = [inner, route] if depth == 1 else [inner, {"k": "nest", "bp": {"ops": [route]}}]
            shapes.append([outer, t1, {"k": "nest", "bp": {"ops": body}}])
    # DI-ABA: within ONE blueprint the latest registration wins, also when it repeats an earlier one verbatim (A, B, A => A)
    for fl in ("P", "K"):
        a = ctor_op(0, fl, "0", "s", "request_scoped", None)
        b = dict(a)
        b["c"] = a["c"][:-1] + "S2"
        for first, second in ((a, b), (b, a)):
            r = {"k": "route", "c": handler_id(0, [in_code(fl, "r"), "0", "0"])}
            shapes.append([dict(first), dict(second), dict(first), r])
            shapes.append([dict(first), dict(second), dict(first), {"k": "nest", "bp": {"ops": [r]}}])
    # DI-IMP: constructors brought in with `bp.import(from![module])` instead of individual registrations: a nested blueprint
    # that imports ONE child module must get that module's constructor although an enclosing import (of the parent module, or of
    # the sibling) already covers the type; explicit registrations and imports shadow each other by nesting level only
    imp = lambda m: {"k": "import", "module": m}  # noqa: E731
    hpr = {"k": "route", "c": handler_id(0, ["PR", "0", "0"])}
    h1 = {"k": "route", "c": handler_id(1, ["0", "0", "0"])}
    for m in ("a", "b"):
        o = "b" if m == "a" else "a"
        shapes.append([imp("crate::impp"), h1, {"k": "nest", "bp": {"ops": [imp(f"crate::impp::{m}"), hpr]}}])
        shapes.append([imp("crate::impp"), {"k": "nest", "bp": {"ops": [imp(f"crate::impp::{m}"), {"k": "nest", "bp": {"ops": [hpr]}}]}}])
        shapes.append([imp(f"crate::impp::{o}"), {"k": "nest", "bp": {"ops": [imp(f"crate::impp::{m}"), hpr]}}])
        shapes.append([imp(f"crate::impp::{o}"), {"k": "route", "c": handler_id(1, ["PR", "0", "0"])},
                       {"k": "nest", "bp": {"ops": [imp(f"crate::impp::{m}"), hpr]}}])
        shapes.append([imp(f"crate::impp::{o}"), {"k": "nest", "bp": {"ops": [{"k": "ctor", "c": f"IMPP_{m.upper()}_T0", "lc": "request_scoped"}, hpr]}}])
        shapes.append([ctor_op(0, "P", "0", "s", "request_scoped", None), {"k": "nest", "bp": {"ops": [imp(f"crate::impp::{m}"), hpr]}}])
        shapes.append([imp(f"crate::impp::{m}"), hpr])
    if tier == "thorough":
        modes = [None, "v", "r"]
        for (f0, cl0), (f1, cl1) in itertools.product(FLAV_CL, [("P", None), ("K", "clone_if_necessary")]):
            f2, cl2 = "P", None
            for lc0, lc1 in itertools.product(RT, repeat=2):
                lc2 = "request_scoped"
                for m10, m20, m21 in itertools.product(modes, repeat=3):
                    if m20 is None and m21 is None:
                        continue
                    t0 = ctor_op(0, f0, "0", "s", lc0, cl0)
                    t1 = ctor_op(1, f1, in_code(f0, m10), "s", lc1, cl1)
                    t2 = ctor_op(2, f2, f"{in_code(f0, m20)}_{in_code(f1, m21)}", "s", lc2, cl2)
                    for hm0, hm1, hm2 in itertools.product(modes, modes, ["v", "r"]):
                        if m21 is None and hm1 is None:
                            continue
                        if m10 is None and m20 is None and hm0 is None:
                            continue
                        shapes.append([t0, t1, t2, {"k": "route", "c": handler_id(
                            0, [in_code(f0, hm0), in_code(f1, hm1), in_code(f2, hm2)])}])
    return shapes


def dimw_shapes(tier):
    """One value consumed across the stages of a pipeline (cross-middleware ownership analysis and
    `Next` state threading): T0 (flavour/cloning x lifecycle) consumed by pre1 (scope 0), wrap1,
    post1 (scope 1) and the handler, each in its own mode; at least two consumers.
    quick: request-scoped and singleton T0; thorough: + transient, and a T1 (request-scoped, plain)
    built from T0 that the handler takes while the middlewares take T0."""
    shapes = []
    lcs = ["request_scoped", "singleton"] if tier == "quick" else LIFECYCLES
    for (f0, cl0), lc0 in itertools.product(FLAV_CL, lcs):
        t0 = ctor_op(0, f0, "0", "s", lc0, cl0)
        for pm, wm, qm, hm in itertools.product([None, "v", "r", "m"], [None, "v", "r"], [None, "v", "r"], [None, "v", "r", "m"]):
            if sum(x is not None for x in (pm, wm, qm, hm)) < 2:
                continue
            if tier == "quick" and lc0 == "singleton" and "m" in (pm, hm):
                continue
            ops = [t0,
                   {"k": "pre", "c": mw_id("pre", 1, False, in_code(f0, pm))},
                   {"k": "wrap", "c": mw_id("wrap", 1, False, in_code(f0, wm))},
                   {"k": "post", "c": mw_id("post", 1, False, in_code(f0, qm))},
                   {"k": "route", "c": handler_id(0, [in_code(f0, hm), "0", "0"])}]
            shapes.append(ops)
    # DIMW-1: four to five consumers inside ONE stage (no wrapping middleware): pre1, pre2, handler,
    # post1 [, post2] — move / borrow alternations that the per-stage clone bookkeeping must get right
    flavs = [("K", "clone_if_necessary"), ("P", None)] if tier == "quick" else FLAV_CL
    for (f0, cl0) in flavs:
        t0 = ctor_op(0, f0, "0", "s", "request_scoped", cl0)
        post2_opts = [None] if tier == "quick" else [None, "r", "v"]
        for p1, p2, hm, q1, q2 in itertools.product([None, "v", "r"], [None, "v", "r"], ["v", "r"], [None, "v", "r"], post2_opts):
            if sum(x is not None for x in (p1, p2, hm, q1, q2)) < 3:
                continue
            ops = [t0,
                   {"k": "pre", "c": mw_id("pre", 1, False, in_code(f0, p1))},
                   {"k": "pre", "c": mw_id("pre", 2, False, in_code(f0, p2))},
                   {"k": "post", "c": mw_id("post", 1, False, in_code(f0, q1))}]
            if q2 is not None:
                ops.append({"k": "post", "c": mw_id("post", 2, False, in_code(f0, q2))})
            ops.append({"k": "route", "c": handler_id(0, [in_code(f0, hm), "0", "0"])})
            shapes.append(ops)
    if tier == "thorough":
        for (f0, cl0), m10 in itertools.product(FLAV_CL, ["v", "r"]):
            t0 = ctor_op(0, f0, "0", "s", "request_scoped", cl0)
            t1 = ctor_op(1, "P", in_code(f0, m10), "s", "request_scoped", None)
            for pm, wm, qm, hm1 in itertools.product([None, "v", "r"], [None, "v", "r"], [None, "v", "r"], ["v", "r"]):
                if pm is None and wm is None and qm is None:
                    continue
                shapes.append([t0, t1,
                               {"k": "pre", "c": mw_id("pre", 1, False, in_code(f0, pm))},
                               {"k": "wrap", "c": mw_id("wrap", 1, False, in_code(f0, wm))},
                               {"k": "post", "c": mw_id("post", 1, False, in_code(f0, qm))},
                               {"k": "route", "c": handler_id(0, ["0", in_code("P", hm1), "0"])}])
    return shapes


# --------------------------------------------------------------------------------------------------
# MW family: words over {pre, post, wrap} before one route, with optional nesting point
# --------------------------------------------------------------------------------------------------
def mw_id(kind, idx, fallible=False, i0="0", i1="0"):
    return f"{kind.upper()}{idx}__{i0}_{i1}__{'F' if fallible else 'I'}"


def mw_shapes(tier):
    """All words of length <= L over {pre, post, wrap}; the route closes the word; optionally one
    later-registered middleware after the route (must not run); optionally the tail of the word and
    the route live in a nested blueprint (nesting point at every position).
    quick: L = 3; thorough: L = 4 plus a second route registered mid-word."""
    L = 3 if tier == "quick" else 4
    shapes = []
    kinds = ["pre", "post", "wrap"]
    for n in range(0, L + 1):
        for word in itertools.product(kinds, repeat=n):
            counters = {"pre": 0, "post": 0, "wrap": 0}
            ops = []
            ok = True
            for k in word:
                counters[k] += 1
                if counters[k] > 3:
                    ok = False
                    break
                ops.append({"k": k, "c": mw_id(k, counters[k])})
            if not ok:
                continue
            route = {"k": "route", "c": handler_id(0, ["0", "0", "0"])}
            # flat
            shapes.append(ops + [route])
            # one later-registered middleware of each kind (quick: only for n <= 2)
            if n <= (2 if tier == "quick" else 3):
                for k in kinds:
                    if counters[k] < 3:
                        shapes.append(ops + [route, {"k": k, "c": mw_id(k, counters[k] + 1)}])
            # nesting point at every position 0..n (tail + route nested)
            if n >= 1:
                for cut in range(0, n + 1):
                    shapes.append(ops[:cut] + [{"k": "nest", "bp": {"ops": ops[cut:] + [route]}}])
            # two nesting points (three blueprint levels): root word, middle word, inner word + route
            if n >= 2:
                for c1 in range(0, n + 1):
                    for c2 in range(c1, n + 1):
                        if c1 == 0 and c2 == 0:
                            continue
                        if tier == "quick" and not (c1 < c2 or c1 == n or c1 == 1):
                            continue
                        shapes.append(ops[:c1] + [{"k": "nest", "bp": {"ops": ops[c1:c2] + [
                            {"k": "nest", "bp": {"ops": ops[c2:] + [route]}}]}}])
            # bulk route import (`bp.routes(from![..])`) instead of an individually registered route:
            # the imported routes must see exactly the middlewares registered before the import
            if n <= (2 if tier == "quick" else 3):
                imp = {"k": "routes", "module": "crate::bulk1"}
                shapes.append(ops + [imp])
                for k in kinds:
                    if counters[k] < 3:
                        shapes.append(ops + [imp, {"k": k, "c": mw_id(k, counters[k] + 1)}])
                if n >= 1:
                    shapes.append(ops[:1] + [{"k": "nest", "bp": {"ops": ops[1:] + [imp, {"k": "pre", "c": mw_id("pre", 3)}]}}])
            if tier == "thorough" and n >= 2:
                # a second route registered mid-word (sees only the prefix of the word)
                for cut in range(0, n):
                    r1 = {"k": "route", "c": handler_id(1, ["0", "0", "0"])}
                    shapes.append(ops[:cut] + [r1] + ops[cut:] + [route])
    shapes += mw_tree_shapes(tier)
    return shapes


def mw_tree_shapes(tier):
    """SIBLING nested blueprints (the words above only nest along one path): middlewares registered before, between,
    inside and after sibling `nest` calls. Every route must see exactly the middlewares registered before it on its own
    path from the root: nothing of a sibling, nothing registered later.
      S1: [X, nest([Y, R1]), Z, nest([W, R0])]
      S2: [X, nest([Y, nest([R1])]), nest([Z, nest([R0])])]
      S3: [nest([Y, R1]), Z, R0]                      (a route of the parent after a nested sibling)
      S4: [X, nest([R1]), nest([Y, R0]), Z]           (Z registered after both: must not run)
    X, Y, Z, W range over {none, pre, post, wrap} (quick: the subsets listed below)."""
    kinds = [None, "pre", "post", "wrap"]
    r0 = {"k": "route", "c": handler_id(0, ["0", "0", "0"])}
    r1 = {"k": "route", "c": handler_id(1, ["0", "0", "0"])}

    def build(structure, choice):
        counters = {"pre": 0, "post": 0, "wrap": 0}
        ops = {}
        for name, k in choice.items():
            if k is None:
                ops[name] = []
                continue
            counters[k] += 1
            if counters[k] > 3:
                return None
            ops[name] = [{"k": k, "c": mw_id(k, counters[k])}]
        nest = lambda inner: {"k": "nest", "bp": {"ops": inner}}
        if structure == "S1":
            return ops["X"] + [nest(ops["Y"] + [r1])] + ops["Z"] + [nest(ops["W"] + [r0])]
        if structure == "S2":
            return ops["X"] + [nest(ops["Y"] + [nest([r1])]), nest(ops["Z"] + [nest([r0])])]
        if structure == "S3":
            return [nest(ops["Y"] + [r1])] + ops["Z"] + [r0]
        if structure == "S4":
            return ops["X"] + [nest([r1]), nest(ops["Y"] + [r0])] + ops["Z"]
        # S5/S6: ONE blueprint-building function mounted more than once (`bp.prefix("/v1").nest(api()); bp.prefix("/v2").nest(api())`):
        # both mounts carry the same registrations with the SAME source locations (bpgen `loc`); every mount keeps its middlewares.
        if structure == "S5":
            api = ops["Y"] + ops["W"] + [r0]
            return ops["X"] + [{"k": "nest", "prefix": "/v1", "loc": 900, "bp": {"ops": api}}] + ops["Z"] + \
                [{"k": "nest", "prefix": "/v2", "loc": 900, "bp": {"ops": api}}]
        if structure == "S6":
            api = ops["Y"] + ops["W"] + [r0]
            return [{"k": "nest", "prefix": "/v1", "loc": 900, "bp": {"ops": api}},
                    {"k": "nest", "prefix": "/v2", "bp": {"ops": ops["X"] + [{"k": "nest", "loc": 900, "bp": {"ops": api}}]}},
                    {"k": "nest", "prefix": "/v3", "loc": 900, "bp": {"ops": api}}]
        raise AssertionError(structure)

    if tier == "quick":
        domains = {
            "S1": {"X": [None, "wrap"], "Y": [None, "pre"], "Z": ["pre", "post", "wrap"], "W": [None, "post"]},
            "S2": {"X": [None], "Y": ["pre", "wrap"], "Z": [None, "post", "wrap"]},
            "S3": {"Y": ["pre", "wrap"], "Z": ["pre", "post"]},
            "S4": {"X": [None, "pre"], "Y": ["post", "wrap"], "Z": ["pre", "wrap"]},
            "S5": {"X": [None, "pre"], "Y": ["pre", "wrap", "post"], "W": [None, "post", "pre"], "Z": [None, "wrap"]},
            "S6": {"X": [None, "wrap"], "Y": ["pre", "wrap"], "W": [None, "post"]},
        }
    else:
        domains = {"S1": {n: kinds for n in "XYZW"}, "S2": {n: kinds for n in "XYZ"}, "S3": {n: kinds for n in "YZ"},
                   "S4": {n: kinds for n in "XYZ"}, "S5": {n: kinds for n in "XYWZ"}, "S6": {n: kinds for n in "XYW"}}
    shapes = []
    for structure, dom in domains.items():
        names = list(dom)
        for combo in itertools.product(*[dom[n] for n in names]):
            if all(c is None for c in combo):
                continue
            sh = build(structure, dict(zip(names, combo)))
            if sh is not None:
                shapes.append(sh)
    return shapes


# --------------------------------------------------------------------------------------------------
# ERR family: pipelines with fallible components, error handlers and observers
# --------------------------------------------------------------------------------------------------
def err_shapes(tier):
    """Pipelines of length <= 2 (quick) / <= 3 (thorough) where every middleware and the handler are
    the fallible variants, a fallible request-scoped constructor feeds the handler (and optionally a
    middleware), 0..2 observers registered at every position, and the error handler is one of
    {framework default, user fallback for pavex::Error, specific (blueprint-level), specific
    (attached at registration)}."""
    L = 2 if tier == "quick" else 3
    kinds = ["pre", "post", "wrap"]
    shapes = []
    eh_modes = ["default", "fallback", "specific", "attached"]
    ERR_OF = {"pre": "ERRPRE", "post": "ERRPOST", "wrap": "ERRW", "handler": "ERRH", "ctor": "ERRC"}

    def eh_ops(mode):
        if mode == "fallback":
            return [{"k": "eh", "c": "EH_PAVEXERROR_1__0"}]
        if mode == "specific":
            return [{"k": "eh", "c": f"EH_{e}_1__0"} for e in ("ERRC", "ERRH", "ERRPRE", "ERRPOST", "ERRW")]
        return []

    for n in range(0, L + 1):
        for word in itertools.product(kinds, repeat=n):
            if any(word.count(k) > 2 for k in kinds):
                continue
            for ehm in eh_modes:
                for ctor_user in ([None] if n == 0 else [None, 0]):
                    counters = {"pre": 0, "post": 0, "wrap": 0}
                    mws = []
                    for i, k in enumerate(word):
                        counters[k] += 1
                        i0 = "PR" if ctor_user == i else "0"
                        op = {"k": k, "c": mw_id(k, counters[k], True, i0)}
                        if ehm == "attached":
                            op["eh"] = f"EH_{ERR_OF[k]}_2__0"
                        mws.append(op)
                    ctor = ctor_op(0, "P", "0", "f", "request_scoped", None,
                                   eh="EH_ERRC_2__0" if ehm == "attached" else None)
                    route = {"k": "route", "c": handler_id(0, ["PR", "0", "0"], True)}
                    if ehm == "attached":
                        route["eh"] = "EH_ERRH_2__0"
                    base = eh_ops(ehm) + [ctor]
                    n_obs_opts = [0, 1, 2] if tier == "thorough" or n <= 1 else [0, 2]
                    for n_obs in n_obs_opts:
                        obs = [{"k": "observer", "c": f"OBS{j + 1}__0"} for j in range(n_obs)]
                        if n_obs == 0:
                            shapes.append(base + mws + [route])
                            continue
                        # all observers first; or split around the middlewares; plus one after the route
                        shapes.append(base + obs + mws + [route])
                        if n_obs == 2 and n >= 1:
                            shapes.append(base + obs[:1] + mws + obs[1:] + [route])
                        shapes.append(base + obs + mws + [route, {"k": "observer", "c": "OBS3__0"}])
    # ERR-SHARE: a request-scoped (or transient-fed) value shared between a fallible component, its
    # error handler and the error observers (the value must be built once per request on every
    # branch; transient inputs once per injection site)
    for t0lc, with_t1 in [("request_scoped", False), ("transient", True), ("request_scoped", True)]:
        for n in range(0, (1 if tier == "quick" else 2) + 1):
            for word in itertools.product(kinds, repeat=n):
                for share in ("T0", "T1") if with_t1 else ("T0",):
                    t0 = ctor_op(0, "P", "0", "s", t0lc, None)
                    base = [t0]
                    if with_t1:
                        base.append(ctor_op(1, "P", "PV" if t0lc == "transient" else "PR", "s", "request_scoped", None))
                    i0, i1 = ("PR", "0") if share == "T0" else ("0", "PR")
                    if share == "T1" and not with_t1:
                        continue
                    counters = {"pre": 0, "post": 0, "wrap": 0}
                    mws = []
                    for k in word:
                        counters[k] += 1
                        ehid = f"EH_{ERR_OF[k]}_1__{'PR' if share == 'T0' else '0_PR'}"
                        mws.append({"k": k, "c": mw_id(k, counters[k], True, i0, i1), "eh": ehid})
                    hcodes = ["PR", "0", "0"] if share == "T0" else ["0", "PR", "0"]
                    route = {"k": "route", "c": handler_id(0, hcodes, True), "eh": f"EH_ERRH_1__{'PR' if share == 'T0' else '0_PR'}"}
                    obs = [{"k": "observer", "c": f"OBS1__{'PR' if share == 'T0' else '0_PR'}"}]
                    shapes.append(base + obs + mws + [route])

    # ERR-OWN: ownership across control-flow branches (Ok path / Err path of a fallible handler whose
    # error handler also injects the value)
    own_flavs = [("K", "clone_if_necessary")] if tier == "quick" else [("K", "clone_if_necessary"), ("P", None), ("Y", None)]
    for (f0, cl0) in own_flavs:
        for m10, m20, m21, hm1, hm2, ehm in itertools.product(["v", "r", None], ["v", "r", None], ["r", None], ["r", "v", None], ["v", "r"], [None, "r", "v"]):
            if m20 is None and m21 is None:
                continue
            if hm1 is not None and m10 is None and False:
                continue
            t0 = ctor_op(0, f0, "0", "s", "request_scoped", cl0)
            t1 = ctor_op(1, "P", in_code(f0, m10), "s", "request_scoped", None)
            t2 = ctor_op(2, "P", f"{in_code(f0, m20)}_{in_code('P', m21)}", "s", "request_scoped", None)
            route = {"k": "route", "c": handler_id(0, ["0", in_code("P", hm1), in_code("P", hm2)], True),
                     "eh": f"EH_ERRH_1__{in_code(f0, ehm)}"}
            shapes.append([t0, t1, t2, route])

    # ERR-XCL: a never-clone value moved into the error handler of a fallible pre-processing
    # middleware and into a component that is skipped when that middleware fails (exclusive paths)
    for f0 in ("P", "K"):
        t0 = ctor_op(0, f0, "0", "s", "request_scoped", None)
        for with_wrap, consumer in itertools.product([False, True], ["handler", "pre2", "wrap"]):
            if consumer == "wrap" and not with_wrap:
                continue
            ops = [t0, {"k": "pre", "c": mw_id("pre", 1, True), "eh": f"EH_ERRPRE_1__{f0}V"}]
            if consumer == "pre2":
                ops.append({"k": "pre", "c": mw_id("pre", 2, False, in_code(f0, "v"))})
            if with_wrap:
                ops.append({"k": "wrap", "c": mw_id("wrap", 1, False, in_code(f0, "v") if consumer == "wrap" else "0")})
            ops.append({"k": "route", "c": handler_id(0, [in_code(f0, "v") if consumer == "handler" else "0", "0", "0"])})
            shapes.append(ops)

    # ERR-NEST: error handlers registered at different nesting levels than the failing components
    # (lookup walks from the component's blueprint to its ancestors; a specific handler anywhere on
    # that chain beats any fallback handler; the nearest one of each kind wins)
    def eh_set(kind, idx):
        if kind == "none":
            return []
        if kind == "fallback":
            return [{"k": "eh", "c": f"EH_PAVEXERROR_{idx}__0"}]
        return [{"k": "eh", "c": f"EH_{kind}_{idx}__0"}]

    kinds_eh = ["none", "fallback", "ERRH", "ERRC", "ERRPRE"]
    for root_eh, nested_eh in itertools.product(kinds_eh, kinds_eh):
        if root_eh == "none" and nested_eh == "none":
            continue
        for with_pre in ([False, True] if tier == "thorough" or (root_eh, nested_eh) in (("ERRH", "ERRC"), ("fallback", "fallback")) else [False]):
            inner = eh_set(nested_eh, 2) + [ctor_op(0, "P", "0", "f", "request_scoped", None)]
            if with_pre:
                inner.append({"k": "pre", "c": mw_id("pre", 1, True)})
            inner.append({"k": "route", "c": handler_id(0, ["PR", "0", "0"], True)})
            obs = [{"k": "observer", "c": "OBS1__0"}]
            shapes.append(eh_set(root_eh, 1) + obs + [{"k": "nest", "bp": {"ops": inner}}])
            # two levels: the handlers of the middle level sit between root and the failing components
            shapes.append(eh_set(root_eh, 1) + [{"k": "nest", "bp": {"ops": eh_set(nested_eh, 2) + obs + [
                {"k": "nest", "bp": {"ops": inner[len(eh_set(nested_eh, 2)):]}}]}}])
    # ERR-MUT: the Ok value of a fallible constructor borrowed `&mut` by the handler (and by a middleware)
    for f0, cl0 in (("P", None), ("K", "clone_if_necessary")):
        for hf in (False, True):
            t0 = ctor_op(0, f0, "0", "f", "request_scoped", cl0)
            shapes.append([t0, {"k": "route", "c": handler_id(0, [in_code(f0, "m"), "0", "0"], hf)}])
        shapes.append([ctor_op(0, f0, "0", "f", "request_scoped", cl0), {"k": "pre", "c": mw_id("pre", 1, False, in_code(f0, "m"))},
                       {"k": "route", "c": handler_id(0, [in_code(f0, "r"), "0", "0"])}])
    # ERR-METH: method-style error handlers (`#[pavex::methods] impl T`): the error reference is the SECOND input when the
    # receiver is another type (`fn handle(&self, #[px(error_ref)] e: &E)`), the first when the receiver is the error itself;
    # each next to a user fallback for pavex::Error that must NOT be chosen; method-style handler and pre-processor
    fbk = {"k": "eh", "c": "EH_PAVEXERROR_1__0"}
    mh = {"k": "ctor", "c": "C_MHOLDER_NEW", "lc": "request_scoped"}
    for with_fb in (False, True):
        extra = [fbk] if with_fb else []
        shapes.append(extra + [mh, {"k": "eh", "c": "EH_M_ERRH_SELF"}, {"k": "route", "c": handler_id(0, ["0", "0", "0"], True)}])
        shapes.append(extra + [{"k": "eh", "c": "EH_M_ERRH_ON_ERR"}, {"k": "route", "c": handler_id(0, ["0", "0", "0"], True)}])
        shapes.append(extra + [mh, {"k": "eh", "c": "EH_M_ERRPRE_SELF"}, {"k": "pre", "c": mw_id("pre", 1, True)},
                               {"k": "route", "c": handler_id(0, ["0", "0", "0"])}])
        shapes.append(extra + [{"k": "eh", "c": "EH_M_ERRPRE_ON_ERR"}, {"k": "pre", "c": mw_id("pre", 1, True)},
                               {"k": "route", "c": handler_id(0, ["0", "0", "0"])}])
        shapes.append(extra + [mh, {"k": "eh", "c": "EH_M_ERRH_SELF"}, {"k": "eh", "c": "EH_M_ERRPRE_SELF"}, {"k": "pre", "c": "PRE_M_SELF"},
                               {"k": "route", "c": "H0_M_SELF"}])
        shapes.append(extra + [mh, {"k": "eh", "c": "EH_M_ERRC_SELF"}, ctor_op(0, "P", "0", "f", "request_scoped", None),
                               {"k": "route", "c": handler_id(0, ["PR", "0", "0"])}])
    # ERR-OBSBETWEEN: one fallible middleware (or one fed by a fallible constructor) shared by two routes, with an error observer
    # registered BETWEEN the routes: failures on the second route must reach it, failures on the first must not
    for k in kinds:
        for variant in ("self-fallible", "fallible-input"):
            for n_before in (0, 1):
                ops = [{"k": "observer", "c": "OBS1__0"}] * n_before
                if variant == "self-fallible":
                    ops.append({"k": k, "c": mw_id(k, 1, True)})
                else:
                    ops.append(ctor_op(0, "P", "0", "f", "request_scoped", None))
                    ops.append({"k": k, "c": mw_id(k, 1, False, "PR")})
                ops.append({"k": "route", "c": handler_id(1, ["0", "0", "0"], True)})
                ops.append({"k": "observer", "c": "OBS2__0"})
                ops.append({"k": "route", "c": handler_id(0, ["0", "0", "0"], True)})
                shapes.append(ops)
    # ERR-OBS3: three error observers in scope of the failing route, registered on its own blueprint and / or
    # inherited from the parent (split a + b = 3), with the framework default, the user fallback and specific
    # error handlers; ERR-OBSLATE: observers the parent registers AFTER `nest` (they must not reach the
    # routes of the nested blueprint), alone and next to observers registered before / inside
    def fall_inner(with_pre):
        inner = [ctor_op(0, "P", "0", "f", "request_scoped", None)]
        if with_pre:
            inner.append({"k": "pre", "c": mw_id("pre", 1, True)})
        inner.append({"k": "route", "c": handler_id(0, ["PR", "0", "0"], True)})
        return inner

    o3 = [{"k": "observer", "c": f"OBS{j + 1}__0"} for j in range(3)]
    for ehm in ("default", "fallback", "specific"):
        for a in (3, 2, 1, 0):
            for with_pre in ((False, True) if tier == "thorough" or a in (3, 1) else (False,)):
                if a == 3:
                    shapes.append(eh_ops(ehm) + o3 + fall_inner(with_pre))
                else:
                    shapes.append(eh_ops(ehm) + o3[:a] + [{"k": "nest", "bp": {"ops": o3[a:] + fall_inner(with_pre)}}])
    for ehm in ("default", "specific"):
        for before, inside in ((0, 0), (1, 0), (0, 1), (1, 1)):
            ops = eh_ops(ehm) + o3[:before]
            ops.append({"k": "nest", "bp": {"ops": o3[1:1 + inside] + fall_inner(False)}})
            ops.append(o3[2])  # registered after the nest
            if tier == "thorough" or (before, inside) != (1, 1):
                shapes.append(ops)
            # ... and a route of the parent after it, which the late observer does cover
            shapes.append(ops + [{"k": "route", "c": handler_id(1, ["0", "0", "0"], True)}])
    # ERR-SHARE2: a request-scoped value whose only users are the handler and the error observer /
    # error handler of a fallible middleware that does NOT take it itself (the error branch lives in
    # another call graph than the other user; the value must still be built once per request)
    for k in kinds:
        for who in ("observer", "eh", "both"):
            for hmode in ("PR", "PV") if tier == "thorough" else ("PR",):
                ops = [ctor_op(0, "P" if hmode == "PR" else "K", "0", "s", "request_scoped", None if hmode == "PR" else "clone_if_necessary")]
                f0 = "P" if hmode == "PR" else "K"
                ops.append({"k": "observer", "c": f"OBS1__{f0}R" if who in ("observer", "both") else "OBS1__0"})
                ops.append({"k": k, "c": mw_id(k, 1, True),
                            "eh": f"EH_{ERR_OF[k]}_1__{f0}R" if who in ("eh", "both") else f"EH_{ERR_OF[k]}_2__0"})
                ops.append({"k": "route", "c": handler_id(0, [f0 + hmode[1], "0", "0"])})
                shapes.append(ops)
    # ERR-OBSMIX: one fallible middleware (or a middleware fed by a fallible constructor) whose error
    # handler takes the concrete error type, shared by a route WITHOUT error observers (in the
    # blueprint that registers the middleware) and a route WITH observers (in a nested blueprint):
    # the same middleware pipeline is generated once per observer set
    for k in kinds:
        for variant in ("self-fallible", "fallible-input"):
            for outer_obs, inner_obs in ((0, 1), (1, 2), (0, 2)):
                if tier == "quick" and (outer_obs, inner_obs) == (0, 2):
                    continue
                ops = []
                if variant == "self-fallible":
                    ops.append({"k": k, "c": mw_id(k, 1, True), "eh": f"EH_{ERR_OF[k]}_2__0"})
                else:
                    ops.append(ctor_op(0, "P", "0", "f", "request_scoped", None, eh="EH_ERRC_2__0"))
                    ops.append({"k": k, "c": mw_id(k, 1, False, "PR")})
                ops += [{"k": "observer", "c": f"OBS{j + 1}__0"} for j in range(outer_obs)]
                ops.append({"k": "route", "c": handler_id(0, ["0", "0", "0"])})
                inner = [{"k": "observer", "c": f"OBS{j + 1}__0"} for j in range(outer_obs, inner_obs)]
                inner.append({"k": "route", "c": handler_id(1, ["0", "0", "0"])})
                ops.append({"k": "nest", "bp": {"ops": inner}})
                shapes.append(ops)
    return shapes


# --------------------------------------------------------------------------------------------------
# packing
# --------------------------------------------------------------------------------------------------
def has_singleton(shape):
    for op in shape:
        if op["k"] == "ctor" and op.get("lc") == "singleton":
            return True
        if op["k"] == "nest" and has_singleton(op["bp"]["ops"]):
            return True
    return False


def single_spec(family, idx, shape):
    return {"id": f"{family}{idx:06d}", "family": family, "bp": {"ops": shape}, "members": [idx]}


def pack_specs(family, indexed_shapes, pack_size):
    """indexed_shapes: [(idx, shape)] -> pack specs: root with sibling nested blueprints /s<idx>."""
    specs = []
    for i in range(0, len(indexed_shapes), pack_size):
        chunk = indexed_shapes[i:i + pack_size]
        ops = [{"k": "nest", "prefix": f"/s{idx}", "bp": {"ops": shape}} for idx, shape in chunk]
        specs.append({"id": f"{family}pack{chunk[0][0]:06d}", "family": family, "bp": {"ops": ops},
                      "members": [idx for idx, _ in chunk], "pack": True})
    return specs


def rotate(lst, seed):
    if not lst:
        return lst
    k = seed % len(lst)
    return lst[k:] + lst[:k]


# --------------------------------------------------------------------------------------------------
# MIX family: deviation-bounded neighbourhoods that CROSS the dimensions the other families vary alone
# --------------------------------------------------------------------------------------------------
# A blueprint is described by a configuration over MIX_DIMS. Every dimension has a default value (its
# first one). The family is the set of ALL configurations that differ from a *centre* in at most k
# dimensions (k = 2 quick, 3 thorough), for each of the centres below: the bounded space is the
# Hamming ball of radius k, enumerated exhaustively (simplest first: by number of deviations, then
# lexicographically). Configurations that are meaningless (a mode for a middleware that is absent)
# are dropped; configurations producing the same blueprint are merged.
MIX_DIMS = [
    ("t0_flav", ["P", "Kn", "Kc", "Y"]),          # plain / Clone never-clone / Clone clone-if-necessary / Copy
    ("t0_lc", ["request_scoped", "transient", "singleton"]),
    ("t0_var", ["s", "f", "a"]),                   # sync infallible / fallible / async
    ("t0_at", ["same", "parent", "shadow"]),       # registered next to the route / in the parent blueprint / in both
    ("t1", [None, "v", "r"]),                      # T1 (plain) built from T0 by value / by reference
    ("t1_lc", ["request_scoped", "transient"]),
    ("t1_at", ["same", "parent"]),                 # T1's constructor next to T0's innermost registration / in the parent blueprint
    ("h_t0", ["r", "v", "m", None]),               # how the handler takes T0
    ("h_t1", [None, "r", "v"]),
    ("h_fall", [False, True]),
    ("mw1_kind", ["pre", None, "post", "wrap"]),
    ("mw1_t0", [None, "r", "v", "m"]),
    ("mw1_fall", [False, True]),
    ("mw2_kind", [None, "pre", "post", "wrap"]),
    ("mw2_t0", [None, "r", "v"]),
    ("mw2_fall", [False, True]),
    ("obs", [None, "plain1", "t0r", "plain2"]),
    ("eh", ["default", "fallback", "specific", "attached"]),
    ("eh_t0", [None, "r", "v"]),
    ("nest", ["flat", "route_nested", "prefix", "mid"]),
    ("route2", [None, "plain", "r", "v"]),          # a second route registered before the middlewares
    ("late", [None, "pre"]),                        # a middleware registered after the route (must not run)
]
MIX_CENTRES = {
    "A": {},
    # error plumbing everywhere: fallible T0, fallible handler, fallible wrap + post, one observer, specific handlers
    "B": {"t0_var": "f", "h_fall": True, "mw1_kind": "wrap", "mw1_fall": True, "mw2_kind": "post", "obs": "plain1",
          "eh": "specific"},
}
# C: ownership pressure ACROSS the call graphs of one pipeline: a clone-if-necessary singleton that the post-processing middleware's
# graph borrows while the handler's graph consumes it by value twice (directly and through a transient T1 that takes it by value).
# Explored with radius k-1 (quick: the centre and its 1-neighbours).
MIX_CENTRES["C"] = {"t0_flav": "Kc", "t0_lc": "singleton", "t1": "v", "t1_lc": "transient", "h_t0": "v", "h_t1": "v",
                    "mw1_kind": "post", "mw1_t0": "r"}
MIX_RADIUS_OFFSET = {"C": -1}
_MIX_ERR_OF = {"pre": "ERRPRE", "post": "ERRPOST", "wrap": "ERRW", "handler": "ERRH", "ctor": "ERRC"}


def mix_shape(cfg):
    """Configuration -> list of ops, or None when the configuration is meaningless."""
    fl = cfg["t0_flav"][0]
    cl = "clone_if_necessary" if cfg["t0_flav"] == "Kc" else None
    if cfg["t1"] is None and (cfg["t1_lc"] != "request_scoped" or cfg["h_t1"] is not None or cfg["t1_at"] != "same"):
        return None
    if cfg["t1_at"] == "parent" and cfg["t0_at"] != "shadow":
        return None  # only meaningful when the parent's T1 constructor would see ANOTHER T0 from where it is registered
    if cfg["mw1_kind"] is None and (cfg["mw1_t0"] is not None or cfg["mw1_fall"]):
        return None
    if cfg["mw2_kind"] is None and (cfg["mw2_t0"] is not None or cfg["mw2_fall"]):
        return None
    if cfg["mw1_kind"] == "wrap" and cfg["mw1_t0"] == "m":
        return None  # no such component in the library (wraps with &mut inputs exist, but keep the alphabet small)
    if cfg["eh"] == "default" and cfg["eh_t0"] is not None:
        return None
    if cfg["nest"] == "mid" and cfg["mw2_kind"] is None:
        return None
    t0_used = any(cfg[k] is not None for k in ("t1", "h_t0", "mw1_t0", "mw2_t0", "eh_t0")) or cfg["obs"] == "t0r" \
        or cfg["route2"] in ("r", "v")
    if not t0_used:
        return None
    eh_code = in_code(fl, cfg["eh_t0"])

    def eh_for(kind):
        if cfg["eh"] == "attached":
            return f"EH_{_MIX_ERR_OF[kind]}_2__{eh_code}"
        return None

    t0 = ctor_op(0, fl, "0", cfg["t0_var"], cfg["t0_lc"], cl, eh=eh_for("ctor") if cfg["t0_var"] == "f" else None)
    ehs = []
    if cfg["eh"] == "fallback":
        ehs = [{"k": "eh", "c": f"EH_PAVEXERROR_1__{eh_code}"}]
    elif cfg["eh"] == "specific":
        ehs = [{"k": "eh", "c": f"EH_{e}_1__{eh_code}"} for e in ("ERRC", "ERRH", "ERRPRE", "ERRPOST", "ERRW")]
    ctors = [t0]
    t1_op = None
    if cfg["t1"] is not None:
        t1_op = ctor_op(1, "P", in_code(fl, cfg["t1"]), "s", cfg["t1_lc"], None)
        if cfg["t1_at"] == "same":
            ctors.append(t1_op)
    obs = []
    if cfg["obs"] == "plain1":
        obs = [{"k": "observer", "c": "OBS1__0"}]
    elif cfg["obs"] == "plain2":
        obs = [{"k": "observer", "c": "OBS1__0"}, {"k": "observer", "c": "OBS2__0"}]
    elif cfg["obs"] == "t0r":
        obs = [{"k": "observer", "c": "OBS1__YV" if fl == "Y" else f"OBS1__{fl}R"}]
    r2 = []
    if cfg["route2"] is not None:
        code = {"plain": "0", "r": in_code(fl, "r"), "v": in_code(fl, "v")}[cfg["route2"]]
        r2 = [{"k": "route", "c": f"H1__{code}_0_0__I"}]
    mws = []
    counters = {"pre": 0, "post": 0, "wrap": 0}
    for which in ("mw1", "mw2"):
        k = cfg[f"{which}_kind"]
        if k is None:
            mws.append(None)
            continue
        counters[k] += 1
        op = {"k": k, "c": mw_id(k, counters[k], cfg[f"{which}_fall"], in_code(fl, cfg[f"{which}_t0"]))}
        if cfg[f"{which}_fall"] and eh_for(k):
            op["eh"] = eh_for(k)
        mws.append(op)
    route = {"k": "route", "c": handler_id(0, [in_code(fl, cfg["h_t0"]), in_code("P", cfg["h_t1"]), "0"], cfg["h_fall"])}
    if cfg["h_fall"] and eh_for("handler"):
        route["eh"] = eh_for("handler")
    late = [{"k": "pre", "c": mw_id("pre", 3)}] if cfg["late"] else []
    mw_ops = [m for m in mws if m is not None]
    head = ehs + ctors + obs + r2
    if cfg["nest"] == "flat":
        body = head + mw_ops + [route] + late
    elif cfg["nest"] == "route_nested":
        body = head + mw_ops + [{"k": "nest", "bp": {"ops": [route] + late}}]
    elif cfg["nest"] == "prefix":
        body = [{"k": "nest", "prefix": "/p", "bp": {"ops": head + mw_ops + [route] + late}}]
    else:  # mid: the first middleware in the parent, the second one and the route in the child
        first = [mws[0]] if mws[0] is not None else []
        body = head + first + [{"k": "nest", "bp": {"ops": [mws[1], route] + late}}]
    if cfg["t0_at"] == "same":
        return body
    body_wo_t0 = _mix_without(body, t0)
    if cfg["t0_at"] == "parent":
        return [t0, {"k": "nest", "bp": {"ops": body_wo_t0}}]
    # shadow: another registration of the same type in the parent; the nearest one must win
    outer = dict(t0)
    outer["c"] = t0["c"][:-1] + "S2" if cfg["t0_var"] == "s" else f"C_T0{fl}__0__S"
    outer.pop("eh", None)
    # t1_at == parent: T1's constructor is inherited from the parent, its T0 input is the one designated AT THE ROUTE (the child's)
    inherited = [t1_op] if (t1_op is not None and cfg["t1_at"] == "parent") else []
    return [outer] + inherited + [{"k": "nest", "bp": {"ops": body}}]


def _mix_without(ops, target):
    out = []
    for op in ops:
        if op is target:
            continue
        if op["k"] == "nest":
            op = dict(op)
            op["bp"] = {"ops": _mix_without(op["bp"]["ops"], target)}
        out.append(op)
    return out


def mix_configs(k):
    """All configurations within Hamming distance k of a centre, simplest first, no duplicates."""
    names = [d for d, _ in MIX_DIMS]
    seen = set()
    out = []
    for cname, centre in MIX_CENTRES.items():
        base = {d: vals[0] for d, vals in MIX_DIMS}
        base.update(centre)
        for r in range(0, k + MIX_RADIUS_OFFSET.get(cname, 0) + 1):
            for dims in itertools.combinations(range(len(MIX_DIMS)), r):
                choices = [[v for v in MIX_DIMS[i][1] if v != base[names[i]]] for i in dims]
                for combo in itertools.product(*choices):
                    cfg = dict(base)
                    for i, v in zip(dims, combo):
                        cfg[names[i]] = v
                    key = tuple(cfg[n] for n in names)
                    if key in seen:
                        continue
                    seen.add(key)
                    out.append((cname, r, cfg))
    return out


def mix_shapes(tier):
    k = 2 if tier == "quick" else 3
    shapes = []
    seen = set()
    for cname, r, cfg in mix_configs(k):
        sh = mix_shape(cfg)
        if sh is None:
            continue
        key = json.dumps(sh, sort_keys=True)
        if key in seen:
            continue
        seen.add(key)
        shapes.append(sh)
    return shapes
