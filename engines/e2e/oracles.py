"""Oracles of the e2e properties (C01-C10) over the shared observations. See DESIGN.md §4."""
import collections
import hashlib
import json
import os
import re
import shutil
import sys
import time

import families as F
import lib_e2e as L
import refmodel as M

# --------------------------------------------------------------------------------------------------
# helpers
# --------------------------------------------------------------------------------------------------
ANSI = re.compile(r"\x1b\[[0-9;]*m")


def first_error_title(stderr):
    """Normalised first ERROR diagnostic: names in backticks replaced by their class."""
    text = ANSI.sub("", stderr)
    pm = re.search(r"The application panicked.*?in (compiler/[^\s,]+), line (\d+)", text, flags=re.S)
    if pm:
        return f"panic at {pm.group(1)}:{pm.group(2)}"
    m = re.search(r"ERROR:\s*\n?\s*[×x]\s*(.*?)(?:\n\s*\n|\n\s*│\s*\n|$)", text, flags=re.S)
    title = m.group(1) if m else text.strip()[:200]
    title = re.sub(r"\s*│\s*", " ", title)
    title = re.sub(r"\s+", " ", title).strip()

    def cls(mm):
        name = mm.group(1)
        t = re.search(r"verif_app::(T[0-9])([PKY])\b", name)
        if t:
            return f"`<{t.group(2)}>`"
        if re.search(r"verif_app::[a-z]", name):
            f = re.search(r"verif_app::([a-z]+[0-9]?)_", name)
            return f"`<fn:{f.group(1) if f else 'x'}>`"
        return f"`{name}`"

    title = re.sub(r"`([^`]*)`", cls, title)
    return title[:220]


def abstract_cid(cid):
    head = cid.split("__")[0]
    return head


def abstract_seq(seq):
    return ">".join(f"{e[0]}:{abstract_cid(e[1])}" for e in seq)


def short_hash(s):
    return hashlib.sha256(s.encode()).hexdigest()[:8]


def member_of_request(spec, req_path):
    m = re.match(r"/s(\d+)/", req_path or "")
    return int(m.group(1)) if m else None


def iter_built_units(obs):
    """Yield (spec, gen_obs, build, run, script) for every spec that went to the build stage."""
    for spec in obs.get("built_specs", []):
        sid = spec["id"]
        gen = obs["packs_gen"].get(sid) if spec.get("pack") else obs["singles_gen"].get(sid)
        yield spec, gen, obs["build"].get(sid), obs["run"].get(sid), obs["scripts"].get(sid)


def iter_gen_units(obs):
    """Yield (spec, gen_obs) for every pavexc invocation of the family (singles and packs)."""
    if "shapes" in obs:
        for i, sh in enumerate(obs["shapes"]):
            spec = F.single_spec(obs["family"], i, sh)
            yield spec, obs["singles_gen"][spec["id"]]
        for p in obs.get("packs", []):
            yield p, obs["packs_gen"][p["id"]]
    else:
        for spec in obs.get("specs", []):
            yield spec, obs["gen"][spec["id"]]


def sample_spec(spec):
    return {"id": spec["id"], "ops": spec["bp"]["ops"] if not spec.get("pack") else f"pack of {len(spec['members'])} shapes"}


# --------------------------------------------------------------------------------------------------
# C01: accepted => compiles
# --------------------------------------------------------------------------------------------------
def compact_ops(ops):
    out = []
    for op in ops:
        if op["k"] == "nest":
            out.append("nest%s%s(%s)" % (":" + op["prefix"] if op.get("prefix") else "", ":" + op["domain"] if op.get("domain") else "",
                                         compact_ops(op["bp"]["ops"])))
        elif op["k"] == "ctor":
            out.append(f"{op['c']}/{(op.get('lc') or 'request_scoped')[0].upper()}{'+cin' if op.get('cl') == 'clone_if_necessary' else ''}"
                       + (f"!{op['eh']}" if op.get("eh") else ""))
        elif "c" not in op:
            out.append(f"{op['k']}:{op.get('module')}")
        else:
            out.append(op["c"] + (f"!{op['eh']}" if op.get("eh") else ""))
    return "|".join(out)


def compact_spec(spec):
    if spec.get("pack"):
        return f"pack[{spec['id']}]"
    return compact_ops(spec["bp"]["ops"])


def c01_structural_class(spec):
    """Collapse the manifestations of one recorded defect to one key per rustc error code:
    a wrapping middleware takes a request-scoped value (by value or by reference) that a component
    further inside the pipeline (a later stage, reached through the `Next` state) borrows mutably.
    Any other failing shape keeps its full compact spec as key."""
    try:
        an = M.Analysis(spec)
        for r in an.routes:
            P = M.Pipeline(an, r)
            for j, sc in enumerate(P.scopes):
                if sc["wrap"] is None:
                    continue
                wrap_types = {i["type"] for i in M.cat(sc["wrap"]["c"]).get("inputs", [])}
                inner = []
                for sc2 in P.scopes[j:]:
                    inner += sc2["pres"] + sc2["posts"]
                    if sc2 is not sc and sc2["wrap"] is not None:
                        inner.append(sc2["wrap"])
                inner.append(P.handler_op)
                for op in inner:
                    for i in M.cat(op["c"]).get("inputs", []):
                        if i["mode"] == "m" and i["type"] in wrap_types:
                            return "wrap-uses-value-mutably-borrowed-further-inside"
    except Exception:
        return None
    return None


def rustc_key(err):
    m = re.search(r"error(\[E\d+\])?: ([^\n]*)", err)
    if not m:
        return "rustc:unknown"
    msg = re.sub(r"`[^`]*`", "`_`", m.group(2))
    return f"rustc{m.group(1) or ''}:{msg[:100]}"


def oracle_c01(obs, rep, tier):
    n_built = 0
    shas = set()
    n_shapes = 0
    samples = []
    fails = 0
    for fam, o in obs.items():
        for spec, gen, build, run, script in iter_built_units(o):
            if build is None:
                continue
            n_built += 1
            n_shapes += len(spec.get("members", [1]))
            shas.add(gen.get("lib_sha"))
            if len(samples) < 3:
                samples.append(sample_spec(spec))
            if not build["build_ok"]:
                if spec.get("pack") and all(F.single_spec(fam, i, o["shapes"][i])["id"] in o["build"] for i in spec["members"]):
                    continue  # re-built member by member: the members carry the verdict
                fails += 1
                err = build["build_errors"][0] if build["build_errors"] else ""
                cls = c01_structural_class(spec)
                rep.violation(f"{fam}:{rustc_key(err)[:60]}:{cls or compact_spec(spec)}",
                              f"pavexc accepted blueprint {spec['id']} but the generated crate does not compile: {err[:300]}",
                              {"oracle": "C01", "spec": spec, "rustc": build["build_errors"][:2]})
    cov = {"evaluations": n_built, "distinct_nontrivial": len(shas), "exhaustive": True,
           "rule": "every blueprint of the families %s (bounds in engines/e2e/families.py) that the real `pavexc generate` "
                   "accepted is compiled by rustc (cargo build of the emitted crate with its emitted manifest, stable toolchain); "
                   "non-trivial/distinct = distinct SHA-256 of the emitted lib.rs; shapes accepted alone are compiled in packs of "
                   "%d sibling nested blueprints (each pack is itself an accepted blueprint), shapes with singletons alone"
                   % (sorted(obs), 10),
           "samples": samples, "accepted_shapes_compiled": n_shapes, "compile_failures": fails}
    return "exploration", cov, ["rustc (stable) is the judge of 'valid Rust'", "component bodies are instrumentation only"]


# --------------------------------------------------------------------------------------------------
# C02: rule-abiding => accepted
# --------------------------------------------------------------------------------------------------
def c02_structural_class(an):
    """Key refinement for one recorded defect: the blueprint is in the class only because two by-value
    consumers sit on mutually exclusive control-flow paths (refmodel.exclusive_by_value_sites)."""
    try:
        for r in an.routes:
            P = M.Pipeline(an, r)
            D = M.Deps(an, P)
            for ty in D.ctor_of:
                if M.exclusive_by_value_sites(P, D, ty):
                    return "exclusive-paths[error-handler-of-pre|later-component]"
    except Exception:
        return None
    return None


def oracle_c02(obs, rep, tier):
    n = 0
    in_class = 0
    hist = collections.Counter()
    samples = []
    distinct = set()
    for fam, o in obs.items():
        for spec, gen in iter_gen_units(o):
            n += 1
            an = M.Analysis(spec)
            verdict, why = M.classify_spec(an)
            hist[f"{verdict}:{'accepted' if gen['exit'] == 0 else 'rejected'}"] += 1
            if verdict != "must_accept":
                continue
            in_class += 1
            distinct.add(json.dumps(spec["bp"], sort_keys=True))
            if len(samples) < 3:
                samples.append(sample_spec(spec))
            if gen["exit"] != 0 or gen["n_error"] > 0:
                title = first_error_title(gen["stderr"])
                cls = c02_structural_class(an)
                if cls:
                    title = f"{cls}:{title[:80]}"
                rep.violation(f"{fam}:reject:{title}",
                              f"blueprint {spec['id']} is inside the rule-abiding class but pavexc rejected it: {title}",
                              {"oracle": "C02", "spec": spec, "stderr": ANSI.sub('', gen["stderr"])[:3000]})
    cov = {"evaluations": n, "distinct_nontrivial": len(distinct), "exhaustive": True,
           "rule": "all blueprints of the families %s; the reference model's class predicate (refmodel.classify_spec: every "
                   "injected type constructible in scope, acyclic, singletons depend on singletons only, no &mut, and each value "
                   "only &-borrowed / moved once and never borrowed / Copy / Clone+clone-if-necessary) selects the members that "
                   "MUST be accepted; non-trivial = in the class (distinct blueprints)" % sorted(obs),
           "samples": samples, "in_class": in_class, "verdict_histogram": dict(hist)}
    return "exploration", cov, ["the class predicate is deliberately narrower than the compiler's acceptance"]


# --------------------------------------------------------------------------------------------------
# trace oracles (C03, C04, C05, C06)
# --------------------------------------------------------------------------------------------------
def resp_matches(exp, got):
    if exp is None:
        return True
    if exp.get("status") is not None and exp["status"] != got.get("status"):
        return False
    if exp.get("body") is not None and exp["body"] != got.get("body"):
        return False
    return True


def eval_sequences(obs, rep, tier, prop, want_fail_plans):
    """C05 (want_fail_plans=False: fault-free and early-return plans) / C06 (True: all plans)."""
    n_req = 0
    n_nontrivial = set()
    samples = []
    outcomes = collections.Counter()
    n_specs = 0
    for fam, o in obs.items():
        for spec, gen, build, run, script in iter_built_units(o):
            if not build or not build["build_ok"] or run is None:
                continue
            n_specs += 1
            an = M.Analysis(spec)
            st = run.get("startup")
            if not st or not st.get("ok"):
                rep.violation(f"{fam}:startup-failure", f"server of {spec['id']} did not start: {st}",
                              {"oracle": prop, "spec": spec, "startup": st})
                continue
            for req, resp in zip(script, run["responses"]):
                has_fail = any(p.startswith("fail") for p in req["plan"])
                if has_fail and not want_fail_plans:
                    continue
                P = M.Pipeline(an, an.routes[req["route"]])
                acc = M.acceptable_runs(an, P, req["plan"])
                if acc is None:
                    continue
                n_req += 1
                events = M.parse_trace(resp.get("trace", []))
                seq = M.call_sequence(events)
                norm = lambda s: [tuple(e) for e in s]
                ok = any(norm(ev) == seq and resp_matches(r, resp) for ev, r in acc)
                plan_kind = ",".join(sorted(p.split(":")[0] + ":" + abstract_cid(p.split(":")[1]) for p in req["plan"])) or "none"
                outcomes[f"{plan_kind if len(outcomes) < 400 else 'other'}:{'ok' if ok else 'MISMATCH'}"] += 1
                n_nontrivial.add((abstract_seq(seq), plan_kind))
                if len(samples) < 3 and len(seq) >= 3:
                    samples.append({"spec": spec["id"], "request": req, "observed": abstract_seq(seq), "status": resp.get("status")})
                if not ok:
                    exp_seq, exp_resp = acc[0]
                    key = f"{fam}:seq:{plan_kind}:{short_hash(abstract_seq(exp_seq) + '=>' + abstract_seq(seq) + str(resp.get('status')))}"
                    member = member_of_request(spec, req["path"])
                    rep.violation(key,
                                  f"{spec['id']} {req['path']} plan={req['plan']}: expected call sequence [{abstract_seq(exp_seq)}] "
                                  f"resp={exp_resp}, observed [{abstract_seq(seq)}] status={resp.get('status')} body={resp.get('body')!r}",
                                  {"oracle": prop, "spec": spec, "member": member, "request": req,
                                   "expected_any_of": [[list(map(list, ev)), r] for ev, r in acc][:6],
                                   "observed": {"seq": [list(e) for e in seq], "status": resp.get("status"), "body": resp.get("body"),
                                                "trace": resp.get("trace")}})
    cov = {"evaluations": n_req, "distinct_nontrivial": len(n_nontrivial), "exhaustive": True,
           "rule": "for every accepted blueprint of the families %s, every route x every single-fault plan "
                   "(%s): the sequence of component invocations (pre/wrap-enter/wrap-exit/handler/post/error handler/observer) "
                   "recorded by the instrumented application and the HTTP response must equal the reference interpreter's "
                   "(refmodel.Sim, DESIGN Appendix A.3/A.4); distinct = distinct (abstract sequence, plan kind)"
                   % (sorted(obs), "fault-free, each pre early-returning, each fallible component failing" if want_fail_plans
                      else "fault-free and each pre-processor returning early"),
           "samples": samples, "servers": n_specs, "outcome_histogram": dict(outcomes)}
    return "exploration", cov, ["the point at which a failing shared constructor surfaces is unspecified up to its first consumer",
                                "one worker thread, sequential requests, Connection: close"]


def oracle_c05(obs, rep, tier):
    return eval_sequences(obs, rep, tier, "C05", False)


def oracle_c06(obs, rep, tier):
    return eval_sequences(obs, rep, tier, "C06", True)


def eval_values(obs, rep, tier, prop):
    """C03 (lifecycles) / C04 (provenance) on constructor/clone/consumer events."""
    n_req = 0
    distinct = set()
    samples = []
    hist = collections.Counter()
    for fam, o in obs.items():
        for spec, gen, build, run, script in iter_built_units(o):
            if not build or not build["build_ok"] or run is None:
                continue
            an = M.Analysis(spec)
            st = run.get("startup")
            if not st or not st.get("ok"):
                rep.violation(f"{fam}:startup-failure", f"server of {spec['id']} did not start: {st}",
                              {"oracle": prop, "spec": spec, "startup": st})
                continue
            startup = M.parse_trace(st.get("trace", []))
            startup_new = collections.defaultdict(list)
            for ev in startup:
                if ev["e"] == "new":
                    startup_new[ev["type"]].append(ev)
            known_ids = {ev["id"] for ev in startup if ev["e"] in ("new", "clone")}
            # build time (ApplicationState::new): a transient is built once per injection site there too
            if prop == "C03":
                lc_of = {}
                for node in an.nodes:
                    for op in node.ctor_ops:
                        lc_of.setdefault(op["c"], set()).add(M.lifecycle(op))
                sites = collections.defaultdict(list)
                for ev in startup:
                    if ev["e"] == "new":
                        for tag in ev["ins"]:
                            if lc_of.get(tag["by"]) == {"transient"} and not tag["cloned"] and M.flavour_of(tag["type"]) != "Y":
                                sites[tag["type"]].append((ev["by"], tag["id"]))
                for ty, lst in sites.items():
                    hist[f"startup:transient:{len(lst)}-sites"] += 1
                    ids = [i for _, i in lst]
                    if len(ids) != len(set(ids)):
                        rep.violation(f"{fam}:lifecycle:transient:instance-shared-at-build-time",
                                      f"{spec['id']}: while the application state was built, two injection sites {[c for c, _ in lst]} received the "
                                      f"same transient {ty} instance {sorted(ids)}",
                                      {"oracle": prop, "spec": spec, "startup_trace": st.get("trace")})
            for req, resp in zip(script, run["responses"]):
                n_req += 1
                P = M.Pipeline(an, an.routes[req["route"]])
                D = M.Deps(an, P)
                events = M.parse_trace(resp.get("trace", []))
                seen_ids = set(known_ids)
                news = collections.defaultdict(list)
                site_tags = collections.defaultdict(list)  # type -> [(consumer cid, tag)]
                problems = []
                for ev in events:
                    if ev["e"] == "new":
                        news[ev["type"]].append(ev)
                    if ev["e"] in ("new", "call"):
                        consumer = ev["by"] if ev["e"] == "new" else ev["cid"]
                        for tag in ev["ins"]:
                            site_tags[tag["type"]].append((consumer, tag))
                            if tag["id"] not in seen_ids and M.flavour_of(tag["type"]) != "Y":
                                problems.append(("C04", "provenance:use-before-construction",
                                                 f"{consumer} received {tag} before any construction event for it"))
                    if ev["e"] in ("new", "clone"):
                        seen_ids.add(ev["id"])
                for ty, tags in site_tags.items():
                    if ty not in D.ctor_of:
                        continue
                    op, owner = D.ctor_of[ty]
                    if op["k"] == "prebuilt":
                        continue
                    lc = M.lifecycle(op)
                    fl = M.flavour_of(ty)
                    cin = M.is_cin(op)
                    hist[f"{lc}:{fl}{'+cin' if cin else ''}"] += 1
                    distinct.add((lc, fl, cin, len(tags), req["plan"][0].split(":")[0] if req["plan"] else "none"))
                    for consumer, tag in tags:
                        if tag["by"] != op["c"]:
                            problems.append(("C04", f"provenance:wrong-constructor:designated-is-{lc}",
                                             f"{consumer} received a {ty} built by {tag['by']}, the blueprint designates {op['c']}"))
                        if tag["cloned"] and not (fl == "K" and cin):
                            problems.append(("C04", f"provenance:clone-of-never-clone:{lc}",
                                             f"{consumer} received a clone of {ty} whose constructor is never-clone"))
                    roots = {t["root"] for _, t in tags}
                    if lc == "request_scoped":
                        if len(news[ty]) > 1:
                            problems.append(("C03", "lifecycle:request_scoped:constructed-twice",
                                             f"{ty} constructed {len(news[ty])} times in one request"))
                        if len(roots) > 1:
                            problems.append(("C03", "lifecycle:request_scoped:instances-not-shared",
                                             f"consumers of request-scoped {ty} saw different instances {sorted(roots)}"))
                    elif lc == "transient":
                        ids = [t["id"] for _, t in tags if not t["cloned"]]
                        if fl != "Y" and len(ids) != len(set(ids)):
                            problems.append(("C03", "lifecycle:transient:instance-shared",
                                             f"two injection sites received the same transient {ty} instance"))
                        static_sites = sum(m for (_, _, _, m) in D.consumers(ty))
                        if fl != "Y" and len(news[ty]) > static_sites:
                            problems.append(("C03", "lifecycle:transient:more-constructions-than-injection-sites",
                                             f"transient {ty} constructed {len(news[ty])} times in one request but the pipeline has "
                                             f"only {static_sites} injection site(s) for it"))
                        if len(news[ty]) < len(set(ids)):
                            problems.append(("C03", "lifecycle:transient:fewer-constructions-than-sites",
                                             f"{len(set(ids))} distinct {ty} instances consumed but {len(news[ty])} constructed"))
                    else:  # singleton
                        if news[ty]:
                            problems.append(("C03", "lifecycle:singleton:constructed-at-request-time",
                                             f"singleton {ty} constructed while serving a request"))
                        if len(startup_new[ty]) > 1:
                            problems.append(("C03", "lifecycle:singleton:constructed-twice",
                                             f"singleton {ty} constructed {len(startup_new[ty])} times at startup"))
                        if startup_new[ty] and roots != {startup_new[ty][0]["id"]}:
                            problems.append(("C03", "lifecycle:singleton:foreign-instance",
                                             f"consumers saw roots {sorted(roots)}, the singleton is {startup_new[ty][0]['id']}"))
                        for consumer, tag in tags:
                            mode = next((i["mode"] for i in M.cat(consumer).get("inputs", []) if i["type"] == ty), None)
                            # A clone behind a reference is tolerated for clone-if-necessary singletons
                            # (same root; the user allowed duplicates); for never-clone ones any clone is
                            # reported by the provenance oracle.
                            if mode == "r" and tag["cloned"] and not cin:
                                problems.append(("C03", "lifecycle:singleton:clone-behind-reference",
                                                 f"{consumer} borrows singleton {ty} but received a clone"))
                # never-clone types must not be cloned at all
                for ev in events:
                    if ev["e"] == "clone" and ev["type"] in D.ctor_of:
                        op, _ = D.ctor_of[ev["type"]]
                        if op["k"] != "prebuilt" and not M.is_cin(op):
                            problems.append(("C04", f"provenance:clone-event-of-never-clone:{M.lifecycle(op)}",
                                             f"{ev['type']} (never-clone) was cloned"))
                if len(samples) < 3 and site_tags:
                    samples.append({"spec": spec["id"], "request": req, "trace": resp.get("trace")})
                for p, key, what in problems:
                    if p != prop:
                        continue
                    rep.violation(f"{fam}:{key}", f"{spec['id']} {req['path']} plan={req['plan']}: {what}",
                                  {"oracle": prop, "spec": spec, "member": member_of_request(spec, req["path"]), "request": req,
                                   "trace": resp.get("trace"), "startup_trace": st.get("trace")})
    cov = {"evaluations": n_req, "distinct_nontrivial": len(distinct), "exhaustive": True,
           "rule": "for every accepted blueprint of the families %s, every request of its script (2 fault-free requests per route, "
                   "then one per single-fault plan): construction / clone / consumption events carry (instance id, root id, "
                   "constructor, cloned) and are checked against lifecycle and provenance rules (oracles.eval_values); "
                   "distinct = distinct (lifecycle, flavour, cloning, #sites, plan kind)" % sorted(obs),
           "samples": samples, "type_site_histogram": dict(hist)}
    return "exploration", cov, ["Copy values cannot be told apart after a copy", "constructor relative order is unspecified and not checked"]


def oracle_c03(obs, rep, tier):
    return eval_values(obs, rep, tier, "C03")


def oracle_c04(obs, rep, tier):
    return eval_values(obs, rep, tier, "C04")


# --------------------------------------------------------------------------------------------------
# C09: verdict + atomicity on every invocation
# --------------------------------------------------------------------------------------------------
def oracle_c09(obs, rep, tier):
    n = 0
    hist = collections.Counter()
    samples = []
    distinct = set()
    for fam, o in obs.items():
        for spec, gen in iter_gen_units(o):
            n += 1
            case = {"oracle": "C09", "spec": spec, "exit": gen["exit"], "stderr": ANSI.sub("", gen["stderr"])[-2500:]}
            outcome = "accepted" if gen["exit"] == 0 else ("rejected" if gen["exit"] == 1 else f"exit{gen['exit']}")
            hist[outcome] += 1
            distinct.add((outcome, first_error_title(gen["stderr"]) if gen["exit"] else ""))
            if len(samples) < 3 and gen["exit"] == 1:
                samples.append({"spec": sample_spec(spec), "exit": 1, "diagnostic": first_error_title(gen["stderr"])})
            if gen["timed_out"]:
                rep.violation(f"{fam}:hang", f"pavexc did not terminate within {L.PAVEXC_TIMEOUT_S}s (nor within {3 * L.PAVEXC_TIMEOUT_S}s when re-run alone) on {spec['id']}", case)
                continue
            if gen["panic"]:
                m = re.search(r"in (compiler/[^\s,]+), line (\d+)", gen["stderr"])
                where = f"{m.group(1)}:{m.group(2)}" if m else "unknown"
                # planted blueprints carry the rule and the kind of position that was planted: a panic site reached from ANOTHER kind of
                # input is another finding (a recorded finding must not mask it)
                pl = spec.get("plant") or {}
                cls = f":{pl['rule']}:{str(pl.get('key') or pl.get('pos') or '').split(':')[0].split('@')[0]}" if pl.get("rule") else ""
                tb = spec.get("tables")
                if not cls and tb and len(tb) == 1 and not spec.get("pack"):  # a route table served alone: its structure and fallback placement
                    cls = f":{tb[0]['table']['struct']}:{tb[0]['table']['fb']}"
                rep.violation(f"{fam}:panic:{where}{cls}", f"pavexc panicked on {spec['id']} at {where}", case)
                continue
            if gen["exit"] not in (0, 1):
                rep.violation(f"{fam}:exit:{gen['exit']}", f"pavexc ended with status {gen['exit']} on {spec['id']}", case)
                continue
            if gen["exit"] == 1 and gen["n_error"] == 0:
                rep.violation(f"{fam}:failure-without-diagnostic", f"pavexc exited 1 without an ERROR diagnostic on {spec['id']}", case)
            if gen["exit"] == 0 and gen["n_error"] > 0:
                rep.violation(f"{fam}:error-diagnostic-with-exit-0", f"pavexc printed an ERROR but exited 0 on {spec['id']}", case)
            if gen["exit"] != 0 and (gen["sdk_changed_files"] or gen["root_manifest_changed"]):
                rep.violation(f"{fam}:not-atomic", f"failing run on {spec['id']} modified {gen['sdk_changed_files']} "
                              f"root_manifest_changed={gen['root_manifest_changed']}", case)
    cov = {"evaluations": n, "distinct_nontrivial": len(distinct), "exhaustive": True,
           "rule": "every `pavexc generate` invocation made for the families %s (valid, rule-breaking and mixed blueprints): "
                   "terminates within %ds, exit status 0 or 1, >=1 ERROR diagnostic iff status 1, no panic banner, and on failure "
                   "the SDK already on disk in that workspace (left by the previous successful run) and the workspace manifest are "
                   "byte-identical; distinct = distinct (outcome, normalised first diagnostic)" % (sorted(obs), L.PAVEXC_TIMEOUT_S),
           "samples": samples, "outcome_histogram": dict(hist)}
    return "exploration", cov, ["the application crate compiles (verif_app is built by cargo in the same run)"]


# --------------------------------------------------------------------------------------------------
# registry
# --------------------------------------------------------------------------------------------------
def observe_special_family(fam, tier):
    """Families that are not packable shape lists live in plug-in modules fam_<name>.py exposing
    observe(tier) -> observation dict (see EXTENDING.md)."""
    import importlib
    mod = importlib.import_module(f"fam_{fam}")
    o = mod.observe(tier)
    o.setdefault("family", fam)
    o.setdefault("tier", tier)
    return o


FAMILIES_OF = {
    "C01": lambda tier: ["di", "dimw", "mw", "err", "mix"],
    "C02": lambda tier: ["di", "dimw", "mw", "err", "mix"],
    "C03": lambda tier: ["di", "dimw", "mw", "err", "mix"],
    "C04": lambda tier: ["di", "dimw", "mw", "err", "mix"],
    "C05": lambda tier: ["mw", "mix"],
    "C06": lambda tier: ["err", "mix"],
    "C09": lambda tier: ["di", "dimw", "mw", "err", "route", "mix"],
}

ORACLES = {"C01": oracle_c01, "C02": oracle_c02, "C03": oracle_c03, "C04": oracle_c04, "C05": oracle_c05,
           "C06": oracle_c06, "C09": oracle_c09}


def _load_plugins():
    """fam_*.py may export PROPERTIES = {"Cxx": (families_fn(tier) -> [family], oracle_fn(obs, rep, tier))}.
    A plug-in oracle for a property that already has one is chained: both run, coverage is merged."""
    import glob
    import importlib
    here = os.path.dirname(os.path.abspath(__file__))
    for path in sorted(glob.glob(f"{here}/fam_*.py")):
        mod = importlib.import_module(os.path.basename(path)[:-3])
        for prop, (fams_fn, oracle_fn) in getattr(mod, "PROPERTIES", {}).items():
            if prop in ORACLES:
                base_f, base_o = FAMILIES_OF[prop], ORACLES[prop]

                def fams(tier, base_f=base_f, fams_fn=fams_fn):
                    return list(dict.fromkeys(base_f(tier) + fams_fn(tier)))

                def oracle(obs, rep, tier, base_f=base_f, base_o=base_o, fams_fn=fams_fn, oracle_fn=oracle_fn):
                    lvl, cov, asm = base_o({f: obs[f] for f in base_f(tier) if f in obs}, rep, tier)
                    sub = {f: obs[f] for f in fams_fn(tier) if f in obs}
                    if not sub and fams_fn(tier):  # --replay of another family's case: this plug-in has nothing to judge
                        return lvl, cov, asm
                    lvl2, cov2, asm2 = oracle_fn(sub, rep, tier)
                    cov = dict(cov)
                    cov["evaluations"] += cov2.get("evaluations", 0)
                    cov["distinct_nontrivial"] += cov2.get("distinct_nontrivial", 0)
                    cov["samples"] = cov.get("samples", []) + cov2.get("samples", [])[:2]
                    cov["rule"] = cov["rule"] + " || PLUS: " + cov2.get("rule", "")
                    cov["exhaustive"] = bool(cov.get("exhaustive")) and bool(cov2.get("exhaustive"))
                    pc = dict(cov.get("plugin_coverage", {}))
                    pc["+".join(fams_fn(tier))] = {k: v for k, v in cov2.items() if k not in ("samples", "rule", "plugin_coverage")}
                    if isinstance(cov2.get("plugin_coverage"), dict):
                        pc.update(cov2["plugin_coverage"])
                    cov["plugin_coverage"] = pc
                    return lvl, cov, list(dict.fromkeys(asm + asm2))

                FAMILIES_OF[prop], ORACLES[prop] = fams, oracle
            else:
                FAMILIES_OF[prop], ORACLES[prop] = fams_fn, oracle_fn


_load_plugins()


def replay(prop, path, rep):
    with open(path) as f:
        doc = json.load(f)
    case = doc.get("case", doc)
    spec = case["spec"]
    import orchestrator
    d = f"{L.E2E_WORK}/replay-{prop}"
    shutil.rmtree(d, ignore_errors=True)
    o = orchestrator.observe_specs([spec], d)
    fam = spec.get("family", "replay")
    obs = {fam: {"family": fam, "specs": [spec], "gen": o["gen"], "built_specs": [spec] if o["build"] else [],
                 "singles_gen": o["gen"], "packs_gen": o["gen"], "build": o["build"], "run": o["run"], "scripts": o["scripts"]}}
    level, cov, _ = ORACLES[prop](obs, rep, "quick")
    print(json.dumps({"gen_exit": o["gen"][spec["id"]]["exit"], "build": o["build"].get(spec["id"]),
                      "violations": [v["key"] for v in rep.violations]}, indent=1))
    return 1 if rep.violations else 0
