#!/usr/bin/env python3
"""Prepare the e2e engine after a fresh restore: generate verif_app, document it once (rustdoc cache),
and compile the dependency closure of the generated SDKs into the shared batch target dir."""
import os
import sys

sys.path.insert(0, os.path.dirname(os.path.abspath(__file__)))
import lib_e2e as L  # noqa: E402
import orchestrator  # noqa: E402

L.ensure_built()
L.warm_cache()
spec = {"id": "setupwarm", "family": "setup", "bp": {"ops": [
    {"k": "ctor", "c": "C_T0P__0__S", "lc": "request_scoped"}, {"k": "route", "c": "H0__PR_0_0__I"}]}}
o = orchestrator.observe_specs([spec], f"{L.E2E_WORK}/setup")
ok = o["build"].get("setupwarm", {}).get("build_ok") and o["run"].get("setupwarm", {}).get("responses")
if not ok:
    L.machinery("e2e setup smoke run failed: " + str(o["gen"]["setupwarm"].get("stderr", ""))[-500:])
print("e2e setup ok")
