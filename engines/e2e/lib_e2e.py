"""Infrastructure of the e2e engine: builds, slot workspaces, pavexc fan-out, batch builds, runner.

Everything here is plumbing; oracles live in refmodel.py, enumeration in families.py.
"""
import concurrent.futures as cf
import hashlib
import json
import os
import re
import shutil
import subprocess
import sys
import threading
import time

VERIF = "/verif"
REPO = os.environ.get("VERIF_E2E_REPO", "/repo")  # mutant runs point this at a scratch worktree
WORK = f"{VERIF}/work"
E2E = os.path.dirname(os.path.abspath(__file__))  # a scratch copy of this directory is self-contained
TARGET_REPO = f"{WORK}/target-repo" if REPO == "/repo" else f"{WORK}/target-repo-{hashlib.sha256(REPO.encode()).hexdigest()[:8]}"
PAVEXC = f"{TARGET_REPO}/release/pavexc"
BPGEN = f"{WORK}/target-verif/release/bpgen"
HOME = f"{WORK}/homes/shared"  # replaced below by a directory private to (namespace, state of the repository sources)
DOCS_TOOLCHAIN = "pavex-verif-docs"
NSLOTS = int(os.environ.get("VERIF_SLOTS", "16"))
# Namespace for scratch directories, so that several orchestrator processes (e.g. a developer run next
# to a registered check) do not share slot workspaces or cargo target dirs. Empty for registered checks.
NS = os.environ.get("VERIF_E2E_NS", "")
WSROOT = f"{WORK}/ws{NS}"
E2E_WORK = f"{WORK}/e2e{NS}"
BATCH_TARGET = f"{WORK}/target-batch{NS}"
OBS_ROOT = f"{WORK}/obs{NS}"
DOC_TARGET = f"{WORK}/doc-target{NS}"
APP = f"{E2E}/app" if not NS else f"{WORK}/app{NS}"
PAVEXC_TIMEOUT_S = 120


class MachineryError(Exception):
    pass


def machinery(msg):
    print(f"MACHINERY-ERROR {msg}", flush=True)
    sys.exit(2)


def log(msg):
    print(f"[e2e {time.strftime('%H:%M:%S')}] {msg}", file=sys.stderr, flush=True)


def base_env():
    e = dict(os.environ)
    e["CARGO_NET_OFFLINE"] = "true"
    e["CARGO_TERM_COLOR"] = "never"
    e["RUSTUP_HOME"] = os.environ.get("RUSTUP_HOME", os.path.expanduser("~/.rustup"))
    e["CARGO_HOME"] = os.environ.get("CARGO_HOME", os.path.expanduser("~/.cargo"))
    return e


def sha256_file(p):
    h = hashlib.sha256()
    with open(p, "rb") as f:
        for chunk in iter(lambda: f.read(1 << 20), b""):
            h.update(chunk)
    return h.hexdigest()


def dir_digest(d):
    """{relative path: (sha256, mtime_ns)} for every file under d (missing dir -> {})."""
    out = {}
    if not os.path.isdir(d):
        return out
    for root, _dirs, files in os.walk(d):
        for fn in sorted(files):
            p = os.path.join(root, fn)
            out[os.path.relpath(p, d)] = (sha256_file(p), os.stat(p).st_mtime_ns)
    return out


# --------------------------------------------------------------------------------------------------
# tree hash (observation cache key)
# --------------------------------------------------------------------------------------------------
def tree_hash():
    h = hashlib.sha256()
    roots = [f"{REPO}/compiler", f"{REPO}/runtime", f"{REPO}/rustdoc", f"{REPO}/px_workspace_hack"]
    files = [f"{REPO}/Cargo.toml", f"{REPO}/Cargo.lock"]
    for r in roots:
        for root, dirs, fs in os.walk(r):
            dirs[:] = sorted(d for d in dirs if d not in ("target", "ui_tests", ".git", "node_modules"))
            for fn in sorted(fs):
                files.append(os.path.join(root, fn))
    # harness files that influence what is *observed* (oracles.py / report.py only evaluate)
    for fn in ("gen_app.py", "families.py", "lib_e2e.py", "runner_main.rs", "refmodel.py", "orchestrator.py"):
        files.append(os.path.join(E2E, fn))
    for fn in sorted(os.listdir(E2E)):
        if (fn.startswith("fam_") or fn.startswith("gen_app_extra_")) and fn.endswith(".py"):
            files.append(os.path.join(E2E, fn))
    shim = f"{VERIF}/engines/shim"
    if os.path.isdir(shim):
        files += [os.path.join(shim, fn) for fn in sorted(os.listdir(shim)) if fn.endswith(".c")]
    files.append(f"{VERIF}/engines/e2e_tools/src/bin/bpgen.rs")
    for p in files:
        try:
            with open(p, "rb") as f:
                data = f.read()
        except OSError:
            continue
        h.update(p.encode())
        h.update(b"\0")
        h.update(hashlib.sha256(data).digest())
    return h.hexdigest()[:20]


def repo_sources_hash():
    """Hash of the repository sources pavexc is built from (not of the harness)."""
    h = hashlib.sha256()
    for r in (f"{REPO}/compiler", f"{REPO}/rustdoc", f"{REPO}/runtime"):
        for root, dirs, fs in os.walk(r):
            dirs[:] = sorted(d for d in dirs if d not in ("target", "ui_tests", ".git", "node_modules"))
            for fn in sorted(fs):
                p = os.path.join(root, fn)
                try:
                    with open(p, "rb") as f:
                        data = f.read()
                except OSError:
                    continue
                h.update(p[len(REPO):].encode())
                h.update(b"\0")
                h.update(hashlib.sha256(data).digest())
    return h.hexdigest()[:12]


def _private_home():
    """pavexc keeps parsed annotations of documented crates in $HOME/.pavex/rustdoc/cache; its cache fingerprint does not
    cover every crate that produces them (e.g. pavexc_attr_parser), so a cache written by a pavexc built from OTHER
    sources would hide changes of /repo. The cache is therefore private to the state of the repository sources (and to the
    namespace); the two most recent ones are kept."""
    ns = NS.strip("-") or "main"
    home = f"{WORK}/homes/{ns}-{repo_sources_hash()}"
    base = f"{WORK}/homes"
    if not os.path.isdir(home):
        os.makedirs(home, exist_ok=True)
        try:
            old = sorted((d for d in os.listdir(base) if d.startswith(ns + "-") and os.path.join(base, d) != home),
                         key=lambda d: os.path.getmtime(os.path.join(base, d)))
            for d in old[:-1]:
                shutil.rmtree(os.path.join(base, d), ignore_errors=True)
        except OSError:
            pass
    return home


HOME = _private_home()


# --------------------------------------------------------------------------------------------------
# builds
# --------------------------------------------------------------------------------------------------
def run(cmd, cwd=None, env=None, timeout=None, check=False):
    r = subprocess.run(cmd, cwd=cwd, env=env or base_env(), stdout=subprocess.PIPE, stderr=subprocess.STDOUT,
                       text=True, timeout=timeout)
    if check and r.returncode != 0:
        sys.stderr.write(r.stdout[-8000:])
        raise MachineryError(f"command failed: {' '.join(cmd)}")
    return r


def ensure_built():
    """Rebuild pavexc + tools from /repo's working tree (cargo no-op if unchanged); regenerate the app."""
    t0 = time.time()
    e = base_env()
    e["CARGO_TARGET_DIR"] = TARGET_REPO
    r = run(["cargo", "build", "--release", "--offline", "-p", "pavexc_cli"], cwd=REPO, env=e)
    if r.returncode != 0:
        sys.stderr.write(r.stdout[-6000:])
        machinery("cargo build of pavexc failed")
    r = run(["cargo", "build", "--release", "--offline", "-p", "e2e_tools"], cwd=f"{VERIF}/engines")
    if r.returncode != 0:
        sys.stderr.write(r.stdout[-6000:])
        machinery("cargo build of e2e_tools failed")
    r = run([sys.executable, f"{E2E}/gen_app.py", APP])
    if r.returncode != 0:
        sys.stderr.write(r.stdout[-6000:])
        machinery("gen_app failed")
    tl = run(["rustup", "toolchain", "list"]).stdout
    if DOCS_TOOLCHAIN not in tl:
        machinery(f"docs toolchain {DOCS_TOOLCHAIN} is not linked (run ./setup.sh)")
    log(f"builds up to date in {time.time() - t0:.1f}s")


HOLDER_TOML = """[package]
name = "holder"
version = "0.1.0"
edition = "2024"

[dependencies]
verif_app = { path = "%s" }
pavex = { path = "%s/runtime/pavex" }
http = "1"
hyper = "1"
matchit = "0.9"
serde = "1"
thiserror = "2"
""" % (APP, REPO)

WS_TOML = """[workspace]
resolver = "3"
members = ["holder"]
"""


def slot_dir(k, root=None):
    return f"{root or WSROOT}/slot{k}"


def ensure_slot(k, root=None):
    s = slot_dir(k, root)
    lock_same = os.path.exists(f"{s}/Cargo.lock.src-sha") and open(f"{s}/Cargo.lock.src-sha").read() == sha256_file(f"{REPO}/Cargo.lock")
    if (os.path.exists(f"{s}/metadata.json") and lock_same and os.path.exists(f"{s}/holder/Cargo.toml")
            and open(f"{s}/holder/Cargo.toml").read() == HOLDER_TOML and not os.path.isdir(f"{s}/target")):
        # already prepared for this /repo lockfile and this app location: just reset the mutable parts
        with open(f"{s}/Cargo.toml", "w") as f:
            f.write(WS_TOML)
        shutil.rmtree(f"{s}/sdk", ignore_errors=True)
        return s
    os.makedirs(f"{s}/holder/src", exist_ok=True)
    with open(f"{s}/Cargo.toml", "w") as f:
        f.write(WS_TOML)
    with open(f"{s}/holder/Cargo.toml", "w") as f:
        f.write(HOLDER_TOML)
    lines = ["//! Blueprint holder: gives every (line, column) location used by bpgen a real source line."]
    lines += [f"// line {i}: registration site" for i in range(2, 600)]
    with open(f"{s}/holder/src/lib.rs", "w") as f:
        f.write("\n".join(lines) + "\n")
    shutil.copy(f"{REPO}/Cargo.lock", f"{s}/Cargo.lock")
    shutil.rmtree(f"{s}/sdk", ignore_errors=True)
    # one shared cargo target dir for the documentation builds of all slots (pavexc takes the
    # location of the JSON docs from `target_directory` in the metadata): ~1.1 GB once, not per slot
    e = base_env()
    e["CARGO_TARGET_DIR"] = DOC_TARGET
    shutil.rmtree(f"{s}/target", ignore_errors=True)
    r = run(["cargo", "metadata", "--offline", "--format-version", "1"], cwd=s, env=e)
    # stdout and stderr are merged; metadata is the last line that starts with '{'
    meta = [l for l in r.stdout.splitlines() if l.startswith("{")]
    if r.returncode != 0 or not meta:
        sys.stderr.write(r.stdout[-3000:])
        machinery("cargo metadata failed for a slot workspace")
    with open(f"{s}/metadata.json", "w") as f:
        f.write(meta[-1])
    with open(f"{s}/Cargo.lock.src-sha", "w") as f:
        f.write(sha256_file(f"{REPO}/Cargo.lock"))
    return s


def pavexc_env(extra=None):
    e = base_env()
    e["HOME"] = HOME
    e["CARGO_TARGET_DIR"] = DOC_TARGET
    e["PAVEXC_COLOR"] = "never"
    e["PAVEX_TTY_WIDTH"] = "200"
    e.pop("RUST_BACKTRACE", None)
    if extra:
        e.update(extra)
    return e


def pavexc_cmd(slot, bp_path, out_dir, check=False, diagnostics=None):
    cmd = [PAVEXC, "generate", "-b", bp_path, "-o", out_dir, "--docs-toolchain", DOCS_TOOLCHAIN,
           "--precomputed-metadata", f"{slot}/metadata.json", "--cache-workspace-packages"]
    if check:
        cmd.append("--check")
    if diagnostics:
        cmd += ["--diagnostics", diagnostics]
    return cmd


def warm_cache():
    """One pavexc run on a trivial blueprint so that verif_app and its dependencies are documented
    and cached before the parallel fan-out starts."""
    os.makedirs(HOME, exist_ok=True)
    s = ensure_slot(0)
    spec = {"id": "warm", "bp": {"ops": [{"k": "ctor", "c": "C_T0P__0__S", "lc": "request_scoped"},
                                         {"k": "route", "c": "H0__PR_0_0__I"}]}}
    d = f"{E2E_WORK}/warm"
    os.makedirs(d, exist_ok=True)
    write_blueprints([spec], d)
    t0 = time.time()
    r = subprocess.run(pavexc_cmd(s, f"{d}/bps/warm.ron", f"{s}/sdk"), cwd=s, env=pavexc_env(),
                       stdout=subprocess.PIPE, stderr=subprocess.STDOUT, text=True, timeout=1800)
    if r.returncode != 0:
        sys.stderr.write(r.stdout[-6000:])
        machinery("warm-up pavexc run failed on a trivial blueprint")
    log(f"rustdoc cache warm in {time.time() - t0:.1f}s")


def write_blueprints(specs, d):
    os.makedirs(d, exist_ok=True)
    sp = f"{d}/specs.jsonl"
    with open(sp, "w") as f:
        for s in specs:
            f.write(json.dumps({"id": s["id"], "bp": s["bp"]}) + "\n")
    shutil.rmtree(f"{d}/bps", ignore_errors=True)
    r = run([BPGEN, f"{APP}/catalog.json", sp, f"{d}/bps"])
    if r.returncode != 0:
        sys.stderr.write(r.stdout[-4000:])
        machinery("bpgen failed")


PANIC_MARKERS = ("The application panicked", "panicked at", "RUST_BACKTRACE")


def classify_stderr(text):
    return {
        "n_error": len(re.findall(r"^\s*(?:\x1b\[[0-9;]*m)*ERROR", text, flags=re.M)),
        "n_warning": len(re.findall(r"^\s*(?:\x1b\[[0-9;]*m)*WARNING", text, flags=re.M)),
        "panic": any(m in text for m in PANIC_MARKERS),
    }


def generate_all(specs, d, keep_sdk=True):
    """Run pavexc on every spec (16 slots in parallel). Returns {id: observation}.

    Atomicity (C09): every slot keeps the SDK of its last successful generation on disk; digests of
    that directory and of the workspace root manifest are taken before each run and compared after a
    failing run.
    """
    # a spec may name a PREDECESSOR blueprint (`pre_bp`): it is generated into the slot's output directory first, so that the
    # spec itself is a regeneration in place over a chosen SDK (family `regen`)
    pre = [{"id": s["id"] + "__pre", "family": s.get("family"), "bp": s["pre_bp"]} for s in specs if s.get("pre_bp")]
    write_blueprints(specs + pre, d)
    gen_dir = f"{d}/gen"
    shutil.rmtree(gen_dir, ignore_errors=True)
    os.makedirs(gen_dir, exist_ok=True)
    slots = [ensure_slot(k) for k in range(NSLOTS)]
    free = list(range(NSLOTS))
    lock = threading.Lock()
    results = {}

    def one(spec):
        with lock:
            k = free.pop()
        try:
            s = slots[k]
            sid = spec["id"]
            if spec.get("pre_bp"):
                try:
                    subprocess.run(pavexc_cmd(s, f"{d}/bps/{sid}__pre.ron", f"{s}/sdk"), cwd=s, env=pavexc_env(), stdout=subprocess.DEVNULL,
                                   stderr=subprocess.DEVNULL, timeout=PAVEXC_TIMEOUT_S)
                except subprocess.TimeoutExpired:
                    pass
            before = dir_digest(f"{s}/sdk")
            root_before = sha256_file(f"{s}/Cargo.toml")
            t0 = time.time()
            try:
                r = subprocess.run(pavexc_cmd(s, f"{d}/bps/{sid}.ron", f"{s}/sdk"), cwd=s, env=pavexc_env(),
                                   stdout=subprocess.PIPE, stderr=subprocess.PIPE, text=True,
                                   timeout=PAVEXC_TIMEOUT_S)
                code, out, err, timed_out = r.returncode, r.stdout, r.stderr, False
            except subprocess.TimeoutExpired as e:
                code, out, err, timed_out = None, "", (e.stderr or b"").decode("utf8", "replace") if isinstance(e.stderr, bytes) else (e.stderr or ""), True
            wall = time.time() - t0
            after = dir_digest(f"{s}/sdk")
            root_after = sha256_file(f"{s}/Cargo.toml")
            obs = {"id": sid, "exit": code, "timed_out": timed_out, "wall_s": round(wall, 3), "stderr": err[-6000:],
                   "stdout": out[-2000:]}
            obs.update(classify_stderr(err))
            changed = sorted(p for p in set(before) | set(after) if before.get(p, (None,))[0] != after.get(p, (None,))[0])
            obs["sdk_changed_files"] = changed
            obs["root_manifest_changed"] = root_before != root_after
            obs["had_previous_sdk"] = bool(before)
            if code == 0 and os.path.exists(f"{s}/sdk/src/lib.rs"):
                dst = f"{gen_dir}/{sid}"
                os.makedirs(f"{dst}/src", exist_ok=True)
                shutil.copy(f"{s}/sdk/src/lib.rs", f"{dst}/src/lib.rs")
                shutil.copy(f"{s}/sdk/Cargo.toml", f"{dst}/Cargo.toml")
                obs["lib_sha"] = after.get("src/lib.rs", (None,))[0]
                obs["sdk_origin_dir"] = f"{s}/sdk"
            if code != 0:
                # restore the root manifest if a failing run touched it, so that the next run on this
                # slot starts from a clean baseline (the change itself has been recorded above)
                pass
            return obs
        finally:
            with lock:
                free.append(k)

    t0 = time.time()
    with cf.ThreadPoolExecutor(max_workers=NSLOTS) as ex:
        for obs in ex.map(one, specs):
            results[obs["id"]] = obs
    # A run that hit the time limit while 16 compilers (and whatever else) competed for the machine is
    # re-run alone with a three times larger limit before it may count as "does not terminate".
    global PAVEXC_TIMEOUT_S
    slow = [s for s in specs if results[s["id"]]["timed_out"]]
    if slow:
        base = PAVEXC_TIMEOUT_S
        PAVEXC_TIMEOUT_S = base * 3
        try:
            for s in slow[:8]:
                o = one(s)
                o["retried_after_timeout"] = True
                results[s["id"]] = o
        finally:
            PAVEXC_TIMEOUT_S = base
    log(f"pavexc: {len(specs)} specs in {time.time() - t0:.1f}s "
        f"({sum(1 for o in results.values() if o['exit'] == 0)} accepted)")
    return results


# --------------------------------------------------------------------------------------------------
# batch build + runner
# --------------------------------------------------------------------------------------------------
def crate_name(sid):
    return "s_" + re.sub(r"[^a-z0-9_]", "_", sid.lower())


def rewrite_manifest(text, name, origin_dir):
    """Generated manifest, with the package renamed and relative `path` dependencies made absolute.
    Nothing else is touched: the dependency list is part of what C01 checks."""
    text = re.sub(r'(?m)^name = "application"$', f'name = "{name}"', text, count=1)

    def absolutize(m):
        p = os.path.normpath(os.path.join(origin_dir, m.group(1)))
        return f'path = "{p}"'

    return re.sub(r'path = "([^"]+)"', absolutize, text)


NEW_SIG_RE = re.compile(r"pub async fn new\(\s*(.*?)\)\s*->\s*(.*?)\s*\{", re.S)


CONFIG_STRUCT_RE = re.compile(r"pub struct ApplicationConfig\s*\{(.*?)\n\}", re.S)


def config_expr(cn, lib_rs):
    """Expression building the SDK's `ApplicationConfig`. Without fields: a struct literal. With fields: deserialised from a
    JSON document, the way an application loads it — every field WITHOUT `#[serde(default)]` is present (as `null`: the
    configuration types of verif_app ignore the document), every field with it is left out, so that `Default` provides it."""
    m = CONFIG_STRUCT_RE.search(lib_rs)
    body = m.group(1) if m else ""
    fields = re.findall(r"((?:#\[[^\]]*\]\s*)*)pub\s+(\w+)\s*:", body)
    if not fields:
        return f"{cn}::ApplicationConfig {{}}"
    present = [name for attrs, name in fields if "default" not in attrs]
    doc = "{" + ", ".join(f'\\"{n}\\": null' for n in present) + "}"
    return f'serde_json::from_str::<{cn}::ApplicationConfig>("{doc}").map_err(|e| format!("ApplicationConfig: {{e}}"))?'


def glue_for(sid, lib_rs):
    """Rust source of `async fn start_<crate>()` for one generated SDK (DESIGN Appendix D)."""
    cn = crate_name(sid)
    m = NEW_SIG_RE.search(lib_rs)
    if not m:
        raise MachineryError(f"cannot find ApplicationState::new in SDK of {sid}")
    args = [a.strip() for a in m.group(1).split(",") if a.strip()]
    ret = m.group(2)
    call_args = []
    for a in args:
        name, ty = a.split(":", 1)
        ty = ty.strip()
        if "ApplicationConfig" in ty:
            call_args.append(config_expr(cn, lib_rs))
        else:
            call_args.append(f"<{ty} as verif_app::Make>::make()")
    unwrap = ".map_err(|e| format!(\"{e:?}\"))?" if ret.startswith("Result") else ""
    return f"""
pub async fn start_{cn}() -> Result<(pavex::server::ServerHandle, std::net::SocketAddr), String> {{
    let state = {cn}::ApplicationState::new({', '.join(call_args)}).await{unwrap};
    let incoming = pavex::server::IncomingStream::bind("127.0.0.1:0".parse().unwrap()).await.map_err(|e| e.to_string())?;
    let addr = incoming.local_addr().map_err(|e| e.to_string())?;
    let server = pavex::server::Server::new()
        .set_config(pavex::server::ServerConfiguration::new().set_n_workers(1))
        .listen(incoming);
    Ok(({cn}::run(server, state), addr))
}}
"""


BATCH_WS_TOML = """[workspace]
resolver = "3"
members = [%s]

[profile.dev]
debug = false
opt-level = 0
incremental = false
codegen-units = 16
"""

RUNNER_TOML = """[package]
name = "runner"
version = "0.1.0"
edition = "2024"

[dependencies]
pavex = { path = "%s/runtime/pavex" }
verif_app = { path = "%s" }
tokio = { version = "1", features = ["rt", "net", "time", "io-util", "macros"] }
serde_json = "1"
futures-util = "0.3"
%s
"""


def build_batches(specs_ok, gen_dir, batch_root, batch_size=150):
    """Build every accepted SDK (rustc verdict per crate) and a runner per batch.

    Returns ({id: {"build_ok": bool, "build_errors": [...]}}, [(batch_dir, [ids in runner])]).
    """
    shutil.rmtree(batch_root, ignore_errors=True)
    os.makedirs(batch_root, exist_ok=True)
    ids = [s["id"] for s in specs_ok]
    batches = [ids[i:i + batch_size] for i in range(0, len(ids), batch_size)]
    build_res = {}
    runners = []
    target = BATCH_TARGET

    def prep(bi, batch):
        bd = f"{batch_root}/b{bi}"
        os.makedirs(bd, exist_ok=True)
        members = []
        for sid in batch:
            cn = crate_name(sid)
            os.makedirs(f"{bd}/{cn}/src", exist_ok=True)
            shutil.copy(f"{gen_dir}/{sid}/src/lib.rs", f"{bd}/{cn}/src/lib.rs")
            with open(f"{gen_dir}/{sid}/Cargo.toml") as f:
                man = f.read()
            origin = open(f"{gen_dir}/{sid}/origin").read().strip() if os.path.exists(f"{gen_dir}/{sid}/origin") else None
            with open(f"{bd}/{cn}/Cargo.toml", "w") as f:
                f.write(rewrite_manifest(man, cn, origin or f"{WSROOT}/slot0/sdk"))
            members.append(cn)
        with open(f"{bd}/Cargo.toml", "w") as f:
            f.write(BATCH_WS_TOML % ", ".join(f'"{m}"' for m in members))
        shutil.copy(f"{REPO}/Cargo.lock", f"{bd}/Cargo.lock")
        return bd, members

    for bi, batch in enumerate(batches):
        bd, members = prep(bi, batch)
        e = base_env()
        e["CARGO_TARGET_DIR"] = target
        e["RUSTFLAGS"] = "-Awarnings"
        t0 = time.time()
        r = subprocess.run(["cargo", "build", "--offline", "--keep-going", "--message-format=json", "--workspace"],
                           cwd=bd, env=e, stdout=subprocess.PIPE, stderr=subprocess.PIPE, text=True)
        errors = {}
        for line in r.stdout.splitlines():
            if not line.startswith("{"):
                continue
            try:
                msg = json.loads(line)
            except ValueError:
                continue
            if msg.get("reason") == "compiler-message" and msg["message"].get("level") == "error":
                pid = msg.get("package_id", "")
                mm = re.search(r"/(s_[a-z0-9_]+)#", pid) or re.search(r"(s_[a-z0-9_]+)", pid)
                key = mm.group(1) if mm else pid
                errors.setdefault(key, []).append(msg["message"].get("rendered", "")[:1500])
        if r.returncode != 0 and not errors:
            sys.stderr.write(r.stderr[-6000:])
            raise MachineryError("batch build failed without a compiler error attributed to an SDK crate")
        ok_ids = []
        for sid in batch:
            cn = crate_name(sid)
            if cn in errors:
                build_res[sid] = {"build_ok": False, "build_errors": errors[cn][:3]}
            else:
                build_res[sid] = {"build_ok": True, "build_errors": []}
                ok_ids.append(sid)
        unknown = [k for k in errors if k not in {crate_name(s) for s in batch}]
        if unknown:
            sys.stderr.write(json.dumps({k: errors[k][:1] for k in unknown})[:4000])
            raise MachineryError(f"compiler errors attributed to non-SDK packages: {unknown[:3]}")
        # runner for the crates that built
        os.makedirs(f"{bd}/runner/src", exist_ok=True)
        deps = "\n".join(f'{crate_name(s)} = {{ path = "../{crate_name(s)}" }}' for s in ok_ids)
        with open(f"{bd}/runner/Cargo.toml", "w") as f:
            f.write(RUNNER_TOML % (REPO, APP, deps))
        glue = ["// GENERATED glue: one start function per SDK"]
        for sid in ok_ids:
            glue.append(glue_for(sid, open(f"{bd}/{crate_name(sid)}/src/lib.rs").read()))
        table = ",\n".join(
            f'    ("{sid}", |()| Box::pin(start_{crate_name(sid)}()) as StartFuture)' for sid in ok_ids)
        glue.append("pub type StartFuture = std::pin::Pin<Box<dyn std::future::Future<Output = Result<(pavex::server::ServerHandle, std::net::SocketAddr), String>>>>;")
        glue.append(f"pub static TABLE: &[(&str, fn(()) -> StartFuture)] = &[\n{table}\n];")
        with open(f"{bd}/runner/src/glue.rs", "w") as f:
            f.write("\n".join(glue))
        shutil.copy(f"{E2E}/runner_main.rs", f"{bd}/runner/src/main.rs")
        with open(f"{bd}/Cargo.toml", "w") as f:
            f.write(BATCH_WS_TOML % ", ".join(f'"{m}"' for m in members + ["runner"]))
        r2 = subprocess.run(["cargo", "build", "--offline", "-p", "runner"], cwd=bd, env=e,
                            stdout=subprocess.PIPE, stderr=subprocess.STDOUT, text=True)
        if r2.returncode != 0:
            sys.stderr.write(r2.stdout[-8000:])
            raise MachineryError("runner/glue build failed (harness fault, not attributed to any SDK)")
        binp = f"{bd}/runner_bin"
        shutil.copy(f"{target}/debug/runner", binp)
        runners.append((bd, ok_ids, binp))
        _gc_batch_artifacts(target)
        log(f"batch {bi}: {len(batch)} SDK crates, {len(ok_ids)} built, {time.time() - t0:.1f}s")
    return build_res, runners


def _gc_batch_artifacts(target):
    """The artefacts of the SDK crates and of the runner are never reused (every batch has new crate
    names): remove them so that the shared target dir only keeps the dependency closure."""
    import glob
    for pat in ("deps/libs_*", "deps/s_*", "deps/runner-*", "libs_*", ".fingerprint/s_*", ".fingerprint/runner-*",
                "incremental/s_*", "incremental/runner-*"):
        for f in glob.glob(f"{target}/debug/{pat}"):
            if os.path.isdir(f):
                shutil.rmtree(f, ignore_errors=True)
            else:
                try:
                    os.remove(f)
                except OSError:
                    pass


def run_runner(binp, script, timeout=1800):
    """script: {id: [request dict]}. Returns {id: {"startup": {...}, "responses": [...]}}."""
    sp = binp + ".script.json"
    with open(sp, "w") as f:
        json.dump(script, f)
    r = subprocess.run([binp, sp], stdout=subprocess.PIPE, stderr=subprocess.PIPE, text=True, timeout=timeout)
    out = {}
    for line in r.stdout.splitlines():
        if not line.startswith("{"):
            continue
        rec = json.loads(line)
        d = out.setdefault(rec["id"], {"startup": None, "responses": []})
        if rec["what"] == "startup":
            d["startup"] = rec
        else:
            d["responses"].append(rec)
    if r.returncode != 0:
        sys.stderr.write(r.stderr[-4000:])
        # a crash of the runner process is recorded against the SDK it was serving
        out["__runner_exit__"] = {"code": r.returncode, "stderr": r.stderr[-2000:]}
    return out
