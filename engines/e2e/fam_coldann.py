"""Family `coldann` (property C09): app crates with ANNOTATION-LEVEL errors x states of pavexc's rustdoc cache.

Technique: bounded exhaustive enumeration against the real `pavexc` binary (no sampling): the full product

    FAULTS (tiny user crates, see FAULTS below; one valid control crate `ok`)
  x BLUEPRINT STYLE (how the blueprint reaches the crate's components)
        import  `bp.import(from![crate]); bp.routes(from![crate]);`  (the crate is indexed in the same batch as the toolchain crates)
        coords  every component registered one by one (`bp.constructor(ID)`, `bp.route(ID)`: annotation coordinates; the crate is
                indexed on its own, when the first coordinates are resolved)
      quick: `import` for every crate, `coords` too where it reaches other code (quick_coords); thorough: both for every crate
  x CACHE STATE of $HOME/.pavex/rustdoc/cache/*.db ($HOME is private to this family)
        cold       the cache directory does not exist
        toolchain  the cache left by a cold generation of a second valid crate (`seed`): core/alloc/std, pavex and its dependencies
                   are cached, nothing of the crate under test is
        warm       the same command a second time (the cache as the `toolchain` run of this very command left it)
      thorough adds
        recold     the same command a second time after the `cold` run (whatever a cold, possibly failing, run left behind)

Every crate compiles as Rust (`cargo rustdoc` is run on it by pavexc itself); what is wrong is only visible to pavexc when it
indexes the crate's rustdoc JSON (duplicate component ids, malformed / misplaced `diagnostic::pavex::*` attributes, a method
annotated outside `#[pavex::methods]`, blueprint coordinates that resolve to a component of another kind, ...). Each lib.rs ends
with `blueprint_import()` / `blueprint_coords()`: the Rust code whose serialisation the RON blueprints transcribe (so the
blueprints are producible through pavex's public API and the registration locations point at real source lines).

Oracle = C09 (same conventions as oracles.oracle_c09): the run terminates within the time-out, exit status 0 or 1, exit 1 comes
with >= 1 ERROR diagnostic, exit 0 with none, no panic banner, and a failing run leaves the SDK generated earlier from the control
crate (and the workspace manifest) byte-identical on disk. The control crate must be accepted in every state and every crate whose
fault is a documented error must be rejected in every state, with the diagnostic planted in it (otherwise the family would be
vacuous: violation `coldann:exit0:*` / machinery error). Differences of the verdict (exit status + set of diagnostic titles) between
cache states are recorded in the coverage (`verdict_depends_on_cache`); the text of C09 does not forbid them, so they are a
violation only when they make the valid control crate fail.

Keys: coldann:panic:<file>:<line>, coldann:hang:<crate>.<style>, coldann:exit0:.., coldann:silent-failure:.., coldann:not-atomic:..,
coldann:exit:<status>:.., coldann:error-diagnostic-with-exit-0:.., coldann:verdict-depends-on-cache:<control>.<style>.
Scratch: <work>/e2e<NS>/coldann (workspace ~50 kB, two copies of the ~120 MB cache while a run lasts, deleted afterwards); cargo's
target directory is lib_e2e.DOC_TARGET, shared with the slot workspaces (crate names are unique: no doc/<name>.json collisions).
"""
import collections
import json
import os
import re
import shutil
import subprocess
import sys
import time

import lib_e2e as L

FAM = "coldann"
ROOT = f"{L.E2E_WORK}/{FAM}"
WS = f"{ROOT}/ws"
HOME = f"{ROOT}/home"
SNAP = f"{ROOT}/snap"
CACHE_REL = ".pavex"
VERSION = "0.1.0"
PREP_TIMEOUT_S = 1800  # the very first run may have to build the documentation of pavex's dependency closure
ANSI = re.compile(r"\x1b\[[0-9;]*m")

# --------------------------------------------------------------------------------------------------
# the fault alphabet
# --------------------------------------------------------------------------------------------------
# Every entry: doc (one line), src (lib.rs), coords (components registered one by one by the `coords` blueprint:
# (kind, id, Rust expression of the id constant[, macro name]) with kind in constructor|route|pre|post|wrap|prebuilt|
# error_observer|fallback),
# expect: "accept" | "reject" | "any" per blueprint style (a style that is absent is not run),
# title: regex that the diagnostics of a rejected run must match at least once (guards against vacuous rejections such as
#        "the crate does not compile").
PRELUDE = "#![allow(dead_code, unused)]\n#![allow(unknown_or_malformed_diagnostic_attributes)]\nuse pavex::Response;\n"

FAULTS = collections.OrderedDict()


def fault(name, doc, src, coords, expect, title=None, tier="quick", space=True, quick_coords=False):
    """quick runs the `import` blueprint of every crate (the `coords` one where there is no other, or where
    quick_coords says that registering by coordinates reaches other code); thorough runs every style."""
    FAULTS[name] = {"doc": doc, "src": PRELUDE + src, "coords": coords, "expect": expect, "title": title, "tier": tier,
                    "space": space, "quick_coords": quick_coords}


fault("ok", "control: one request-scoped constructor, one GET route that borrows its output", """
pub struct A;

#[pavex::request_scoped]
pub fn make_a() -> A { A }

pub mod routes {
    use super::*;

    #[pavex::get(path = "/")]
    pub fn home(_a: &A) -> Response { Response::ok() }
}
""", [("constructor", "MAKE_A", "MAKE_A"), ("route", "HOME", "routes::HOME")], {"import": "accept", "coords": "accept"}, quick_coords=True)

fault("seed", "NOT a member of the space: a second valid crate; its cold generation leaves the cache snapshot of the `toolchain` state", """
pub struct S;

#[pavex::request_scoped]
pub fn make_s() -> S { S }

#[pavex::get(path = "/seed")]
pub fn seed_home(_s: &S) -> Response { Response::ok() }
""", [("constructor", "MAKE_S", "MAKE_S"), ("route", "SEED_HOME", "SEED_HOME")], {"import": "accept"}, space=False)

fault("dup_id_across_modules", "the same component id in two modules of the crate (a singleton `conflict` whose default id is "
      "CONFLICT, a route with `id = \"CONFLICT\"` in a sub-module)", """
pub struct A;

#[pavex::singleton]
pub fn conflict() -> A { A }

pub mod routes {
    use super::*;

    #[pavex::get(path = "/", id = "CONFLICT")]
    pub fn handler() -> Response { Response::ok() }
}
""", [("constructor", "CONFLICT", "CONFLICT"), ("route", "CONFLICT", "routes::CONFLICT")], {"import": "reject", "coords": "reject"},
      r"identifier for Pavex components must be unique", quick_coords=True)

fault("dup_id_same_module", "the same explicit id twice in ONE module: a free function and a method of a `#[pavex::methods]` "
      "block that sits in an anonymous `const _` scope (so the two generated id constants do not clash in Rust)", """
pub struct A;
pub struct B;

#[pavex::request_scoped(id = "SAME")]
pub fn make_a() -> A { A }

const _: () = {
    #[pavex::methods]
    impl B {
        #[request_scoped(id = "SAME")]
        pub fn new() -> B { B }
    }
};

#[pavex::get(path = "/")]
pub fn home(_a: &A, _b: &B) -> Response { Response::ok() }
""", [("constructor", "SAME", "SAME"), ("route", "HOME", "HOME")], {"import": "reject", "coords": "reject"},
      r"identifier for Pavex components must be unique")

fault("default_ids_collide", "two annotated items whose DEFAULT ids collide: method `A::b` in one module and free function "
      "`a_b` in another are both `A_B`", """
pub mod one {
    pub struct A;

    #[pavex::methods]
    impl A {
        #[request_scoped]
        pub fn b() -> A { A }
    }
}

pub mod two {
    pub struct C;

    #[pavex::request_scoped]
    pub fn a_b() -> C { C }
}

#[pavex::get(path = "/")]
pub fn home(_a: &one::A, _c: &two::C) -> Response { Response::ok() }
""", [("constructor", "A_B", "one::A_B"), ("constructor", "A_B", "two::A_B"), ("route", "HOME", "HOME")], {"import": "reject", "coords": "reject"},
      r"identifier for Pavex components must be unique")

ID_CONST = """
/// what the attribute macro would have generated next to the function
pub const MAKE_A: pavex::blueprint::Constructor = pavex::blueprint::Constructor {
    coordinates: pavex::blueprint::reflection::AnnotationCoordinates { id: "MAKE_A", created_at: pavex::created_at!(), macro_name: "constructor" },
};
"""

fault("private_module_item", "a constructor in a PRIVATE module (the attribute macros refuse that, so the annotation and the id "
      "constant are written by hand) that the blueprint registers", """
pub struct A;

mod hidden {
    use super::*;

    #[diagnostic::pavex::constructor(id = "MAKE_A", lifecycle = "request_scoped")]
    pub fn make_a() -> A { A }
}
""" + ID_CONST + """
#[pavex::get(path = "/")]
pub fn home(_a: &A) -> Response { Response::ok() }
""", [("constructor", "MAKE_A", "MAKE_A"), ("route", "HOME", "HOME")], {"import": "any", "coords": "any"})

fault("non_pub_item", "a constructor that is not `pub` (hand-written annotation and id constant, the macros refuse it) that the "
      "blueprint registers", """
pub struct A;

#[diagnostic::pavex::constructor(id = "MAKE_A", lifecycle = "request_scoped")]
fn make_a() -> A { A }
""" + ID_CONST + """
#[pavex::get(path = "/")]
pub fn home(_a: &A) -> Response { Response::ok() }
""", [("constructor", "MAKE_A", "MAKE_A"), ("route", "HOME", "HOME")], {"import": "any", "coords": "any"})

fault("wrong_kind_referenced", "the blueprint registers as a CONSTRUCTOR an id whose annotation is `#[pavex::get]` "
      "(`bp.constructor(Constructor { coordinates: HANDLER.coordinates })`)", """
pub struct A;

#[pavex::request_scoped]
pub fn make_a() -> A { A }

#[pavex::get(path = "/")]
pub fn handler(_a: &A) -> Response { Response::ok() }
""", [("constructor", "MAKE_A", "MAKE_A"), ("constructor", "HANDLER", "pavex::blueprint::Constructor { coordinates: HANDLER.coordinates }", "route"), ("route", "HANDLER", "HANDLER")], {"coords": "reject"})

fault("method_without_methods_attr", "a method annotated with `#[pavex::get]` in an `impl` block that lacks `#[pavex::methods]`", """
pub struct A;

#[pavex::request_scoped]
pub fn make_a() -> A { A }

impl A {
    #[pavex::get(path = "/")]
    pub fn home(_a: &A) -> Response { Response::ok() }
}
""", [("constructor", "MAKE_A", "MAKE_A")], {"import": "reject", "coords": "reject"}, r"Missing `#\[pavex::methods\]`")

fault("methods_bad_method_attr", "a `#[pavex::methods]` block with one good method and one method carrying a hand-written, "
      "malformed `#[diagnostic::pavex::constructor]` attribute (no lifecycle)", """
pub struct A;
pub struct B;

#[pavex::methods]
impl A {
    #[request_scoped]
    pub fn new() -> A { A }

    #[diagnostic::pavex::constructor(id = "A_MAKE_B")]
    pub fn make_b() -> B { B }
}

#[pavex::get(path = "/")]
pub fn home(_a: &A) -> Response { Response::ok() }
""", [("constructor", "A_NEW", "A_NEW"), ("route", "HOME", "HOME")], {"import": "reject", "coords": "reject"}, r"malformed `diagnostic::pavex::\*` attribute")

fault("unknown_pavex_attr", "a free function with a hand-written `#[diagnostic::pavex::teleport]` attribute (no such component kind)", """
pub struct A;

#[pavex::request_scoped]
pub fn make_a() -> A { A }

#[diagnostic::pavex::teleport(id = "BEAM")]
pub fn beam() -> A { A }

#[pavex::get(path = "/")]
pub fn home(_a: &A) -> Response { Response::ok() }
""", [("constructor", "MAKE_A", "MAKE_A"), ("route", "HOME", "HOME")], {"import": "reject", "coords": "reject"}, r"malformed `diagnostic::pavex::\*` attribute")

fault("two_pavex_attrs", "one function carrying two pavex annotations (`#[pavex::request_scoped]` plus a hand-written "
      "`#[diagnostic::pavex::constructor]`)", """
pub struct A;

#[pavex::request_scoped]
#[diagnostic::pavex::constructor(id = "MAKE_A_TOO", lifecycle = "singleton")]
pub fn make_a() -> A { A }

#[pavex::get(path = "/")]
pub fn home(_a: &A) -> Response { Response::ok() }
""", [("constructor", "MAKE_A", "MAKE_A"), ("route", "HOME", "HOME")], {"import": "reject", "coords": "reject"}, r"malformed `diagnostic::pavex::\*` attribute", quick_coords=True)

fault("attr_on_wrong_item_kind", "a hand-written `#[diagnostic::pavex::constructor]` on a STRUCT and a "
      "`#[diagnostic::pavex::prebuilt]` on a FUNCTION", """
#[diagnostic::pavex::constructor(id = "A_CTOR", lifecycle = "request_scoped")]
pub struct A;

#[pavex::request_scoped]
pub fn make_a() -> A { A }

#[diagnostic::pavex::prebuilt(id = "PRE_FN")]
pub fn pre_fn() -> A { A }

#[pavex::get(path = "/")]
pub fn home(_a: &A) -> Response { Response::ok() }
""", [("constructor", "MAKE_A", "MAKE_A"), ("route", "HOME", "HOME")], {"import": "reject", "coords": "reject"}, r"is not supported on")

fault("dup_id_trait_method", "the same explicit id on a trait-impl method and on a free function of another module", """
pub struct A;
pub struct B;

pub trait Make { fn make() -> Self; }

#[pavex::methods]
impl Make for A {
    #[request_scoped(id = "TWICE")]
    fn make() -> A { A }
}

pub mod other {
    use super::*;

    #[pavex::request_scoped(id = "TWICE")]
    pub fn make_b() -> B { B }
}

#[pavex::get(path = "/")]
pub fn home(_a: &A, _b: &B) -> Response { Response::ok() }
""", [("constructor", "TWICE", "TWICE"), ("constructor", "TWICE", "other::TWICE"), ("route", "HOME", "HOME")], {"import": "reject", "coords": "reject"},
      r"identifier for Pavex components must be unique", tier="thorough")

fault("three_way_dup_id", "the same id on three components of three kinds in three modules (constructor, route, pre-processing middleware)", """
pub struct A;

pub mod c {
    use super::*;
    #[pavex::request_scoped(id = "TRIPLE")]
    pub fn make_a() -> A { A }
}
pub mod r {
    use super::*;
    #[pavex::get(path = "/", id = "TRIPLE")]
    pub fn home(_a: &A) -> Response { Response::ok() }
}
pub mod m {
    use pavex::middleware::Processing;
    #[pavex::pre_process(id = "TRIPLE")]
    pub fn pre() -> Processing { Processing::Continue }
}
""", [("constructor", "TRIPLE", "c::TRIPLE"), ("route", "TRIPLE", "r::TRIPLE"), ("pre", "TRIPLE", "m::TRIPLE")], {"import": "reject", "coords": "reject"},
      r"identifier for Pavex components must be unique", tier="thorough")

STYLES = ("import", "coords")
STATES = {"quick": ["cold", "toolchain", "warm"], "thorough": ["cold", "recold", "toolchain", "warm"]}
KIND2RON = {"constructor": "constructor", "route": "route", "pre": "pre_processing_middleware", "post": "post_processing_middleware",
            "wrap": "wrapping_middleware", "prebuilt": "prebuilt_type", "error_observer": "error_observer",
            "fallback": "fallback_request_handler"}
KIND2METHOD = {"constructor": "constructor", "route": "route", "pre": "pre_process", "post": "post_process", "wrap": "wrap",
               "prebuilt": "prebuilt", "error_observer": "error_observer", "fallback": "fallback"}
KIND2MACRO = {"constructor": "constructor", "route": "route", "pre": "pre_process", "post": "post_process", "wrap": "wrap",
              "prebuilt": "prebuilt", "error_observer": "error_observer", "fallback": "fallback"}


def pkg(name):
    return f"coldann_{name}"


def entries(tier):
    """The (fault, style) members of the tier, in a fixed order (VERIF_SEED only rotates it)."""
    out = []
    for name, f in FAULTS.items():
        if not f["space"] or (f["tier"] == "thorough" and tier != "thorough"):
            continue
        for st in STYLES:
            if st not in f["expect"]:
                continue
            if tier == "quick" and st == "coords" and "import" in f["expect"] and not f["quick_coords"]:
                continue
            out.append((name, st))
    rot = int(os.environ.get("VERIF_SEED", "0") or 0)
    ctl = [e for e in out if e[0] == "ok"]
    rest = [e for e in out if e[0] != "ok"]
    if rest:
        rot %= len(rest)
        rest = rest[rot:] + rest[:rot]
    return ctl + rest


def lib_rs(name):
    """The crate's lib.rs: the fault's source followed by the two blueprint functions the RON files transcribe.
    Returns (text, {style: {"fn_line": n, "lines": [line of every registration]}})."""
    f = FAULTS[name]
    lines = f["src"].rstrip("\n").split("\n")
    where = {}
    lines += ["", "/// `bp.import(from![crate]); bp.routes(from![crate]);`", "pub fn blueprint_import() -> pavex::Blueprint {"]
    fn_line = len(lines)
    lines.append("    let mut bp = pavex::Blueprint::new();")
    new_line = len(lines)
    regs = []
    for call in ("import", "routes"):
        lines.append(f"    bp.{call}(pavex::blueprint::from![crate]);")
        regs.append(len(lines))
    lines += ["    bp", "}"]
    where["import"] = {"fn_line": fn_line, "new_line": new_line, "lines": regs}
    lines += ["", "/// every component registered one by one", "pub fn blueprint_coords() -> pavex::Blueprint {"]
    fn_line = len(lines)
    lines.append("    let mut bp = pavex::Blueprint::new();")
    new_line = len(lines)
    regs = []
    for kind, _cid, expr in (c[:3] for c in f["coords"]):
        lines.append(f"    bp.{KIND2METHOD[kind]}({expr});")
        regs.append(len(lines))
    lines += ["    bp", "}"]
    where["coords"] = {"fn_line": fn_line, "new_line": new_line, "lines": regs}
    return "\n".join(lines) + "\n", where


def _loc(name, line, col):
    return f'(line: {line}, column: {col}, file: "{name}/src/lib.rs")'


def blueprint_ron(name, style):
    """What `blueprint_<style>()` of the crate serialises to (pavex_bp_schema, RON)."""
    _text, where = lib_rs(name)
    w = where[style]
    created = f'(package_name: "{pkg(name)}", package_version: "{VERSION}")'
    comps = []
    if style == "import":
        for variant, line in zip(("import", "routes_import"), w["lines"]):
            comps.append(f'{variant}((sources: some(["crate"]), relative_to: "{pkg(name)}", created_at: {created}, '
                         f'registered_at: {_loc(name, line, 8)}))')
    else:
        for c, line in zip(FAULTS[name]["coords"], w["lines"]):
            kind, cid = c[0], c[1]
            macro = c[3] if len(c) > 3 else KIND2MACRO[kind]  # (an id constant of another kind keeps its own macro name)
            coords = f'(id: "{cid}", created_at: {created}, macro_name: "{macro}")'
            reg = _loc(name, line, 8)
            if kind == "constructor":
                comps.append(f"constructor((coordinates: {coords}, lifecycle: None, cloning_policy: None, error_handler: None, "
                             f"lints: {{}}, registered_at: {reg}))")
            elif kind == "prebuilt":
                comps.append(f"prebuilt_type((coordinates: {coords}, cloning_policy: None, registered_at: {reg}))")
            elif kind == "error_observer":
                comps.append(f"error_observer((coordinates: {coords}, registered_at: {reg}))")
            else:
                comps.append(f"{KIND2RON[kind]}((coordinates: {coords}, registered_at: {reg}, error_handler: None))")
    body = ",\n        ".join(comps)
    return (f"(\n    creation_location: {_loc(name, w['new_line'], 18)},\n    components: [\n        {body},\n    ],\n)\n")


CRATE_TOML = """[package]
name = "%s"
version = "%s"
edition = "2024"

[lints.rust]
unexpected_cfgs = { level = "allow", check-cfg = ['cfg(pavex_ide_hint)'] }

[dependencies]
pavex = { path = "%s/runtime/pavex" }
"""


def write_if_changed(path, text):
    old = open(path).read() if os.path.exists(path) else None
    if old != text:
        os.makedirs(os.path.dirname(path), exist_ok=True)
        with open(path, "w") as f:
            f.write(text)
        return True
    return False


def ws_toml():
    return '[workspace]\nresolver = "3"\nmembers = [%s]\n' % ", ".join(f'"{n}"' for n in FAULTS)


def cargo_env():
    e = L.base_env()
    e["CARGO_TARGET_DIR"] = L.DOC_TARGET  # shared with the slot workspaces: pavex's dependency closure is documented once
    e["CARGO_PROFILE_DEV_DEBUG"] = "0"
    e["CARGO_INCREMENTAL"] = "0"
    return e


def prepare_ws():
    """One scratch workspace holding every crate of the alphabet (+ blueprints, metadata.json)."""
    changed = False
    for name in FAULTS:
        text, _ = lib_rs(name)
        changed |= write_if_changed(f"{WS}/{name}/Cargo.toml", CRATE_TOML % (pkg(name), VERSION, L.REPO))
        changed |= write_if_changed(f"{WS}/{name}/src/lib.rs", text)
        for st in STYLES:
            if st in FAULTS[name]["expect"]:
                write_if_changed(f"{WS}/bps/{name}.{st}.ron", blueprint_ron(name, st))
    for stale in set(os.listdir(WS)) - set(FAULTS) - {"bps", "Cargo.toml", "Cargo.lock", "metadata.json", "sdk", "diag"}:
        shutil.rmtree(f"{WS}/{stale}", ignore_errors=True)
        changed = True
    reset_outputs()
    if not os.path.exists(f"{WS}/Cargo.lock"):  # cargo prunes it afterwards: only seed it
        shutil.copy(f"{L.REPO}/Cargo.lock", f"{WS}/Cargo.lock")
        changed = True
    if changed or not os.path.exists(f"{WS}/metadata.json"):
        r = L.run(["cargo", "metadata", "--offline", "--format-version", "1"], cwd=WS, env=cargo_env())
        meta = [l for l in r.stdout.splitlines() if l.startswith("{")]
        if r.returncode != 0 or not meta:
            sys.stderr.write(r.stdout[-3000:])
            raise L.MachineryError("cargo metadata failed for the coldann workspace")
        with open(f"{WS}/metadata.json", "w") as f:
            f.write(meta[-1])


def reset_outputs():
    shutil.rmtree(f"{WS}/sdk", ignore_errors=True)
    with open(f"{WS}/Cargo.toml", "w") as f:
        f.write(ws_toml())


def wipe_cache():
    shutil.rmtree(f"{HOME}/{CACHE_REL}", ignore_errors=True)
    os.makedirs(HOME, exist_ok=True)


def save_cache(dst):
    shutil.rmtree(dst, ignore_errors=True)
    if os.path.isdir(f"{HOME}/{CACHE_REL}"):
        shutil.copytree(f"{HOME}/{CACHE_REL}", f"{dst}/{CACHE_REL}")
    else:
        os.makedirs(dst)


def restore_cache(src):
    wipe_cache()
    if os.path.isdir(f"{src}/{CACHE_REL}"):
        shutil.copytree(f"{src}/{CACHE_REL}", f"{HOME}/{CACHE_REL}")


def cache_files():
    out = {}
    for root, _d, files in os.walk(f"{HOME}/{CACHE_REL}"):
        for fn in files:
            p = os.path.join(root, fn)
            out[os.path.relpath(p, HOME)] = os.stat(p).st_size
    return out


def titles(stderr):
    """The set of diagnostic titles (first line after every ERROR / WARNING marker), paths and numbers kept."""
    text = ANSI.sub("", stderr)
    out = []
    for m in re.finditer(r"^\s*(ERROR|WARNING):\s*\n((?:.*\n?){1,3})", text, flags=re.M):
        first = " ".join(l.strip(" ×│") for l in m.group(2).splitlines()[:2]).strip()
        out.append(f"{m.group(1)}: {first[:160]}")
    return sorted(set(out))


def panic_site(stderr):
    text = ANSI.sub("", stderr)
    m = re.search(r"panicked at ([^\s:]+):(\d+):\d+", text) or re.search(r"in ([\w./-]+\.rs), line (\d+)", text)
    if not m:
        return "unknown"
    path = m.group(1)
    for pre in (L.REPO + "/", "/repo/"):
        if path.startswith(pre):
            path = path[len(pre):]
    return f"{path}:{m.group(2)}"


def run_pavexc(name, style, timeout):
    env = cargo_env()
    env.update(L.pavexc_env({"HOME": HOME, "CARGO_TARGET_DIR": L.DOC_TARGET}))
    cmd = L.pavexc_cmd(WS, f"{WS}/bps/{name}.{style}.ron", f"{WS}/sdk", diagnostics=f"{WS}/diag/{name}.{style}.dot")
    os.makedirs(f"{WS}/diag", exist_ok=True)
    before = L.dir_digest(f"{WS}/sdk")
    root_before = L.sha256_file(f"{WS}/Cargo.toml")
    cache_before = cache_files()
    t0 = time.time()
    try:
        r = subprocess.run(cmd, cwd=WS, env=env, stdout=subprocess.PIPE, stderr=subprocess.PIPE, text=True, timeout=timeout)
        code, err, timed_out = r.returncode, r.stderr, False
    except subprocess.TimeoutExpired as ex:
        err = ex.stderr.decode("utf8", "replace") if isinstance(ex.stderr, bytes) else (ex.stderr or "")
        code, timed_out = None, True
    wall = time.time() - t0
    after = L.dir_digest(f"{WS}/sdk")
    changed = sorted(p for p in set(before) | set(after) if before.get(p) != after.get(p))
    o = {"exit": code, "timed_out": timed_out, "wall_s": round(wall, 2), "stderr": ANSI.sub("", err)[-6000:],
         "sdk_changed_files": changed, "had_previous_sdk": bool(before),
         "root_manifest_changed": root_before != L.sha256_file(f"{WS}/Cargo.toml"),
         "titles": titles(err), "cache_before": cache_before, "cache_after": cache_files(),
         "documented": sorted(set(re.findall(r"Documenting ([\w-]+)@", err)))}
    o.update(L.classify_stderr(err))
    o["panic_site"] = panic_site(err) if o["panic"] else None
    return o


# --------------------------------------------------------------------------------------------------
# observation
# --------------------------------------------------------------------------------------------------
SEED_NAME = "seed"  # the crate whose generation produces the `toolchain` cache snapshot (not a member of the space)
TIMEOUT_S = {"cold": 300, "recold": 300, "toolchain": 180, "warm": 120}  # measured: cold 4-8 s, others < 1 s at load 130 on 16 cores
CHAINS = (("cold", "recold"), ("toolchain", "warm"))
SDK_KEEP = f"{ROOT}/sdk-control"


def keep_control_sdk():
    shutil.rmtree(SDK_KEEP, ignore_errors=True)
    shutil.copytree(f"{WS}/sdk", f"{SDK_KEEP}/sdk")  # copy2: modification times are kept
    shutil.copy2(f"{WS}/Cargo.toml", f"{SDK_KEEP}/Cargo.toml")


def put_control_sdk():
    """The SDK generated earlier from the control crate (and the workspace manifest of that moment) back on disk."""
    if not os.path.isdir(f"{SDK_KEEP}/sdk"):
        return False
    shutil.rmtree(f"{WS}/sdk", ignore_errors=True)
    shutil.copytree(f"{SDK_KEEP}/sdk", f"{WS}/sdk")
    shutil.copy2(f"{SDK_KEEP}/Cargo.toml", f"{WS}/Cargo.toml")
    return True


def prepare():
    """Workspace, `toolchain` cache snapshot (cold generation of the seed crate: also warms cargo's target directory, hence
    the long time-out) and the control SDK (generated from `ok.import` on top of that snapshot)."""
    os.makedirs(WS, exist_ok=True)
    prepare_ws()
    shutil.rmtree(SDK_KEEP, ignore_errors=True)
    shutil.rmtree(f"{WS}/diag", ignore_errors=True)
    wipe_cache()
    o = run_pavexc(SEED_NAME, "import", PREP_TIMEOUT_S)
    if o["exit"] != 0:
        sys.stderr.write(o["stderr"][-3000:])
        raise L.MachineryError(f"coldann: the seed crate is not accepted from a cold cache (exit {o['exit']}): no `toolchain` snapshot")
    save_cache(SNAP)
    reset_outputs()
    c = run_pavexc("ok", "import", TIMEOUT_S["toolchain"])
    if c["exit"] != 0:
        sys.stderr.write(c["stderr"][-3000:])
        raise L.MachineryError(f"coldann: the control crate is not accepted (exit {c['exit']}): there is no control SDK to put on disk")
    keep_control_sdk()
    return {"seed_cold_wall_s": o["wall_s"], "snapshot": o["cache_after"], "seed_documented": o["documented"],
            "control_sdk_files": sorted(L.dir_digest(f"{SDK_KEEP}/sdk"))}


def setup_state(name, style, state):
    """Bring the cache to `state` for (name, style) from scratch and put the control SDK on disk."""
    if state in ("cold", "recold"):
        wipe_cache()
    else:
        restore_cache(SNAP)
    if state in ("recold", "warm"):
        put_control_sdk()
        run_pavexc(name, style, TIMEOUT_S["cold"])
    put_control_sdk()


def observe_run(name, style, state, from_scratch=True):
    if from_scratch:
        setup_state(name, style, state)
    else:
        put_control_sdk()
    o = run_pavexc(name, style, TIMEOUT_S[state])
    if o["timed_out"]:  # once more, from scratch, with a three times larger limit, before it may count as a hang
        setup_state(name, style, state)
        o = run_pavexc(name, style, TIMEOUT_S[state] * 3)
        o["retried_after_timeout"] = True
    o.update({"fault": name, "style": style, "state": state})
    return o


def fid(o):
    return f"{o['fault']}.{o['style']}"


def judge(o):
    """C09 on one run -> [(key, what)]."""
    out = []
    f, exp = fid(o), FAULTS[o["fault"]]["expect"][o["style"]]
    where = f"crate `{o['fault']}`, blueprint `{o['style']}`, cache state `{o['state']}`"
    if o["timed_out"]:
        out.append((f"coldann:hang:{f}", f"pavexc did not terminate within {TIMEOUT_S[o['state']]}s (nor within three times that, alone) on {where}"))
    elif o["panic"]:
        out.append((f"coldann:panic:{o['panic_site']}", f"pavexc panicked at {o['panic_site']} on {where}"))
    elif o["exit"] not in (0, 1):
        out.append((f"coldann:exit:{o['exit']}:{f}", f"pavexc ended with status {o['exit']} on {where}"))
    elif o["exit"] == 1 and o["n_error"] == 0:
        out.append((f"coldann:silent-failure:{f}", f"pavexc exited 1 without an ERROR diagnostic on {where}"))
    elif o["exit"] == 0 and o["n_error"] > 0:
        out.append((f"coldann:error-diagnostic-with-exit-0:{f}", f"pavexc printed an ERROR but exited 0 on {where}"))
    elif o["exit"] == 0 and exp == "reject":
        out.append((f"coldann:exit0:{f}", f"pavexc accepted {where} ({FAULTS[o['fault']]['doc']})"))
    if o["exit"] != 0 and (o["sdk_changed_files"] or o["root_manifest_changed"]):
        out.append((f"coldann:not-atomic:{f}", f"the failing run on {where} modified the control SDK on disk: {o['sdk_changed_files']} "
                    f"root_manifest_changed={o['root_manifest_changed']}"))
    return out


def outcome_sig(o):
    return [o["exit"], o["timed_out"], o["panic_site"], o["titles"], bool(o["sdk_changed_files"]), o["root_manifest_changed"]]


def observe_entry(name, style, states, confirmed):
    """All states of one (crate, blueprint). `confirmed`: violation keys already reproduced in this observation: a
    further manifestation of one of them is not re-executed (keeps the tier within its time budget)."""
    recs = []
    for chain in CHAINS:
        first = True
        for state in chain:
            if state not in states:
                continue
            o = observe_run(name, style, state, from_scratch=first)
            first = False
            keys = [k for k, _w in judge(o)]
            if keys and not all(k in confirmed for k in keys):
                # determinism: the same case again, from scratch (a race inside pavexc may need more than one attempt)
                again = []
                for _t in range(3):
                    o2 = observe_run(name, style, state, from_scratch=True)
                    again.append(outcome_sig(o2))
                    if outcome_sig(o2) == outcome_sig(o):
                        break
                o["reexecuted"] = again
                o["reproduced"] = again[-1] == outcome_sig(o)
                if o["reproduced"]:
                    confirmed.update(keys)
                first = True  # the next state of the chain is built from scratch
            recs.append(o)
    return recs


def observe_entries(ents, states, tier):
    t0 = time.time()
    prep = prepare()
    L.log(f"coldann: workspace, `toolchain` snapshot and control SDK ready in {time.time() - t0:.1f}s")
    records, confirmed = [], set()
    for name, style in ents:
        t1 = time.time()
        recs = observe_entry(name, style, states, confirmed)
        records += recs
        L.log(f"coldann: {name}.{style}: " + ", ".join(f"{r['state']}=" + ("panic" if r["panic"] else f"exit{r['exit']}") for r in recs)
              + f" ({time.time() - t1:.1f}s)")
    for d in (HOME, SNAP, SDK_KEEP, f"{WS}/sdk"):
        shutil.rmtree(d, ignore_errors=True)
    return {"family": FAM, "tier": tier, "records": records, "prep": prep, "entries": [list(e) for e in ents], "states": list(states),
            "total_wall_s": round(time.time() - t0, 1)}


def observe(tier):
    return observe_entries(entries(tier), STATES[tier], tier)


# --------------------------------------------------------------------------------------------------
# oracle
# --------------------------------------------------------------------------------------------------
WARM_BP = {"ops": [{"k": "ctor", "c": "C_T0P__0__S", "lc": "request_scoped"}, {"k": "route", "c": "H0__PR_0_0__I"}]}

RULE = (
    "full product of {app crates with one annotation-level fault each (+ a valid control crate); faults: %s} x {blueprint reaching the "
    "crate by `import`/`routes(from![crate])` or by registering every component through its coordinates; quick: `import`, plus "
    "`coords` where it reaches other code; thorough: both} x {rustdoc cache state: %s}; every crate compiles (pavexc runs cargo "
    "rustdoc on it); the real pavexc binary runs on a private $HOME, sequentially, with the SDK generated from the control crate on "
    "disk; oracle C09: exit within the time-out (cold %ds, else <= %ds; a run that exceeds it is repeated alone with three times the "
    "limit), status 0 or 1, status 1 with >= 1 ERROR diagnostic and status 0 with none, no panic banner, failing runs leave the "
    "control SDK and the workspace manifest byte- and mtime-identical; an error crate must be rejected and the control crate accepted in "
    "EVERY state; a violation is re-executed from scratch before it is reported; verdict (status + diagnostic titles) differences "
    "between cache states are recorded in `verdict_depends_on_cache` (a violation only when a valid crate is rejected in some state). "
    "non-trivial = a (crate, blueprint, state) whose run violated the oracle, wrote the SDK, or printed the diagnostic planted in the crate "
    "(any ERROR diagnostic for the one crate whose rejection message is not pinned).")


def spec_of(o):
    return {"id": f"coldann_{o['fault']}_{o['style']}_{o['state']}", "family": FAM, "bp": WARM_BP,
            "coldann": {"fault": o["fault"], "style": o["style"], "state": o["state"]}}


def check_states(o):
    """The cache states must have been what their names say (harness self-check)."""
    me = pkg(o["fault"])
    if o["state"] == "cold" and (o["cache_before"] or me not in o["documented"]):
        return f"`cold` run of {fid(o)} started with cache files {o['cache_before']} / documented only {o['documented']}"
    if o["state"] == "toolchain" and (not o["cache_before"] or me not in o["documented"] or "pavex" in o["documented"]):
        return f"`toolchain` run of {fid(o)}: cache before = {o['cache_before']}, documented {o['documented']}"
    return None


def oracle_c09_coldann(obs, rep, tier):
    o = obs.get(FAM) or {}
    if "records" not in o:  # --replay: re-observe exactly the (crate, blueprint) of the case, in every state
        want = []
        for spec in o.get("specs", []):
            c = spec.get("coldann") or {}
            if c.get("fault") in FAULTS and c.get("style") in FAULTS[c["fault"]]["expect"]:
                want.append((c["fault"], c["style"]))
        if not want:
            raise L.MachineryError("coldann replay: the case does not name a (fault, style) of the alphabet")
        o = observe_entries(list(dict.fromkeys(want)), STATES["thorough"], "replay")
        print(json.dumps({"replayed": want, "expected": "every state: exit 0, or exit 1 with >= 1 ERROR diagnostic; no panic; control SDK untouched",
                          "observed": [{k: r[k] for k in ("fault", "style", "state", "exit", "panic_site", "titles", "sdk_changed_files")}
                                       for r in o["records"]]}, indent=1))
    hist = collections.Counter()
    per_state = collections.defaultdict(collections.Counter)
    nontrivial = set()
    samples = []
    unreproduced = []
    by_entry = collections.defaultdict(list)
    planted_seen = collections.Counter()
    for r in o["records"]:
        bad = check_states(r)
        if bad:
            raise L.MachineryError("coldann: " + bad)
        by_entry[fid(r)].append(r)
        outcome = ("hang" if r["timed_out"] else "panicked" if r["panic"] else "accepted" if r["exit"] == 0 else
                   "rejected" if r["exit"] == 1 else f"exit{r['exit']}")
        hist[outcome] += 1
        per_state[r["state"]][outcome] += 1
        f = FAULTS[r["fault"]]
        found = judge(r)
        planted = bool(f["title"]) and any(re.search(f["title"], t) for t in r["titles"])
        if planted:
            planted_seen[fid(r)] += 1
        if found or planted or (r["exit"] == 0 and not r["n_error"]) or (r["exit"] == 1 and r["n_error"] and not f["title"]):
            nontrivial.add((fid(r), r["state"]))
        if r["exit"] == 1 and not r["panic"] and f["title"] and not planted:
            raise L.MachineryError(f"coldann: {fid(r)} in state {r['state']} is rejected, but not with the diagnostic planted in the crate "
                                   f"(/{f['title']}/): {r['titles']} -- the crate or the expectation is out of date")
        if found and r.get("reproduced") is False:
            unreproduced.append({"case": [fid(r), r["state"]], "first": outcome_sig(r), "reexecutions": r["reexecuted"]})
            continue
        for key, what in found:
            rep.violation(key, what, {"oracle": "C09", "spec": spec_of(r), "fault": f["doc"], "exit": r["exit"], "titles": r["titles"],
                                      "panic_site": r["panic_site"], "sdk_changed_files": r["sdk_changed_files"],
                                      "root_manifest_changed": r["root_manifest_changed"], "reexecuted": r.get("reexecuted"),
                                      "lib_rs": lib_rs(r["fault"])[0], "blueprint_ron": blueprint_ron(r["fault"], r["style"]),
                                      "stderr": r["stderr"][-2500:]})
        if len(samples) < 3 and (r["fault"], r["state"]) in (("ok", "cold"), ("dup_id_across_modules", "cold"), ("dup_id_across_modules", "warm")):
            samples.append({"fault": r["fault"], "style": r["style"], "state": r["state"], "exit": r["exit"], "panic_site": r["panic_site"],
                            "titles": r["titles"], "wall_s": r["wall_s"]})
    if unreproduced and not rep.violations:
        raise L.MachineryError(f"nondeterministic: {json.dumps(unreproduced)[:1500]}")
    depends, outcome_depends = [], []
    for f, rs in by_entry.items():
        clean = [r for r in rs if not r["panic"] and not r["timed_out"]]
        verdicts = {json.dumps([r["exit"], r["titles"]]) for r in clean}
        exp = FAULTS[rs[0]["fault"]]["expect"][rs[0]["style"]]
        if len(verdicts) > 1:
            depends.append({"case": f, "verdicts": {r["state"]: [r["exit"], r["titles"]] for r in clean}})
        outcomes = {r["state"]: ("hang" if r["timed_out"] else f"panic at {r['panic_site']}" if r["panic"] else f"exit {r['exit']}") for r in rs}
        if len(set(outcomes.values())) > 1:
            outcome_depends.append({"case": f, "outcomes": outcomes})
        rejected = [r for r in clean if r["exit"] == 1]
        if exp == "accept" and rejected:
            if len(rejected) == len(rs):
                raise L.MachineryError(f"coldann: the control {f} is rejected in every cache state: {rejected[0]['titles']}")
            r = rejected[0]
            rep.violation(f"coldann:verdict-depends-on-cache:{f}", f"the valid control crate ({f}) is accepted in some cache states and rejected in "
                          f"state `{r['state']}`: {r['titles']}", {"oracle": "C09", "spec": spec_of(r), "exit": r["exit"], "titles": r["titles"],
                                                                   "stderr": r["stderr"][-2500:]})
    n = len(o["records"])
    cov = {"evaluations": n, "distinct_nontrivial": len(nontrivial), "exhaustive": True, "rule": RULE % (
               "; ".join(f"{k}: {v['doc']}" for k, v in FAULTS.items() if v["space"] and k != "ok"), ", ".join(o["states"]),
               TIMEOUT_S["cold"], TIMEOUT_S["toolchain"]),
           "samples": samples or [{k: r[k] for k in ("fault", "style", "state", "exit", "titles")} for r in o["records"][:2]],
           "entries": o["entries"], "states": o["states"], "pairs_run": n, "outcome_histogram": dict(hist),
           "outcome_histogram_per_state": {k: dict(v) for k, v in per_state.items()},
           "runs_printing_the_planted_diagnostic": dict(planted_seen), "verdict_depends_on_cache": depends,
           "outcome_depends_on_cache_including_panics": outcome_depends,
           "accepted_fault_crates": sorted({fid(r) for r in o["records"] if r["exit"] == 0 and r["fault"] != "ok"}),
           "unreproduced_next_to_reported_violations": unreproduced, "prep": o["prep"], "observe_total_wall_s": o["total_wall_s"],
           "wall_s_per_state": {st: round(sum(r["wall_s"] for r in o["records"] if r["state"] == st), 1) for st in o["states"]}}
    return "exploration", cov, [
        "the cache states are produced by real pavexc runs on a private $HOME (deleting $HOME/.pavex; copying the directory left by a cold "
        "generation of a second valid crate); cargo's target directory stays warm, as it would for a user who only lost ~/.pavex",
        "hand-written `#[diagnostic::pavex::*]` attributes stand for annotation faults the attribute macros refuse at compile time",
        "the blueprints are RON transcriptions of `blueprint_import()` / `blueprint_coords()` at the end of every crate's lib.rs "
        "(compiled together with the crate, not executed)",
    ]


PROPERTIES = {"C09": (lambda tier: [FAM], oracle_c09_coldann)}


if __name__ == "__main__":  # development entry: python3 fam_coldann.py quick
    from report import Reporter
    tier_ = sys.argv[1] if len(sys.argv) > 1 else "quick"
    obs_ = observe(tier_)
    with open(f"{ROOT}/last-obs-{tier_}.json", "w") as f_:
        json.dump(obs_, f_, indent=1)
    rep_ = Reporter("C09", tier_)
    lvl_, cov_, asm_ = oracle_c09_coldann({FAM: obs_}, rep_, tier_)
    print(json.dumps({k: v for k, v in cov_.items() if k not in ("rule", "samples", "prep")}, indent=1))
    print("violations:", [v["key"] for v in rep_.violations])
