"""Extra verif_app components for the `singleton_by_value` plants of the PLANT family (C08): a never-clone, non-Copy,
thread-safe singleton `Sbv` and a BY-VALUE consumer of every component kind, including the derived ones (a wrapping
middleware is always re-interned with `Next<C>` bound; a generic constructor is specialised per use site)."""


def gen(w, catalog):
    def add(cid, kind, macro, inputs, **kw):
        d = {"id": cid, "kind": kind, "macro": macro, "inputs": inputs, "fallible": False, "async": False, "err": None, "plant": True}
        d.update(kw)
        catalog.append(d)

    inp = [{"type": "Sbv", "mode": "v"}]
    w("// ================= gen_app_extra_sbv.py =================")
    w("#[derive(Debug)] pub struct Sbv { pub id: u64 }")
    w("impl crate::Tagged for Sbv { fn tagged(&self) -> String { format!(\"Sbv#{}\", self.id) } }")
    w("#[pavex::singleton(id = \"C_SBV\")] pub fn c_sbv() -> Sbv { Sbv { id: rt::next_id() } }")
    add("C_SBV", "ctor", "constructor", [], out="Sbv")
    w("#[pavex::get(path = \"/px\", id = \"HX_SBV_V\")] pub fn hx_sbv_v(_a: Sbv) -> pavex::Response { rt::call(\"handler\", \"HX_SBV_V\", &[]); rt::respond(\"h\", \"HX_SBV_V\") }")
    add("HX_SBV_V", "handler", "route", inp, path="/px", methods=["GET"])
    w("#[pavex::pre_process(id = \"PREX_SBV_V\")] pub fn prex_sbv_v(_a: Sbv) -> pavex::middleware::Processing { rt::call(\"pre\", \"PREX_SBV_V\", &[]); pavex::middleware::Processing::Continue }")
    add("PREX_SBV_V", "pre", "pre_process", inp, idx=9)
    w("#[pavex::post_process(id = \"POSTX_SBV_V\")] pub fn postx_sbv_v(resp: pavex::Response, _a: Sbv) -> pavex::Response { rt::call(\"post\", \"POSTX_SBV_V\", &[]); resp }")
    add("POSTX_SBV_V", "post", "post_process", inp, idx=9)
    w("#[pavex::wrap(id = \"WRAPX_SBV_V\")] pub async fn wrapx_sbv_v<C>(next: pavex::middleware::Next<C>, _a: Sbv) -> pavex::Response")
    w("where C: std::future::IntoFuture<Output = pavex::Response> { rt::call(\"wrap\", \"WRAPX_SBV_V\", &[]); let r = next.await; rt::ev(\"wrapexit WRAPX_SBV_V\".to_string()); r }")
    add("WRAPX_SBV_V", "wrap", "wrap", inp, idx=9)
    # through a plain constructor and through a specialised generic one
    w("#[derive(Debug)] pub struct ViaSbv;")
    w("#[pavex::request_scoped(id = \"C_VIA_SBV_V\")] pub fn c_via_sbv_v(_a: Sbv) -> ViaSbv { ViaSbv }")
    add("C_VIA_SBV_V", "ctor", "constructor", inp, out="ViaSbv")
    w("#[pavex::get(path = \"/px\", id = \"HX_VIA_SBVV_R\")] pub fn hx_via_sbvv_r(_a: &ViaSbv) -> pavex::Response { rt::call(\"handler\", \"HX_VIA_SBVV_R\", &[]); rt::respond(\"h\", \"HX_VIA_SBVV_R\") }")
    add("HX_VIA_SBVV_R", "handler", "route", [{"type": "ViaSbv", "mode": "r"}], path="/px", methods=["GET"])
    w("#[derive(Debug)] pub struct GenSbv<T> { _t: std::marker::PhantomData<T> }")
    w("#[pavex::request_scoped(id = \"C_GEN_SBV_V\")] pub fn c_gen_sbv_v<T: crate::Tagged>(_a: Sbv, _t: &T) -> GenSbv<T> { GenSbv { _t: std::marker::PhantomData } }")
    add("C_GEN_SBV_V", "ctor", "constructor", inp + [{"type": "T", "mode": "r"}], out="GenSbv<T>", generic=True)
    w("#[derive(Debug)] pub struct SbvAux;")
    w("impl crate::Tagged for SbvAux { fn tagged(&self) -> String { \"SbvAux\".to_string() } }")
    w("#[pavex::request_scoped(id = \"C_SBVAUX\")] pub fn c_sbvaux() -> SbvAux { SbvAux }")
    add("C_SBVAUX", "ctor", "constructor", [], out="SbvAux")
    w("#[pavex::get(path = \"/px\", id = \"HX_GEN_SBV_R\")] pub fn hx_gen_sbv_r(_a: &GenSbv<SbvAux>) -> pavex::Response { rt::call(\"handler\", \"HX_GEN_SBV_R\", &[]); rt::respond(\"h\", \"HX_GEN_SBV_R\") }")
    add("HX_GEN_SBV_R", "handler", "route", [{"type": "GenSbv<SbvAux>", "mode": "r"}], path="/px", methods=["GET"])
    w()
