"""Extra verif_app components: METHOD-style components (`#[pavex::methods] impl T { .. }`), in particular error handlers
whose receiver is NOT the error (`fn handle(&self, #[px(error_ref)] e: &E)`: the error reference is the second input) and
error handlers whose receiver IS the error (`impl E { fn to_response(&self) }`). Used by the ERR-METH shapes of the err family.
"""


def gen(w, catalog):
    w("// ================= gen_app_extra_meth.py =================")
    w("#[derive(Debug)] pub struct MHolder { pub id: u64 }")
    w("impl MHolder { pub fn tag(&self) -> String { rt::tag(\"MHolder\", self.id, self.id, \"C_MHOLDER_NEW\", false) } }")
    w("#[pavex::methods]")
    w("impl MHolder {")
    w("    #[request_scoped(id = \"C_MHOLDER_NEW\")]")
    w("    pub fn new() -> Self { let id = rt::new_value(\"MHolder\", \"C_MHOLDER_NEW\", &[]); MHolder { id } }")
    for err, low in (("ErrH", "errh"), ("ErrPre", "errpre"), ("ErrC", "errc")):
        cid = f"EH_M_{err.upper()}_SELF"
        w(f"    #[error_handler(id = \"{cid}\")]")
        w(f"    pub fn handle_{low}(&self, #[px(error_ref)] e: &{err}) -> pavex::Response {{")
        w(f"        rt::call_err(\"eh\", \"{cid}\", &e.to_string(), &[self.tag()]); rt::respond_status(\"eh\", \"{cid}\", 510) }}")
        catalog.append({"id": cid, "kind": "eh", "macro": "error_handler", "inputs": [{"type": "MHolder", "mode": "r"}], "err": err, "idx": 1,
                        "meth": True})
    w("    #[get(path = \"/r0\", id = \"H0_M_SELF\")]")
    w("    pub fn serve(&self) -> Result<pavex::Response, ErrH> {")
    w("        rt::call(\"handler\", \"H0_M_SELF\", &[self.tag()]);")
    w("        if rt::fails(\"H0_M_SELF\") { return Err(ErrH::new(\"H0_M_SELF\")); }")
    w("        Ok(rt::respond(\"h\", \"H0_M_SELF\")) }")
    catalog.append({"id": "H0_M_SELF", "kind": "handler", "macro": "route", "inputs": [{"type": "MHolder", "mode": "r"}], "fallible": True,
                    "err": "ErrH", "path": "/r0", "methods": ["GET"], "meth": True})
    w("    #[pre_process(id = \"PRE_M_SELF\")]")
    w("    pub fn check(&self) -> Result<pavex::middleware::Processing, ErrPre> {")
    w("        rt::call(\"pre\", \"PRE_M_SELF\", &[self.tag()]);")
    w("        if rt::fails(\"PRE_M_SELF\") { return Err(ErrPre::new(\"PRE_M_SELF\")); }")
    w("        if rt::early(\"PRE_M_SELF\") { Ok(pavex::middleware::Processing::EarlyReturn(rt::respond(\"early\", \"PRE_M_SELF\"))) } else { Ok(pavex::middleware::Processing::Continue) } }")
    catalog.append({"id": "PRE_M_SELF", "kind": "pre", "macro": "pre_process", "inputs": [{"type": "MHolder", "mode": "r"}], "fallible": True,
                    "err": "ErrPre", "idx": 1, "meth": True})
    w("}")
    catalog.append({"id": "C_MHOLDER_NEW", "kind": "ctor", "macro": "constructor", "out": "MHolder", "inputs": [], "fallible": False,
                    "async": False, "err": None, "meth": True})
    # the receiver IS the error
    for err in ("ErrH", "ErrPre"):
        cid = f"EH_M_{err.upper()}_ON_ERR"
        w("#[pavex::methods]")
        w(f"impl {err} {{")
        w(f"    #[error_handler(id = \"{cid}\")]")
        w("    pub fn to_response(&self) -> pavex::Response {")
        w(f"        rt::call_err(\"eh\", \"{cid}\", &self.to_string(), &[]); rt::respond_status(\"eh\", \"{cid}\", 510) }}")
        w("}")
        catalog.append({"id": cid, "kind": "eh", "macro": "error_handler", "inputs": [], "err": err, "idx": 1, "meth": True})
    w()
