"""Family `hop` (C02, C08): the "singletons depend only on singletons (through transients)" rule across
nesting levels.

Every member is the two-level tree R > A:
  R registers  T0P  with lifecycle x0 in {singleton, request_scoped, transient}            (C_T0P__0__S)
               T1P  (needs &T0P) with lifecycle x1 in {transient, request_scoped, singleton} (C_T1P__PR__S)
  A registers  T0P again with lifecycle y0 in {-, singleton, request_scoped, transient}     (C_T0P__0__A; shadows R's)
               T2P  (needs &T1P or T1P) with lifecycle z in {singleton | request_scoped}     (C_T2P__0_PR__S / _PV__S)
               a route taking &T2P
The member with z = singleton is the MAIN, the same blueprint with z = request_scoped is its TWIN.

Oracle   The twin carries no lifecycle constraint on T2P: it is rule-abiding and must be accepted (C02).
         The main is walked T2P -> T1P -> T0P. Which T0P registration T1P's constructor depends on when A shadows R's is
         not documented (fam_scope records the same question as unspecified; pavexc answers it differently for request
         pipelines - the consumer's blueprint, visible in the twin's trace - and for the application state), so the
         main is judged under BOTH readings (T1P's own blueprint R / the consumer's blueprint A): if the singleton
         reaches no request-scoped component under either reading it must be accepted (C02); if it reaches one under
         both it must be rejected (C08); if the readings disagree the member is only recorded
         (`unspecified_shadowed_dependency`). Without a shadowing registration (y0 = -) there is one reading.
         What the twin observed is recorded in the histogram.
"""
import collections
import json

import lib_e2e as L
import refmodel as M

LC = {"S": "singleton", "R": "request_scoped", "T": "transient"}
T0_R, T0_A, T1_R = "C_T0P__0__S", "C_T0P__0__A", "C_T1P__PR__S"
T2 = {"ref": "C_T2P__0_PR__S", "val": "C_T2P__0_PV__S"}


def build(x0, x1, y0, z, how, late):
    r_ctors = [{"k": "ctor", "c": T0_R, "lc": LC[x0]}, {"k": "ctor", "c": T1_R, "lc": LC[x1]}]
    a_ctors = ([{"k": "ctor", "c": T0_A, "lc": LC[y0]}] if y0 != "-" else []) + [{"k": "ctor", "c": T2[how], "lc": LC[z]}]
    a_body = [{"k": "route", "c": "H0__0_0_PR__I"}]
    a_ops = (a_body + a_ctors) if late else (a_ctors + a_body)
    r_body = [{"k": "route", "c": "H1__0_0_0__I"}, {"k": "nest", "bp": {"ops": a_ops}}]
    return {"ops": (r_body + r_ctors) if late else (r_ctors + r_body)}


def enumerate_specs(tier):
    specs = []
    k = 0
    for x0 in "SRT":
        for y0 in "-SRT":
            if x0 == "S" and y0 == "S":
                continue  # two singleton registrations of one type: a C08 rule of its own (PLANT/SCOPE families)
            for x1 in ("TR" if tier == "quick" else "TRS"):
                for how in (["ref"] if tier == "quick" else ["ref", "val"]):
                    if how == "val" and x1 == "S":
                        continue  # moving a non-Clone singleton: a borrow-checker matter, not this family's
                    late = (k % 2 == 1)
                    k += 1
                    cfg = {"x0": x0, "x1": x1, "y0": y0, "how": how, "late": late}
                    for z, role in (("S", "main"), ("R", "twin")):
                        sid = f"hop{len(specs):04d}"
                        specs.append({"id": sid, "family": "hop", "bp": build(x0, x1, y0, z, how, late),
                                      "hop": dict(cfg, z=z, role=role, pair=f"{x0}{x1}{y0}{how}{int(late)}")})
    return specs


def observe(tier):
    import orchestrator
    specs = enumerate_specs(tier)
    o = orchestrator.observe_specs(specs, f"{L.E2E_WORK}/hop-{tier}", with_run=True, batch_size=60)
    for g in o["gen"].values():
        g.pop("stdout", None)
    o["specs"] = specs
    return o


def _t0_seen_by_t1(o, spec):
    """-> 'R' | 'A' | None: which T0P registration the T1P that reached the handler was built from."""
    sid = spec["id"]
    b, run = o["build"].get(sid), o["run"].get(sid)
    if not b or not b.get("build_ok") or not run:
        return None, "not built / not run"
    st = run.get("startup") or {}
    if not st.get("ok"):
        return None, f"startup failed: {st}"
    lines = list(st.get("trace") or [])
    for req, resp in zip(o["scripts"].get(sid, []), run["responses"]):
        if req["path"].endswith("/r0"):
            lines += resp.get("trace", [])
    events = M.parse_trace(lines)
    mk = [e for e in events if e["e"] == "new" and e["type"] == "T1P"]
    if not mk or not mk[-1]["ins"]:
        return None, f"no T1P construction in the trace: {lines}"
    by = mk[-1]["ins"][0]["by"]
    return {T0_R: "R", T0_A: "A"}.get(by), lines


def _ensure_pair(o, spec):
    """Replay of a single member: observe its partner too."""
    import orchestrator
    h = spec["hop"]
    other_z = "R" if h["z"] == "S" else "S"
    partner = {"id": spec["id"] + "p", "family": "hop", "bp": build(h["x0"], h["x1"], h["y0"], other_z, h["how"], h["late"]),
               "hop": dict(h, z=other_z, role="twin" if other_z == "R" else "main")}
    o2 = orchestrator.observe_specs([spec, partner], f"{L.E2E_WORK}/hop-replay", with_run=True)
    o2["specs"] = [spec, partner]
    return o2


def _judge(obs, rep, tier, prop):
    import oracles as O
    o = obs["hop"]
    specs = o.get("specs", [])
    if len(specs) == 1 and specs[0].get("hop"):
        o = _ensure_pair(o, specs[0])
        specs = o["specs"]
    pairs = collections.defaultdict(dict)
    for s in specs:
        if s.get("hop"):
            pairs[s["hop"]["pair"]][s["hop"]["role"]] = s
    n = 0
    hist = collections.Counter()
    distinct = set()
    samples = []
    for key, p in sorted(pairs.items()):
        main, twin = p.get("main"), p.get("twin")
        if not main or not twin:
            continue
        h = main["hop"]
        gm, gt = o["gen"].get(main["id"]), o["gen"].get(twin["id"])
        if gm is None or gt is None:
            continue
        n += 2
        distinct.add(key)
        case_t = {"oracle": prop, "spec": twin, "stderr": O.ANSI.sub("", gt["stderr"])[:3000]}
        case_m = {"oracle": prop, "spec": main, "twin": twin["bp"], "stderr": O.ANSI.sub("", gm["stderr"])[:3000]}
        if gt["exit"] != 0 or gt["n_error"] > 0:
            hist["twin:" + ("panic" if gt.get("panic") else "rejected")] += 1
            if prop == "C02" and not gt.get("panic"):
                title = O.first_error_title(gt["stderr"])
                rep.violation(f"hop:reject-twin:{title}", f"hop twin {twin['id']} (x0={h['x0']} x1={h['x1']} y0={h['y0']} {h['how']}; T2P request-scoped) is "
                              f"rule-abiding but pavexc rejected it: {title}", case_t)
            continue
        seen, detail = _t0_seen_by_t1(o, twin)
        if seen is None:
            hist["twin:resolution-not-observed"] += 1
            if prop == "C02":
                rep.violation("hop:twin-unobservable", f"hop twin {twin['id']} was accepted but its T1P/T0P provenance cannot be observed: {detail}", case_t)
            continue
        readings = {"R": h["x0"]} if h["y0"] == "-" else {"R": h["x0"], "A": h["y0"]}
        reach = {k: (h["x1"] == "R") or (lc == "R") for k, lc in readings.items()}  # x1 in {T, S}: its T0P must not be request-scoped
        accepted = gm["exit"] == 0 and gm["n_error"] == 0
        out = "panic" if gm.get("panic") else ("accepted" if accepted else "rejected")
        case_m["twin_T1P_built_from_T0P_of"] = seen
        if len(samples) < 3 and h["y0"] != "-":
            samples.append({"pair": key, "main": main["bp"]["ops"], "twin_T1P_built_from": seen, "main_exit": gm["exit"]})
        if len(set(reach.values())) > 1:
            hist[f"unspecified_shadowed_dependency:T0P@R={h['x0']},T0P@A={h['y0']},T1P={h['x1']}:twin_resolves_from_{seen}:{out}"] += 1
            continue
        violating = next(iter(reach.values()))
        hist[f"{'violating' if violating else 'abiding'}:{'shadowed' if h['y0'] != '-' else 'plain'}:{out}"] += 1
        if gm.get("panic"):
            continue  # C09's (scope / plant families judge panics)
        if not violating and not accepted and prop == "C02":
            title = O.first_error_title(gm["stderr"])
            rep.violation(f"hop:reject:{title}",
                          f"hop main {main['id']} (T0P@R={LC[h['x0']]}, T1P@R={LC[h['x1']]}, T0P@A={LC.get(h['y0'], 'none')}, singleton T2P@A takes T1P by {h['how']}): "
                          f"the singleton reaches no request-scoped component whichever T0P registration T1P is built from, but pavexc rejected it: {title}", case_m)
        if violating and accepted and prop == "C08":
            rep.violation("hop:accept:singleton-reaches-request-scoped",
                          f"hop main {main['id']} (T0P@R={LC[h['x0']]}, T1P@R={LC[h['x1']]}, T0P@A={LC.get(h['y0'], 'none')}, singleton T2P@A): the singleton reaches a "
                          f"request-scoped component whichever T0P registration T1P is built from, but pavexc accepted it", case_m)
        if accepted and gm.get("panic"):
            pass
    cov = {"evaluations": n, "distinct_nontrivial": len(distinct), "exhaustive": True,
           "rule": "R>A trees: T0P@R x {singleton,request,transient}, T1P(&T0P)@R x {transient,request" + ("" if tier == "quick" else ",singleton")
                   + "}, shadowing T0P@A x {none,singleton,request,transient}, T2P(T1P by ref" + ("" if tier == "quick" else "/value")
                   + ")@A singleton (main) vs request-scoped (twin); the main must be "
                     "accepted iff its singleton reaches no request-scoped component (judged only where both readings of a shadowed dependency agree)",
           "samples": samples, "verdict_histogram": dict(hist)}
    return "exploration", cov, ["members whose verdict depends on the undocumented resolution of a shadowed dependency are recorded, not judged"]


def oracle_c02_hop(obs, rep, tier):
    return _judge(obs, rep, tier, "C02")


def oracle_c08_hop(obs, rep, tier):
    return _judge(obs, rep, tier, "C08")


PROPERTIES = {
    "C02": (lambda tier: ["hop"], oracle_c02_hop),
    "C08": (lambda tier: ["hop"], oracle_c08_hop),
}
