"""Family `baddom` (C09): malformed nesting constraints. A domain guard or a path prefix that breaks the documented syntax must
end in a diagnostic (exit 1, SDK untouched) — never a panic — whatever the characters are made of. The in-process engine of C20
feeds guard strings to the validator alone; here each string travels the whole way (`bp.domain(g).nest(..)` in a blueprint,
pavexc's diagnostics with source snippets), and the alphabet includes multi-byte characters at every position an error message
quotes from: every error path of the validator x {ASCII, 2-byte, 3-byte, 4-byte character} before / inside / after the
offending construct. Valid controls (must be accepted) keep the family honest.

Enumerated: GUARD_TEMPLATES x FILLERS (the placeholder `~` is replaced by each filler), PREFIX_CASES, each as
[nest(domain|prefix = s, [route])] and, for the guards, additionally as the second of two domain nests."""
import oracles as O

FAM = "baddom"
FILLERS = ["u", "ü", "日", "𝄞"]
# `~` = filler character. Every template is INVALID for every filler (the non-ASCII ones are invalid DNS characters anyway;
# with the ASCII filler the template breaks a structural rule).
GUARD_TEMPLATES = [
    "~{sub.t", "{sub~.t", "{~", "~}", "}~.t", "~{", "{}~.t", "{*}~.t", "{~}{sub}.t", "{a}{~}.t", "~{a}{b}.t", "x~{a}.t" , "{a}~{b}.t",
    "t.{*~}", "a~.{*x}", "{*a}.{*~}", "~..t", ".~.t", "-~.t", "~-.t", "{1~}.t", "{a b~}.t", "~ t", "{a}.~/t", "{*a~", "a.{~*}.t",
]
ASCII_ONLY_INVALID = ["", ".", "a..t", "{", "}", "{}", "{*}", "a.{*x}", "{a}{b}.t", "x{a}.t", "-a.t", "a-.t", "a b.t", "{1a}.t",
                      "a" * 64 + ".t", ".".join(["a" * 60] * 5)]
VALID_GUARDS = ["a.t", "{s}.t", "{*s}.t", "A.t", "xn--a.t", "{s}a.t", "a.t."]
PREFIX_INVALID = ["p", "/p/", "", "//", "ü", "/ü/", "日/", "p/𝄞"]
PREFIX_VALID = ["/p", "/p/{q}", "/ü", "/p/日"]
ROUTE = {"k": "route", "c": "H0__0_0_0__I"}


def specs(tier):
    out = []
    seen = set()

    def add(kind, s, valid, two=False):
        i = len(out)
        key = (kind, s, two)
        if key in seen:
            return
        seen.add(key)
        nest = {"k": "nest", "bp": {"ops": [ROUTE]}}
        nest["domain" if kind == "domain" else "prefix"] = s
        ops = [nest]
        if two:
            ops = [{"k": "nest", "domain": "b.t", "bp": {"ops": [{"k": "route", "c": "H1__0_0_0__I"}]}}, nest]
        out.append({"id": f"baddom{i:04d}", "family": FAM, "bp": {"ops": ops}, "requests": [],
                    "baddom": {"kind": kind, "string": s, "valid": valid, "two": two}})

    for t in GUARD_TEMPLATES:
        for f in FILLERS:
            add("domain", t.replace("~", f), False)
            if tier != "quick" or f != "u":
                add("domain", t.replace("~", f), False, two=True)
    for g in ASCII_ONLY_INVALID:
        add("domain", g, False)
    for g in VALID_GUARDS:
        add("domain", g, True)
    for p in PREFIX_INVALID:
        add("prefix", p, False)
    for p in PREFIX_VALID:
        add("prefix", p, True)
    return out


def observe(tier):
    import lib_e2e as L
    sp = specs(tier)
    gen = L.generate_all(sp, f"{L.E2E_WORK}/{FAM}-{tier}")
    return {"specs": sp, "gen": gen, "build": {}, "run": {}, "scripts": {}, "built_specs": [], "singles_gen": gen, "packs_gen": {}}


def oracle_c09(obs, rep, tier):
    level, cov, asm = O.oracle_c09(obs, rep, tier)
    o = obs.get(FAM) or {}
    n_valid = n_invalid = 0
    for spec in o.get("specs", []):
        g = o["gen"].get(spec["id"])
        if g is None or g.get("timed_out") or g.get("panic"):
            continue
        b = spec["baddom"]
        if b["valid"]:
            n_valid += 1
        else:
            n_invalid += 1
    cov["baddom_valid_controls"] = n_valid
    cov["baddom_invalid_strings"] = n_invalid
    cov["rule"] = cov.get("rule", "") + " || BADDOM (fam_baddom.py): every error path of the domain-guard / path-prefix validation x {ASCII, " \
        "2-, 3-, 4-byte} filler characters before / inside / after the offending construct, through a whole blueprint"
    return level, cov, asm


PROPERTIES = {"C09": (lambda tier: [FAM], oracle_c09)}
