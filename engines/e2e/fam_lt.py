"""Family `lt` (C01, C02, C03, C04, C09): lifetime-parameterised and generic components.

The other families only inject plain owned types. Here (components: gen_app_extra_lt.py):

  LT-A  borrowed views. T0x (x: plain / Clone never-clone / Clone clone-if-necessary; request-scoped, singleton, transient)
        <- `V1x<'a>` built from `&'a T0x` [<- `V2x<'a>` built from `&'a V1x<'a>` or from `V1x<'a>` by value]; the handler takes
        the top view by value or by reference, plus one extra consumer of T0x (none / `&T0x` / `T0x` by value / `Archx`, a
        constructor that consumes T0x by value); optionally a pre / wrap / post middleware borrowing `&V1x<'_>`; views
        request-scoped or transient.
  LT-P  `Pair<'a, 'b>` built by a constructor that repeats ONE named lifetime (`Pair<'a, 'a>`) or uses two; handlers spell
        the type `Pair<'_, '_>` / `&Pair<'_, '_>` / `&Pair<'x, 'y>`.
  LT-G  generic constructors `WG<T>` (from `&T`) / `WGV<T>` (from `T`), request-scoped or transient, specialised for T0P/T0K,
        injected into every non-empty subset of {pre, wrap, post, handler, a second route}.

Oracles (dedicated; the reference interpreter of refmodel.py does not know generic types):
  C01  every accepted member compiles (oracles.oracle_c01).
  C02  members in the rule-abiding class (only `&` borrows, or the contended value is Clone + clone-if-necessary) are accepted.
  C03  per request: request-scoped values (T0x, views, WG<T>) are built at most once and every consumer sees the same
       instance (views are followed to the value they borrow through the construction events); singletons are never built
       at request time; transients are built once per injection site.
  C04  every T0x that is reached (directly or through a view) was built by the registered constructor; a clone only where
       the registration allows it.
  C09  verdict / no panic / atomicity on every compiler run (oracles.oracle_c09).
"""
import collections
import itertools

import families as F
import oracles as O
import refmodel as M

FAM = "lt"
FLAVS = {"P": ("P", None), "Kn": ("K", None), "Kc": ("K", "clone_if_necessary")}


def cases(tier):
    """-> [(ops, meta)] in canonical order."""
    out = []
    quick = tier == "quick"
    # ---- LT-A
    xs = ["P", "Kc"] if quick else ["P", "Kc", "Kn"]
    t0_lcs = ["request_scoped", "singleton"] if quick else ["request_scoped", "singleton", "transient"]
    chains = ["V1", "V2R", "V2V"]
    view_lcs = ["request_scoped"] if quick else ["request_scoped", "transient"]
    mws = [None, "pre", "wrap"] if quick else [None, "pre", "wrap", "post"]  # wrap: the view travels through a `Next` state struct
    # el: the view constructors written with elided lifetimes (C_V1E*, C_V2RE*, C_V2VE*); quick: only without a middleware
    for x, t0_lc, chain, view_lc, hmode, extra, mw, el in itertools.product(xs, t0_lcs, chains, view_lcs, ["V", "R"], ["0", "R", "V", "A"], mws, ["", "E"]):
        if el and quick and mw:
            continue
        fl, cl = FLAVS[x]
        ops = [F.ctor_op(0, fl, "0", "s", t0_lc, cl), {"k": "ctor", "c": f"C_V1{el}{fl}", "lc": view_lc}]
        if chain != "V1":
            ops.append({"k": "ctor", "c": f"C_{chain}{el}{fl}", "lc": view_lc})
        if extra == "A":
            ops.append({"k": "ctor", "c": f"C_ARCH{fl}", "lc": "request_scoped"})
        if mw:
            ops.append({"k": mw, "c": f"{mw.upper()}LT_{fl}_V1R"})
        top = "V1" if chain == "V1" else "V2"
        ops.append({"k": "route", "c": f"HLT_{fl}_{top}{hmode}_{extra}"})
        out.append((ops, {"kind": "A", "x": x, "fl": fl, "t0_lc": t0_lc, "chain": chain, "view_lc": view_lc, "hmode": hmode,
                          "extra": extra, "mw": mw, "elided": bool(el)}))
    # ---- LT-P
    for ctor, h, t0_lc in itertools.product(["C_PAIR_SAME", "C_PAIR_DIFF"], ["HLT_PAIR_V", "HLT_PAIR_R", "HLT_PAIR_NAMED"],
                                            ["request_scoped", "singleton"]):
        ops = [F.ctor_op(0, "P", "0", "s", t0_lc, None), F.ctor_op(1, "P", "0", "s", "request_scoped", None),
               {"k": "ctor", "c": ctor, "lc": "request_scoped"}, {"k": "route", "c": h}]
        out.append((ops, {"kind": "P", "ctor": ctor, "h": h, "t0_lc": t0_lc}))
    # ---- LT-G
    users_all = ["pre", "wrap", "post", "handler", "route2"]
    for g, x, g_lc, t0_lc in itertools.product(["WG", "WGV"], ["P", "Kc"], ["request_scoped", "transient"], ["request_scoped", "singleton"]):
        if quick and (g_lc == "transient" and t0_lc == "singleton"):
            continue
        fl, cl = FLAVS[x]
        for r in range(1, len(users_all) + 1):
            for users in itertools.combinations(users_all, r):
                if "handler" not in users and "route2" not in users:
                    continue
                if quick and len(users) > 3:
                    continue
                if g == "WGV" and t0_lc == "singleton" and x == "P":
                    continue  # moves a never-clone singleton: a planted violation, not this family's subject
                ops = [F.ctor_op(0, fl, "0", "s", t0_lc, cl), {"k": "ctor", "c": f"C_{g}", "lc": g_lc}]
                if "route2" in users:
                    ops.append({"k": "route", "c": f"H1LT_{g}_{fl}"})
                for k in ("pre", "wrap", "post"):
                    if k in users:
                        ops.append({"k": k, "c": f"{k.upper()}LT_{g}_{fl}"})
                ops.append({"k": "route", "c": f"HLT_{g}_{fl}" if "handler" in users else "H0__0_0_0__I"})
                out.append((ops, {"kind": "G", "g": g, "x": x, "fl": fl, "g_lc": g_lc, "t0_lc": t0_lc, "users": list(users)}))
    return out


def shapes(tier):
    return [ops for ops, _ in cases(tier)]


def in_class(meta):
    """The rule-abiding class (C02), deliberately narrow: nothing is both borrowed and moved unless it is Clone + clone-if-necessary."""
    if meta["kind"] == "P":
        return True
    if meta["kind"] == "G":
        if meta["g"] == "WG":
            return True  # only `&` borrows
        # WGV<T> takes T0 by value: one by-value site per specialisation site
        n_sites = len(meta["users"]) if meta["g_lc"] == "transient" else 1
        if meta["t0_lc"] == "singleton":
            return meta["x"] == "Kc"
        return n_sites == 1 or meta["x"] == "Kc"
    if meta["chain"] == "V2V" and (meta["mw"] or meta["view_lc"] == "transient"):
        return False  # V1 would be borrowed by the middleware and moved into V2
    if meta["chain"] == "V1" and meta["mw"] and meta["hmode"] == "V" and meta["view_lc"] != "transient":
        return False  # V1 (not Clone) would be borrowed by the middleware and moved into the handler: both borrowed and moved
    if meta["extra"] in ("V", "A"):
        if meta["t0_lc"] == "transient":
            return True  # each injection site gets its own instance
        return meta["x"] == "Kc"
    return True


def observe(tier):
    import orchestrator
    o = orchestrator.observe_packable_family(FAM, tier, shapes(tier))
    return o


def _units(o, tier):
    """Yield (shape index, meta, spec, gen, build, run, script) per MEMBER that was built and run."""
    cs = cases(tier)
    for spec, gen, build, run, script in O.iter_built_units(o):
        yield spec, gen, build, run, script, cs


def oracle_c02(obs, rep, tier):
    o = obs.get(FAM) or {}
    cs = cases(tier)
    n = n_in = 0
    hist = collections.Counter()
    if "shapes" in o:
        for i, sh in enumerate(o["shapes"]):
            spec = F.single_spec(FAM, i, sh)
            gen = o["singles_gen"][spec["id"]]
            meta = cs[i][1] if i < len(cs) and cs[i][0] == sh else None
            if meta is None:
                continue
            n += 1
            cls = in_class(meta)
            hist[f"{'in-class' if cls else 'outside'}:{'accepted' if gen['exit'] == 0 else 'rejected'}"] += 1
            if cls:
                n_in += 1
                if gen["exit"] != 0 or gen["n_error"] > 0:
                    title = O.first_error_title(gen["stderr"])
                    rep.violation(f"{FAM}:reject:{meta['kind']}:{title[:90]}",
                                  f"blueprint {spec['id']} [{O.compact_ops(sh)}] is inside the rule-abiding class but pavexc rejected it: {title}",
                                  {"oracle": "C02", "spec": spec, "meta": meta, "stderr": O.ANSI.sub('', gen["stderr"])[:3000]})
    else:  # replay of one spec
        for spec in o.get("specs", []):
            gen = o["gen"][spec["id"]]
            n += 1
            if gen["exit"] != 0:
                rep.violation(f"{FAM}:reject:replay", f"{spec['id']} rejected: {O.first_error_title(gen['stderr'])}", {"oracle": "C02", "spec": spec})
    cov = {"evaluations": n, "distinct_nontrivial": n_in, "exhaustive": True, "in_class": n_in, "verdict_histogram": dict(hist),
           "rule": "lt family (fam_lt.py: views V1<'a>/V2<'a> over T0, Pair<'a,'b>, generic WG<T>/WGV<T>; every combination of flavour, "
                   "lifecycles, chain, handler mode, extra consumer, middleware): members in which nothing is both borrowed and moved "
                   "unless Clone + clone-if-necessary must be accepted"}
    return "exploration", cov, ["the class predicate (fam_lt.in_class) is narrower than the compiler's acceptance"]


def _meta_of(o, cs, spec, req):
    if spec.get("pack"):
        idx = O.member_of_request(spec, req["path"])
    else:
        idx = spec["members"][0] if spec.get("members") else None
    if idx is None or idx >= len(cs):
        return None, None
    return idx, cs[idx][1]


def eval_values(obs, rep, tier, prop):
    o = obs.get(FAM) or {}
    cs = cases(tier)
    n_req = 0
    hist = collections.Counter()
    distinct = set()
    samples = []
    for spec, gen, build, run, script in O.iter_built_units(o):
        if not build or not build["build_ok"] or run is None:
            continue
        st = run.get("startup")
        if not st or not st.get("ok"):
            rep.violation(f"{FAM}:startup-failure", f"server of {spec['id']} did not start: {str(st)[:300]}",
                          {"oracle": prop, "spec": spec, "startup": st})
            continue
        startup = M.parse_trace(st.get("trace", []))
        startup_new = collections.Counter(ev["type"] for ev in startup if ev["e"] == "new")
        for req, resp in zip(script, run["responses"]):
            idx, meta = _meta_of(o, cs, spec, req)
            if meta is None:
                continue
            n_req += 1
            events = M.parse_trace(resp.get("trace", []))
            news = collections.defaultdict(list)
            for ev in events:
                if ev["e"] == "new":
                    news[ev["type"]].append(ev)
            tags = collections.defaultdict(list)  # type -> [(consumer, tag)]
            for ev in events:
                if ev["e"] in ("new", "call"):
                    consumer = ev["by"] if ev["e"] == "new" else ev["cid"]
                    for t in ev["ins"]:
                        tags[t["type"]].append((consumer, t))
            problems = []
            fl = meta.get("fl", "P")
            t0 = f"T0{fl}"
            t0_ctor = f"C_T0{fl}__0__S"
            t0_lc = meta["t0_lc"]
            cin = meta.get("x") == "Kc"
            distinct.add((meta["kind"], t0_lc, meta.get("chain") or meta.get("g") or meta.get("ctor"), meta.get("extra"),
                          tuple(meta.get("users", []))))
            hist[f"{meta['kind']}:{t0_lc}"] += 1
            # ---- T0: lifecycle + provenance
            t0_tags = tags.get(t0, [])
            for consumer, t in t0_tags:
                if t["by"] != t0_ctor:
                    problems.append(("C04", "provenance:wrong-constructor", f"{consumer} reached a {t0} built by {t['by']}, registered: {t0_ctor}"))
                if t["cloned"] and not cin:
                    problems.append(("C04", "provenance:clone-of-never-clone", f"{consumer} reached a clone of never-clone {t0}"))
            roots = {t["root"] for _, t in t0_tags}
            if t0_lc == "request_scoped":
                if len(news[t0]) > 1:
                    problems.append(("C03", "lifecycle:request_scoped:constructed-twice", f"{t0} constructed {len(news[t0])} times in one request"))
                if len(roots) > 1:
                    problems.append(("C03", "lifecycle:request_scoped:instances-not-shared", f"{t0}: consumers reached instances {sorted(roots)}"))
            elif t0_lc == "singleton":
                if news[t0]:
                    problems.append(("C03", "lifecycle:singleton:constructed-at-request-time", f"singleton {t0} constructed while serving a request"))
                if startup_new[t0] > 1:
                    problems.append(("C03", "lifecycle:singleton:constructed-twice", f"singleton {t0} constructed {startup_new[t0]} times at startup"))
                if len(roots) > 1:
                    problems.append(("C03", "lifecycle:singleton:instances-not-shared", f"{t0}: consumers reached instances {sorted(roots)}"))
            else:  # transient: direct injection sites are the constructors/handlers that take T0 itself
                direct = [(c, t) for c, t in t0_tags if c.startswith(("C_V1", "C_ARCH", "C_WG", "C_PAIR")) or
                          (c.startswith("HLT") and meta.get("extra") in ("R", "V"))]
                ids = [t["id"] for c, t in direct if not t["cloned"] and c.startswith("C_")]
                if len(ids) != len(set(ids)):
                    problems.append(("C03", "lifecycle:transient:instance-shared", f"two constructors received the same transient {t0} instance"))
            # ---- views / generic wrappers: built once per request when request-scoped, per site when transient
            if meta["kind"] == "A":
                vlc = meta["view_lc"]
                for vt in (f"V1{fl}", f"V2{fl}"):
                    if vlc == "request_scoped" and len(news[vt]) > 1:
                        problems.append(("C03", f"lifecycle:request_scoped:view-constructed-twice", f"{vt} constructed {len(news[vt])} times in one request"))
                    ids = {t["id"] for _, t in tags.get(vt, [])}
                    if vlc == "request_scoped" and len(ids) > 1:
                        problems.append(("C03", "lifecycle:request_scoped:view-not-shared", f"{vt}: consumers saw instances {sorted(ids)}"))
            elif meta["kind"] == "G":
                gt = meta["g"]
                ids = [t["id"] for c, t in tags.get(gt, [])]
                if meta["g_lc"] == "request_scoped":
                    if len(news[gt]) > 1:
                        problems.append(("C03", "lifecycle:request_scoped:generic-constructed-twice",
                                         f"request-scoped {gt}<{t0}> constructed {len(news[gt])} times in one request (users {meta['users']})"))
                    if len(set(ids)) > 1:
                        problems.append(("C03", "lifecycle:request_scoped:generic-not-shared",
                                         f"{gt}<{t0}>: consumers saw instances {sorted(set(ids))} (users {meta['users']})"))
                else:
                    if len(ids) != len(set(ids)):
                        problems.append(("C03", "lifecycle:transient:generic-instance-shared", f"two consumers received the same transient {gt}<{t0}>"))
                    if len(news[gt]) != len(set(ids)):
                        problems.append(("C03", "lifecycle:transient:generic-count", f"{len(news[gt])} {gt} built, {len(set(ids))} consumed"))
            elif meta["kind"] == "P":
                for _, t in tags.get("Pair", []):
                    if t["by"] != meta["ctor"]:
                        problems.append(("C04", "provenance:wrong-constructor:pair", f"Pair built by {t['by']}, registered {meta['ctor']}"))
                if len(news["Pair"]) > 1:
                    problems.append(("C03", "lifecycle:request_scoped:pair-constructed-twice", f"Pair constructed {len(news['Pair'])} times"))
            # the handler did run
            if resp.get("status") != 200:
                problems.append(("C03", "request-failed", f"status {resp.get('status')}"))
            if len(samples) < 2 and tags:
                samples.append({"spec": spec["id"], "member": idx, "request": req, "trace": resp.get("trace")})
            for p, key, what in problems:
                if p != prop:
                    continue
                rep.violation(f"{FAM}:{key}:{meta['kind']}", f"{spec['id']} member {idx} [{O.compact_ops(cs[idx][0])}] {req['path']}: {what}",
                              {"oracle": prop, "spec": spec, "member": idx, "meta": meta, "request": req, "trace": resp.get("trace"),
                               "startup_trace": st.get("trace")})
    cov = {"evaluations": n_req, "distinct_nontrivial": len(distinct), "exhaustive": True, "samples": samples, "histogram": dict(hist),
           "rule": "lt family: for every accepted member, two requests per route: construction events link every view / generic wrapper to "
                   "the T0 it was built from; request-scoped values once per request and shared, singletons never at request time, "
                   "transients once per site; every T0 reached was built by the registered constructor, clones only for clone-if-necessary"}
    return "exploration", cov, ["views carry the tag of the value they borrow; generic wrappers carry the tag of the value they were built from"]


def oracle_c03(obs, rep, tier):
    return eval_values(obs, rep, tier, "C03")


def oracle_c04(obs, rep, tier):
    return eval_values(obs, rep, tier, "C04")


PROPERTIES = {
    "C01": (lambda tier: [FAM], O.oracle_c01),
    "C02": (lambda tier: [FAM], oracle_c02),
    "C03": (lambda tier: [FAM], oracle_c03),
    "C04": (lambda tier: [FAM], oracle_c04),
    "C09": (lambda tier: [FAM], O.oracle_c09),
}
