#!/usr/bin/env python3
"""e2e engine entry point: orchestrator.py <Cxx> --tier quick|thorough [--replay <file>]

Bounded-exhaustive enumeration of blueprints pushed through the real pavexc, rustc and the generated
server; oracles from refmodel.py. Observations are shared between the e2e properties and cached
under /verif/work/obs/<tree-hash>/ (DESIGN.md §2.3).
"""
import json
import os
import re
import shutil
import sys
import time

sys.path.insert(0, os.path.dirname(os.path.abspath(__file__)))
import families as F  # noqa: E402
import lib_e2e as L  # noqa: E402
import oracles as O  # noqa: E402
import refmodel as M  # noqa: E402
from report import Reporter  # noqa: E402

PACK_SIZE = 10


def spec_script(spec):
    if "requests" in spec:  # families with their own request alphabet (e.g. ROUTE)
        return spec["requests"]
    an = M.Analysis(spec)
    return M.request_script(an)


def observe_specs(specs, d, with_run=True, batch_size=150):
    """pavexc -> rustc -> runner for a list of specs. Returns dict of per-spec observations."""
    gen = L.generate_all(specs, d)
    ok = [s for s in specs if gen[s["id"]]["exit"] == 0 and "lib_sha" in gen[s["id"]]]
    build, run = {}, {}
    scripts = {}
    if ok:
        build, runners = L.build_batches(ok, f"{d}/gen", f"{d}/batch", batch_size=batch_size)
        if with_run:
            for bd, ids, binp in runners:
                script = {}
                for s in ok:
                    if s["id"] in ids:
                        scripts[s["id"]] = spec_script(s)
                        script[s["id"]] = [{"method": r["method"], "path": r["path"], "host": r.get("host"),
                                            "plan": r["plan"]} for r in scripts[s["id"]]]
                res = L.run_runner(binp, script)
                crash = res.pop("__runner_exit__", None)
                for sid in ids:
                    run[sid] = res.get(sid, {"startup": None, "responses": []})
                    if crash and (run[sid]["startup"] is None or len(run[sid]["responses"]) < len(script.get(sid, []))):
                        run[sid]["runner_crash"] = crash
    return {"gen": gen, "build": build, "run": run, "scripts": scripts}


def observe_packable_family(fam, tier, shapes):
    d = f"{L.E2E_WORK}/{fam}-{tier}"
    shutil.rmtree(d, ignore_errors=True)
    singles = [F.single_spec(fam, i, sh) for i, sh in enumerate(shapes)]
    gen1 = L.generate_all(singles, f"{d}/singles")
    accepted = [i for i, s in enumerate(singles) if gen1[s["id"]]["exit"] == 0]
    packable = [i for i in accepted if not F.has_singleton(shapes[i])]
    solo = [i for i in accepted if F.has_singleton(shapes[i])]
    packs = F.pack_specs(fam, [(i, shapes[i]) for i in packable], PACK_SIZE)
    gen2 = L.generate_all(packs, f"{d}/packs") if packs else {}
    rejected_packs = [p for p in packs if gen2[p["id"]]["exit"] != 0]
    for p in rejected_packs:
        solo.extend(p["members"])
    good_packs = [p for p in packs if gen2[p["id"]]["exit"] == 0]
    # one gen dir for the build stage
    allgen = f"{d}/gen"
    os.makedirs(allgen, exist_ok=True)
    to_build = []
    for p in good_packs:
        shutil.copytree(f"{d}/packs/gen/{p['id']}", f"{allgen}/{p['id']}")
        to_build.append(p)
    for i in sorted(solo):
        s = singles[i]
        shutil.copytree(f"{d}/singles/gen/{s['id']}", f"{allgen}/{s['id']}")
        to_build.append(s)
    build, run, scripts = {}, {}, {}
    if to_build:
        build, runners = L.build_batches(to_build, allgen, f"{d}/batch", batch_size=60)
        # a pack that does not compile is re-built member by member, so that the rustc verdict is
        # attributed to the individual shapes (their single blueprints were accepted too)
        failed_packs = [p for p in good_packs if not build[p["id"]]["build_ok"]]
        if failed_packs:
            retry = []
            for p in failed_packs:
                for i in p["members"]:
                    sp = singles[i]
                    shutil.copytree(f"{d}/singles/gen/{sp['id']}", f"{allgen}/{sp['id']}")
                    retry.append(sp)
            build2, runners2 = L.build_batches(retry, allgen, f"{d}/batch-retry", batch_size=60)
            build.update(build2)
            runners.extend(runners2)
            to_build.extend(retry)
        by_id = {s["id"]: s for s in to_build}
        for bd, ids, binp in runners:
            script = {}
            for sid in ids:
                scripts[sid] = spec_script(by_id[sid])
                script[sid] = [{"method": r["method"], "path": r["path"], "host": r.get("host"), "plan": r["plan"]}
                               for r in scripts[sid]]
            res = L.run_runner(binp, script)
            crash = res.pop("__runner_exit__", None)
            for sid in ids:
                run[sid] = res.get(sid, {"startup": None, "responses": []})
                if crash and (run[sid]["startup"] is None or len(run[sid]["responses"]) < len(script[sid])):
                    run[sid]["runner_crash"] = crash
    return {"family": fam, "tier": tier, "shapes": shapes, "singles_gen": gen1, "packs": packs, "packs_gen": gen2,
            "built_specs": to_build, "build": build, "run": run, "scripts": scripts}


FAMILY_SHAPES = {"di": F.di_shapes, "dimw": F.dimw_shapes, "mw": F.mw_shapes, "err": F.err_shapes, "mix": F.mix_shapes}


def load_family(fam, tier, th, force=False):
    p = f"{L.OBS_ROOT}/{th}/{fam}-{tier}.json"
    if os.path.exists(p) and not force and not os.environ.get("VERIF_NO_CACHE"):
        with open(p) as f:
            o = json.load(f)
        o["observations_reused"] = True
        return o
    t0 = time.time()
    if fam in FAMILY_SHAPES:
        o = observe_packable_family(fam, tier, FAMILY_SHAPES[fam](tier))
    else:
        o = O.observe_special_family(fam, tier)
    o["observe_wall_s"] = round(time.time() - t0, 1)
    os.makedirs(os.path.dirname(p), exist_ok=True)
    with open(p + ".tmp", "w") as f:
        json.dump(o, f)
    os.replace(p + ".tmp", p)
    o["observations_reused"] = False
    return o


def main():
    argv = sys.argv[1:]
    prop = argv[0]
    tier = "quick"
    if "--tier" in argv:
        tier = argv[argv.index("--tier") + 1]
    seed = int(os.environ.get("VERIF_SEED", "0") or 0)
    rep = Reporter(prop, tier, seed)
    try:
        L.ensure_built()
        L.warm_cache()
        if "--replay" in argv:
            sys.exit(O.replay(prop, argv[argv.index("--replay") + 1], rep))
        th = L.tree_hash()
        fams = O.FAMILIES_OF[prop](tier)
        obs = {fam: load_family(fam, tier, th) for fam in fams}
        level, coverage, assumptions = O.ORACLES[prop](obs, rep, tier)
        coverage["tree_hash"] = th
        coverage["observations_reused"] = {f: o.get("observations_reused") for f, o in obs.items()}
        coverage["observe_wall_s"] = {f: o.get("observe_wall_s") for f, o in obs.items()}
        sys.exit(rep.finish(level, coverage, assumptions))
    except L.MachineryError as e:
        L.machinery(str(e))
    except SystemExit:
        raise
    except BaseException as e:  # a crash of the harness is never a verdict
        import traceback
        traceback.print_exc()
        L.machinery(f"harness exception: {type(e).__name__}: {e}")


if __name__ == "__main__":
    main()
