//! Generic runner: for each SDK linked into this binary (see glue.rs), start its server on
//! loopback, replay the request script (each request with its fault plan), and stream the recorded
//! traces and responses as JSON lines on stdout.
use futures_util::FutureExt;
use serde_json::{Value, json};
use std::panic::AssertUnwindSafe;
use tokio::io::{AsyncReadExt, AsyncWriteExt};

mod glue;

async fn send(addr: std::net::SocketAddr, method: &str, path: &str, host: Option<&str>) -> Result<(u16, Vec<(String, String)>, String), String> {
    let mut s = tokio::net::TcpStream::connect(addr).await.map_err(|e| format!("connect: {e}"))?;
    let host_line = match host {
        Some(h) => format!("Host: {h}\r\n"),
        None => "Host: localhost\r\n".to_string(),
    };
    let req = format!("{method} {path} HTTP/1.1\r\n{host_line}Connection: close\r\nContent-Length: 0\r\n\r\n");
    s.write_all(req.as_bytes()).await.map_err(|e| format!("write: {e}"))?;
    let mut buf = Vec::new();
    s.read_to_end(&mut buf).await.map_err(|e| format!("read: {e}"))?;
    let text = String::from_utf8_lossy(&buf).to_string();
    let (head, body) = match text.split_once("\r\n\r\n") {
        Some(x) => x,
        None => return Err(format!("incomplete response: {text:?}")),
    };
    let mut lines = head.split("\r\n");
    let status_line = lines.next().unwrap_or("");
    let status: u16 = status_line.split(' ').nth(1).and_then(|c| c.parse().ok()).ok_or_else(|| format!("bad status line {status_line:?}"))?;
    let mut headers = Vec::new();
    let mut chunked = false;
    for l in lines {
        if let Some((k, v)) = l.split_once(':') {
            let k = k.trim().to_ascii_lowercase();
            let v = v.trim().to_string();
            if k == "transfer-encoding" && v.contains("chunked") {
                chunked = true;
            }
            headers.push((k, v));
        }
    }
    let body = if chunked { dechunk(body) } else { body.to_string() };
    Ok((status, headers, body))
}

fn dechunk(mut b: &str) -> String {
    let mut out = String::new();
    loop {
        let Some((len, rest)) = b.split_once("\r\n") else { break };
        let Ok(n) = usize::from_str_radix(len.trim(), 16) else { break };
        if n == 0 || rest.len() < n {
            break;
        }
        out.push_str(&rest[..n]);
        b = rest[n..].trim_start_matches("\r\n");
    }
    out
}

fn panic_msg(p: Box<dyn std::any::Any + Send>) -> String {
    if let Some(s) = p.downcast_ref::<&str>() {
        s.to_string()
    } else if let Some(s) = p.downcast_ref::<String>() {
        s.clone()
    } else {
        "<non-string panic>".into()
    }
}

fn main() {
    let script_path = std::env::args().nth(1).expect("usage: runner <script.json>");
    let script: Value = serde_json::from_str(&std::fs::read_to_string(script_path).unwrap()).unwrap();
    // keep panics of worker threads quiet but visible
    std::panic::set_hook(Box::new(|info| {
        eprintln!("[runner] panic: {info}");
    }));
    let rt = tokio::runtime::Builder::new_current_thread().enable_all().build().unwrap();
    rt.block_on(async move {
        for (id, starter) in glue::TABLE {
            let Some(reqs) = script.get(*id).and_then(|r| r.as_array()) else { continue };
            verif_app::rt::take();
            verif_app::rt::set_plan(&[]);
            let started = AssertUnwindSafe(starter(())).catch_unwind().await;
            let startup_trace = verif_app::rt::take();
            let (handle, addr) = match started {
                Ok(Ok(x)) => x,
                Ok(Err(e)) => {
                    println!("{}", json!({"id": id, "what": "startup", "ok": false, "error": e, "trace": startup_trace}));
                    continue;
                }
                Err(p) => {
                    println!("{}", json!({"id": id, "what": "startup", "ok": false, "panic": panic_msg(p), "trace": startup_trace}));
                    continue;
                }
            };
            // `run` builds the router synchronously; give the acceptor a moment, then record.
            println!("{}", json!({"id": id, "what": "startup", "ok": true, "trace": startup_trace}));
            for (i, req) in reqs.iter().enumerate() {
                let plan: Vec<String> = req["plan"].as_array().map(|a| a.iter().filter_map(|x| x.as_str().map(String::from)).collect()).unwrap_or_default();
                verif_app::rt::set_plan(&plan);
                let method = req["method"].as_str().unwrap_or("GET");
                let path = req["path"].as_str().unwrap_or("/");
                let host = req.get("host").and_then(|h| h.as_str());
                let res = tokio::time::timeout(std::time::Duration::from_secs(10), send(addr, method, path, host)).await;
                let trace = verif_app::rt::take();
                let rec = match res {
                    Ok(Ok((status, headers, body))) => {
                        let allow: Vec<&String> = headers.iter().filter(|(k, _)| k == "allow").map(|(_, v)| v).collect();
                        json!({"id": id, "what": "response", "i": i, "status": status, "allow": allow, "body": body, "trace": trace})
                    }
                    Ok(Err(e)) => json!({"id": id, "what": "response", "i": i, "status": 0, "error": e, "trace": trace}),
                    Err(_) => json!({"id": id, "what": "response", "i": i, "status": 0, "error": "timeout", "trace": trace}),
                };
                println!("{rec}");
            }
            verif_app::rt::set_plan(&[]);
            let _ = tokio::time::timeout(std::time::Duration::from_secs(5), handle.shutdown(pavex::server::ShutdownMode::Forced)).await;
        }
    });
}
