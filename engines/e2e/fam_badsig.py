"""BADSIG family (property C09; thorough also C01): blueprints that the rule-abiding families and the
14 documented rule violations of PLANT never produce.

Enumerated space
  (A) INVALID-SIGNATURE components. The alphabet is the list of `badsig` components of gen_app_extra_badsig.py: for
      every component kind {constructor, request handler, pre-processing, post-processing, wrapping middleware, error
      handler, error observer, fallback, prebuilt type} every signature fault that still compiles as Rust under the
      pavex attribute macros (unit / Ok(()) / `!` / non-IntoResponse / impl Trait / naked generic outputs, Result from an
      error handler, error by value / by &mut / missing, observer returning a value, pre returning Response, post
      without / with two Response inputs, wrap without / with two `Next`, `&mut` inputs, unconstrained generics,
      framework types, references, fn pointers, dyn, slices, arrays, raw pointers, associated types, const generics,
      type aliases and re-exports as prebuilt types, ... ; sync and async).
      Each fault x each applicable registration position
          root        registered (and used, when the kind has consumers) in the root blueprint
          nested      the same inside a blueprint nested one level under /n
          eh          error-handler faults attached with `.error_handler()` to a fallible component of the matching
                      error type; every other fault gets a *valid* error handler attached to it
          unused      registered where nothing uses it (no consumer / after the only route)
          twice       registered twice in a row
      in an otherwise valid minimal blueprint (a fallible route with its error handler), plus all PAIRS of faults on
      that base. quick: every fault at `root`, the faults named in the task (`core`) at one further position each
      (rotating), pairs over one core fault per kind. thorough: the full product, pairs over all core faults.
  (B) OWNERSHIP STALEMATES for the borrow-checker fixpoints. A *cell* is the 4-type graph
          A   B          A, B: root constructors, policy P (plain, never clone) / K (Clone + clone-if-necessary) / Y (Copy)
          | X |          C <- (A, B), D <- (A, B): every edge absent / by value / by reference
          C   D          handler(C, D [, A] [, B]) (direct uses of A / B give triangles)
      one cell over T0..T3, two cells over T0..T3 + T4..T7 in one handler(C, D, C2, D2) (<= 8 types, <= 2 cells).
      quick: one cell, edges {v,r}^4 x policies {PP, KK} + the stalemate edges (C: A by value, B by ref; D: A by ref,
      B by value, and its mirror image) x {PK, KP, YY, YP, PY} and with direct uses of A; two cells, both stalemates,
      policies KK+KK, PP+PP, KK+PP. thorough: one cell, edges {0,v,r}^4 x direct uses {none, A by ref, A by value, B by ref, B by value} x
      policies {P,K}^2, and edges {v,r}^4 x direct uses x the 5 policy pairs that involve Y; two cells, edges {v,r}^4 x {v,r}^4
      (unordered pairs) x policies {P,K}^4 (ordered). In thorough the accepted members that contain a stalemate cell are compiled
      (packs of 10 sibling nested blueprints) and run, and so is every accepted single-fault member of (A) (its own crate,
      start-up only): property C01 (accepted => compiles), keys `badsig:accepted-but-does-not-compile:<fault>` plus the keys of
      oracles.oracle_c01 for (B).
Oracle  C09 exactly (oracles.oracle_c09 on these pavexc observations): terminates (first pass 20 s with 8 compilers in
        parallel; a run that hits the limit is re-run alone with 60 s before it counts), exit status 0 or 1, >= 1 ERROR
        diagnostic iff 1, no panic banner, failing runs leave the SDK on disk and the workspace manifest untouched.
        A panic / unclean outcome is executed a second time before it is reported (a different second outcome is a
        machinery error). Keys: `badsig:panic:<file>:<line>`, `badsig:hang:<shape class>`, ...; the first (smallest)
        blueprint that reaches a key is the one written to the replay file.
        Hang economy: the members are run class representatives first; the remaining members of a class whose
        representative hangs (confirmed alone) are not executed (counted in `skipped_same_class_as_confirmed_hang`,
        `exhaustive` is then false).
Record only (never a violation here): `accepted_despite_documented_rule` = members of (A) at a position where the faulty
        component is used, whose fault the guide (docs/guide/**, quotes in DOC) declares invalid, and that pavexc
        accepted (exit 0): a C08-style observation, outside the text of C09.
"""
import collections
import itertools
import json
import re
import shutil

import families as F
import lib_e2e as L
import refmodel as M

FAMILY = "badsig"
FIRST_PASS_TIMEOUT_S = 20  # lib_e2e re-runs a timed-out member alone with 3x this = 60 s
PACK_SIZE = 10

DOC = {
    "ctor_output": "dependency_injection/constructors.md: 'Constructors must return, as output, the type you want to make injectable.'",
    "ctor_no_mut": "dependency_injection/constructors.md: 'Constructors are not allowed to take mutable references (i.e. `&mut T`) as inputs.'",
    "ctor_naked_generic": "dependency_injection/generics.md: '`naked_output` is a universal constructor: it can build any type. It will therefore "
                          "reject the constructor with an error message at compile-time.'",
    "ctor_generics_output_driven": "dependency_injection/generics.md: 'Pavex will reject, at compile-time, any component with generic parameters that "
                                   "are not output-driven.'",
    "no_generics": "dependency_injection/generics.md: 'As a general rule, Pavex components aren't allowed to have generic type parameters.'",
    "framework_primitives": "dependency_injection/framework_primitives.md: 'You lose this flexibility with framework primitives: you can't customize "
                            "how they are constructed.'",
    "into_response": "routing/index.md: 'Routes must return, as output, a type that implements the `IntoResponse` trait.'",
    "pre_output": "middleware/pre_processing.md: 'The return type of a pre-processing middleware must be one of the following: `Processing` [...] "
                  "`Result<Processing, E>`'",
    "post_output": "middleware/post_processing.md: 'Their return type must be one of the following: A type that implements the `IntoResponse` trait, "
                   "or `Result<T, E>`, where `T` implements `IntoResponse`'",
    "post_response_input": "middleware/post_processing.md: '`Response` must be one of their input parameters.'",
    "wrap_output": "middleware/wrapping.md: 'Their return type must be one of the following: A type that implements the `IntoResponse` trait, or "
                   "`Result<T, E>`, where `T` implements `IntoResponse`.'",
    "wrap_next_input": "middleware/wrapping.md: '`Next` must be one of their input parameters.'",
    "eh_error_ref": "errors/error_handlers.md: '1. One input parameter is a reference (`&`) to the error type.'",
    "eh_into_response": "errors/error_handlers.md: '2. The return type implements the `IntoResponse` trait.'",
    "eh_infallible": "errors/error_handlers.md: '3. The return type isn't a `Result`.'",
    "obs_error_input": "errors/error_observers.md: '1. One input parameter is a `&pavex::Error`.'",
    "obs_no_output": "errors/error_observers.md: '2. They don't return a value.'",
    "obs_infallible": "errors/error_observers.md: 'error observers can't be fallible—they can't return a `Result`.'",
}

OPK = {"ctor": "ctor", "handler": "route", "pre": "pre", "post": "post", "wrap": "wrap", "eh": "eh", "obs": "observer",
       "fallback": "fallback", "prebuilt": "prebuilt"}
VALID_EH = {"ErrC": "EH_ERRC_1__0", "ErrH": "EH_ERRH_1__0", "ErrPre": "EH_ERRPRE_1__0", "ErrPost": "EH_ERRPOST_1__0", "ErrW": "EH_ERRW_1__0"}
KIND_ORDER = ["ctor", "handler", "pre", "post", "wrap", "eh", "obs", "fallback", "prebuilt"]


# ----------------------------------------------------------------------------------------------------------------
# part A: specs
# ----------------------------------------------------------------------------------------------------------------
def faults():
    out = [c for c in M.load_catalog().values() if "badsig" in c]
    out.sort(key=lambda c: (KIND_ORDER.index(c["badsig"]["kind"]), c["id"]))
    return out


def ctor_op(cid):
    return {"k": "ctor", "c": cid, "lc": "request_scoped"}


def op_of(f):
    op = {"k": OPK[f["badsig"]["kind"]], "c": f["id"]}
    if op["k"] == "ctor":
        op["lc"] = "request_scoped"
    return op


def hv():
    """The valid rest of the blueprint: a fallible route with its error handler."""
    return {"k": "route", "c": "H0__0_0_0__F", "eh": "EH_ERRH_1__0"}


def needs_ops(*fs):
    ids = []
    for f in fs:
        for n in f["badsig"]["needs"]:
            if n not in ids:
                ids.append(n)
    return [ctor_op(n) for n in ids]


def consumer_ops(f):
    c = f["badsig"].get("consumer")
    return [{"k": "route", "c": c}] if c else []


def is_route_like(f):
    return f["badsig"]["kind"] in ("handler", "fallback")


def body_with(f, op, with_consumer=True, inner=False):
    """needs + op + the valid route (+ consumer): the fault is registered where it is used."""
    valid = {"k": "route", "c": "H1__0_0_0__I"} if inner else hv()
    kind = f["badsig"]["kind"]
    if kind == "eh":
        # a blueprint-level error handler: the fallible component of that error type has no handler of its own
        if f.get("err") == "ErrC":
            return needs_ops(f) + [op, {"k": "ctor", "c": "C_T0K__0__F", "lc": "request_scoped"}, {"k": "route", "c": "H2__KR_0_0__I"}]
        return needs_ops(f) + [op, {"k": "route", "c": "H2__0_0_0__F"}]
    if is_route_like(f):
        return needs_ops(f) + [valid, op]
    return needs_ops(f) + [op, valid] + (consumer_ops(f) if with_consumer else [])


def positions_of(f):
    """{position: ops} for one fault."""
    kind = f["badsig"]["kind"]
    op = op_of(f)
    out = {"root": body_with(f, op)}
    out["nested"] = [hv(), {"k": "nest", "prefix": "/n", "bp": {"ops": body_with(f, op, inner=True)}}]
    # eh
    if kind == "eh":
        err = f.get("err")
        if err == "ErrC":
            out["eh"] = needs_ops(f) + [{"k": "ctor", "c": "C_T0K__0__F", "lc": "request_scoped", "eh": f["id"]}, {"k": "route", "c": "H0__KR_0_0__I"}]
        else:
            out["eh"] = needs_ops(f) + [{"k": "route", "c": "H0__0_0_0__F", "eh": f["id"]}]
    elif kind in ("ctor", "handler", "pre", "post", "wrap", "fallback"):
        op2 = dict(op)
        op2["eh"] = VALID_EH.get(f.get("err"), "EH_PAVEXERROR_1__0")
        out["eh"] = body_with(f, op2)
    # unused
    if kind in ("ctor", "prebuilt"):
        if f["badsig"].get("consumer"):
            out["unused"] = body_with(f, op, with_consumer=False)
    elif kind in ("pre", "post", "wrap", "obs", "eh"):
        out["unused"] = needs_ops(f) + [hv(), op]
    # twice
    b = body_with(f, op)
    k = b.index(op)
    out["twice"] = b[:k] + [dict(op)] + b[k:]
    return out


def pair_ops(f, g):
    ops = needs_ops(f, g)
    ops += [op_of(x) for x in (f, g) if not is_route_like(x)]
    ops.append(hv())
    ops += [op_of(x) for x in (f, g) if is_route_like(x)]
    return ops


def a_specs(tier):
    fs = faults()
    specs = []
    core = [f for f in fs if f["badsig"]["core"]]
    k = 0
    for f in fs:
        pos = positions_of(f)
        names = list(pos)
        if tier == "quick":
            chosen = ["root"]
            if f["badsig"]["core"]:
                others = [n for n in names if n != "root"]
                chosen.append(others[k % len(others)])
                k += 1
        else:
            chosen = names
        for n in chosen:
            specs.append({"id": f"bsA_{f['id'][3:].lower()}__{n}", "family": FAMILY, "bp": {"ops": pos[n]}, "requests": [],
                          "badsig": {"part": "A", "faults": [f["id"]], "pos": n}})
    if tier == "quick":
        reps, seen = [], set()
        for f in core:
            if f["badsig"]["kind"] not in seen:
                seen.add(f["badsig"]["kind"])
                reps.append(f)
    else:
        reps = core
    for f, g in itertools.combinations(reps, 2):
        specs.append({"id": f"bsA_pair_{f['id'][3:].lower()}__{g['id'][3:].lower()}", "family": FAMILY, "bp": {"ops": pair_ops(f, g)}, "requests": [],
                      "badsig": {"part": "A", "faults": [f["id"], g["id"]], "pos": "pair"}})
    return specs


# ----------------------------------------------------------------------------------------------------------------
# part B: shapes
# ----------------------------------------------------------------------------------------------------------------
CELL_TYPES = [("T0", "T1", "T2P", "T3P"), ("T4", "T5", "T6P", "T7P")]
X_EDGES = [("v", "r", "r", "v"), ("r", "v", "v", "r")]  # (C<-A, C<-B, D<-A, D<-B): the stalemate and its mirror image


def code(pol, mode):
    return "0" if mode == "0" else (pol + mode).upper()


def cell_ops(ci, edges, pols):
    """Constructors of one cell. edges = (C<-A, C<-B, D<-A, D<-B) in {0,v,r}; pols = (policy of A, of B) in {P,K,Y}."""
    ta, tb, tc, td = CELL_TYPES[ci]
    ops = []
    for t, p in ((ta, pols[0]), (tb, pols[1])):
        op = ctor_op(f"C_{t}{p}__0__S")
        if p == "K":
            op["cl"] = "clone_if_necessary"
        ops.append(op)
    ops.append(ctor_op(f"C_{tc}__{code(pols[0], edges[0])}_{code(pols[1], edges[1])}__S"))
    ops.append(ctor_op(f"C_{td}__{code(pols[0], edges[2])}_{code(pols[1], edges[3])}__S"))
    return ops


def one_cell(edges, pols, direct=("0", "0"), cd=("v", "v")):
    h = f"HT__{code(pols[0], direct[0])}_{code(pols[1], direct[1])}_{code('P', cd[0])}_{code('P', cd[1])}__I"
    return cell_ops(0, edges, pols) + [{"k": "route", "c": h}]


def two_cells(e1, p1, e2, p2):
    return cell_ops(0, e1, p1) + cell_ops(1, e2, p2) + [{"k": "route", "c": "HB__PV_PV_PV_PV__I"}]


def b_shapes(tier):
    shapes = []
    vr = list(itertools.product("vr", repeat=4))
    if tier == "quick":
        for e in vr:
            for p in ("PP", "KK"):
                shapes.append(one_cell(e, p))
        for e in X_EDGES:
            for p in ("PK", "KP", "YY", "YP", "PY"):
                shapes.append(one_cell(e, p))
            for d in ("r", "v"):
                for p in ("PP", "KK"):
                    shapes.append(one_cell(e, p, direct=(d, "0")))
        # two cells, both stalemates: solvable + solvable, unsolvable + unsolvable, and ONE mixed member (on a compiler whose
        # fixpoint does not terminate on it, every such member costs 20 s + 60 s; the other mixes are in thorough)
        e = X_EDGES[0]
        for p1, p2 in (("KK", "KK"), ("PP", "PP"), ("KK", "PP")):
            shapes.append(two_cells(e, p1, e, p2))
    else:
        pk = ["".join(p) for p in itertools.product("PK", repeat=2)]
        directs = [("0", "0"), ("r", "0"), ("v", "0"), ("0", "r"), ("0", "v")]
        for e in itertools.product("0vr", repeat=4):
            for d in directs:
                for p in pk:
                    shapes.append(one_cell(e, p, direct=d))
        for e in vr:
            for d in directs:
                for p in ("YY", "YP", "PY", "YK", "KY"):
                    shapes.append(one_cell(e, p, direct=d))
        for e1, e2 in itertools.combinations_with_replacement(vr, 2):  # up to the order of the two cells
            for p1 in pk:
                for p2 in pk:
                    shapes.append(two_cells(e1, p1, e2, p2))
    # canonical order: simplest first
    shapes.sort(key=lambda s: (len(s), json.dumps(s, sort_keys=True)))
    return shapes


CTOR_RE = re.compile(r"C_T(\d)([PKY])__(.+)__S$")


def cells_of(ops):
    """Recover the cells from the registration ops (so that a replayed spec gets the same class)."""
    pol, ins = {}, {}
    direct = set()
    for op in ops:
        if op["k"] == "ctor":
            m = CTOR_RE.match(op["c"])
            if not m:
                continue
            n = int(m.group(1))
            if n in (0, 1, 4, 5):
                pol[n] = m.group(2) if m.group(2) != "K" or op.get("cl") == "clone_if_necessary" else "k"
            else:
                ins[n] = [("0" if c == "0" else c[1].lower()) for c in m.group(3).split("_")]
        elif op["k"] == "route" and op["c"].startswith("HT__"):
            a, b = op["c"][4:].split("_")[:2]
            if a != "0":
                direct.add(0)
            if b != "0":
                direct.add(1)
    cells = []
    for a, b, c, d in ((0, 1, 2, 3), (4, 5, 6, 7)):
        if c in ins and d in ins and a in pol and b in pol:
            cells.append({"edges": tuple(ins[c] + ins[d]), "pols": pol[a] + pol[b], "direct": bool(direct) and a == 0})
    return cells


def cell_class(cell):
    e, p = cell["edges"], cell["pols"]
    if e in X_EDGES:
        if "Y" in p:
            c = "X:copy"
        elif "K" in p:
            c = "X:cloneable"
        else:
            c = "X:stuck"
    elif (e[0] == "v" and e[2] == "v") or (e[1] == "v" and e[3] == "v"):
        c = "two-consumers:" + ("cloneable" if "K" in p else "copy" if "Y" in p else "stuck")
    else:
        c = "free"
    return c + ("+direct-use" if cell["direct"] else "")


def shape_class(spec):
    ops = spec["bp"]["ops"]
    bad = sorted({op["c"] for _, op in walk(ops) if op.get("c", "").startswith("BS_") and not op["c"].startswith("BS_H_USE_")}
                 | {op["eh"] for _, op in walk(ops) if op.get("eh", "").startswith("BS_")})
    if bad:
        cat = M.load_catalog()
        return "sig[" + "+".join(f"{cat[b]['badsig']['kind']}:{cat[b]['badsig']['fault']}" for b in bad) + "]"
    cells = cells_of(ops)
    if cells:
        return "cells[" + "+".join(sorted(cell_class(c) for c in cells)) + "]"
    return "other"


def walk(ops, depth=0):
    for op in ops:
        yield depth, op
        if op["k"] == "nest":
            yield from walk(op["bp"]["ops"], depth + 1)


def n_ops(spec):
    return sum(1 for _ in walk(spec["bp"]["ops"]))


# ----------------------------------------------------------------------------------------------------------------
# observation
# ----------------------------------------------------------------------------------------------------------------
def outcome_of(g):
    if g.get("timed_out"):
        return "hang"
    if g.get("panic"):
        return "panic"
    if g["exit"] == 0:
        return "accepted" if g["n_error"] == 0 else "accepted_with_error"
    if g["exit"] == 1 and g["n_error"] >= 1 and not g["sdk_changed_files"] and not g.get("root_manifest_changed"):
        return "rejected"
    return "rejected_uncleanly"


def generate(specs, d):
    """L.generate_all with this family's time limit (20 s in parallel, 60 s alone)."""
    base = L.PAVEXC_TIMEOUT_S
    L.PAVEXC_TIMEOUT_S = FIRST_PASS_TIMEOUT_S
    try:
        res = L.generate_all(specs, d)
    finally:
        L.PAVEXC_TIMEOUT_S = base
    for g in res.values():
        g.pop("stdout", None)
    return res


def confirmed_hang(g):
    return bool(g.get("timed_out") and g.get("retried_after_timeout"))


def stage_class(spec):
    """Finer than the key class: members are only skipped when the representative of exactly their class hangs."""
    cells = cells_of(spec["bp"]["ops"])
    if cells and not any(op.get("c", "").startswith("BS_") for _, op in walk(spec["bp"]["ops"])):
        return "cells[" + "+".join(sorted(f"{cell_class(c)}({c['pols']})" for c in cells)) + "]"
    return shape_class(spec)


def settle_timeouts(specs, gen, cls, d, stats):
    """lib_e2e re-runs alone only the first 8 members of a call that hit the time limit. Here: one member per class
    that timed out without having been re-run alone is executed again (<= 8 per call, so each gets its run alone) until
    every class with a timeout has a confirmed hang or no pending member."""
    for rnd in range(8):
        pending = [s for s in specs if s["id"] in gen and gen[s["id"]]["timed_out"] and not gen[s["id"]].get("retried_after_timeout")]
        hung = {cls[s["id"]] for s in specs if s["id"] in gen and confirmed_hang(gen[s["id"]])}
        pick, seen = [], set()
        for s in pending:
            c = cls[s["id"]]
            if c in hung or c in seen:
                continue
            seen.add(c)
            pick.append(s)
        if not pick:
            break
        res = generate(pick[:8], f"{d}/confirm{rnd}")
        stats["confirmation_runs"] += len(res)
        gen.update(res)
    return {cls[s["id"]] for s in specs if s["id"] in gen and confirmed_hang(gen[s["id"]])}


def staged_generate(specs, d):
    """Class representatives first; members of a class whose representative hangs (confirmed alone) are skipped.
    -> (gen {id: obs}, skipped {id: class}, stats)"""
    cls = {s["id"]: stage_class(s) for s in specs}
    reps, seen = [], set()
    for s in specs:
        if cls[s["id"]] not in seen:
            seen.add(cls[s["id"]])
            reps.append(s)
    stats = collections.Counter()
    gen = generate(reps, f"{d}/stage1")
    hung = settle_timeouts(reps, gen, cls, d + "/s1", stats)
    rest = [s for s in specs if s["id"] not in gen]
    skipped = {s["id"]: cls[s["id"]] for s in rest if cls[s["id"]] in hung}
    todo = [s for s in rest if s["id"] not in skipped]
    if todo:
        gen.update(generate(todo, f"{d}/stage2"))
        hung |= settle_timeouts(todo, gen, cls, d + "/s2", stats)
    stats["classes"] = len(seen)
    stats["classes_with_confirmed_hang"] = len(hung)
    return gen, skipped, dict(stats)


def gen_dir_of(d, sid):
    import glob
    hits = sorted(glob.glob(f"{d}/**/gen/{sid}", recursive=True))
    if not hits:
        raise L.MachineryError(f"no generated SDK kept for {sid}")
    return hits[-1]


def build_and_run(to_build, src_of, d, singles_of_pack=None):
    """rustc verdict per accepted spec (+ start-up and the request script). -> (built_specs, build, run, scripts)"""
    import os
    import orchestrator
    allgen = f"{d}/gen"
    shutil.rmtree(allgen, ignore_errors=True)
    os.makedirs(allgen, exist_ok=True)
    to_build = list(to_build)
    for s in to_build:
        shutil.copytree(src_of(s), f"{allgen}/{s['id']}")
    build, runners = L.build_batches(to_build, allgen, f"{d}/batch", batch_size=60)
    failed = [p for p in to_build if p.get("pack") and not build[p["id"]]["build_ok"]]
    if failed and singles_of_pack:  # attribute the rustc verdict to the members
        retry = [s for p in failed for s in singles_of_pack(p)]
        for s in retry:
            shutil.copytree(src_of(s), f"{allgen}/{s['id']}")
        build2, runners2 = L.build_batches(retry, allgen, f"{d}/batch-retry", batch_size=60)
        build.update(build2)
        runners.extend(runners2)
        to_build.extend(retry)
    by_id = {s["id"]: s for s in to_build}
    run, scripts = {}, {}
    for bd, ids, binp in runners:
        script = {}
        for sid in ids:
            scripts[sid] = orchestrator.spec_script(by_id[sid])
            script[sid] = [{"method": r["method"], "path": r["path"], "host": r.get("host"), "plan": r["plan"]} for r in scripts[sid]]
        res = L.run_runner(binp, script)
        crash = res.pop("__runner_exit__", None)
        for sid in ids:
            run[sid] = res.get(sid, {"startup": None, "responses": []})
            if crash and (run[sid]["startup"] is None or len(run[sid]["responses"]) < len(script[sid])):
                run[sid]["runner_crash"] = crash
    return to_build, build, run, scripts


def observe(tier):
    d = f"{L.E2E_WORK}/{FAMILY}-{tier}"
    shutil.rmtree(d, ignore_errors=True)
    # ---- (A)
    aspecs = sorted(a_specs(tier), key=lambda s: (n_ops(s), s["id"]))
    agen, askipped, astats = staged_generate(aspecs, f"{d}/a")
    a = {"specs": aspecs, "gen": agen, "skipped": askipped, "stats": astats, "built_specs": [], "build": {}, "run": {}, "scripts": {}}
    # ---- (B)
    shapes = b_shapes(tier)
    singles = [F.single_spec(FAMILY, i, sh) for i, sh in enumerate(shapes)]
    bgen, bskipped, bstats = staged_generate(singles, f"{d}/b")
    b = {"family": FAMILY, "tier": tier, "shapes": shapes, "singles_gen": bgen, "skipped": bskipped, "stats": bstats,
         "packs": [], "packs_gen": {}, "built_specs": [], "build": {}, "run": {}, "scripts": {}}
    if tier == "thorough":
        # (A) accepted single-fault members: does the SDK compile and start? (no requests)
        # (members with a prebuilt *re-export* are left out: the runner's glue cannot name `alloc::string::String`)
        acc = [s for s in aspecs if s["id"] in agen and agen[s["id"]]["exit"] == 0 and "lib_sha" in agen[s["id"]]
               and s["badsig"]["pos"] != "pair" and not any(f.startswith("BS_PB_REEXPORT") for f in s["badsig"]["faults"])]
        if acc:
            try:
                built, build, run, scripts = build_and_run(acc, lambda s: gen_dir_of(f"{d}/a", s["id"]), f"{d}/a/build")
                a.update({"built_specs": built, "build": build, "run": run, "scripts": scripts})
            except L.MachineryError as e:  # C09 does not need the build stage; C01 refuses to judge without it
                a["build_stage_error"] = str(e)
        # (B) accepted members with a stalemate cell, in packs of sibling nested blueprints
        chosen = [i for i, s in enumerate(singles) if s["id"] in bgen and bgen[s["id"]]["exit"] == 0
                  and any(c["edges"] in X_EDGES for c in cells_of(shapes[i]))]
        packs = F.pack_specs(FAMILY, [(i, shapes[i]) for i in chosen], PACK_SIZE)
        if packs:
            pgen = generate(packs, f"{d}/b/packs")
            good = [p for p in packs if pgen[p["id"]]["exit"] == 0 and "lib_sha" in pgen[p["id"]]]
            solo = [singles[i] for p in packs if p not in good for i in p["members"]]
            b.update({"packs": packs, "packs_gen": pgen})
            b["stats"]["stalemate_members_compiled"] = len(chosen)
            try:
                built, build, run, scripts = build_and_run(good + solo, lambda s: gen_dir_of(f"{d}/b", s["id"]), f"{d}/b/build",
                                                           singles_of_pack=lambda p: [singles[i] for i in p["members"]])
                b.update({"built_specs": built, "build": build, "run": run, "scripts": scripts})
            except L.MachineryError as e:
                b["build_stage_error"] = str(e)
    return {"family": FAMILY, "tier": tier, "a": a, "b": b}


# ----------------------------------------------------------------------------------------------------------------
# oracles
# ----------------------------------------------------------------------------------------------------------------
class KeyProxy:
    """Reporter front: gives a hang its shape class and every case its compact blueprint."""

    def __init__(self, rep):
        self.rep = rep
        self.keys = []

    def violation(self, key, what, case):
        import oracles as O
        spec = case.get("spec") or {}
        if key == f"{FAMILY}:hang":
            key = f"{FAMILY}:hang:{shape_class(spec)}"
        case = dict(case)
        case["blueprint"] = O.compact_spec(spec) if spec else None
        case["shape_class"] = shape_class(spec) if spec else None
        self.keys.append(key)
        self.rep.violation(key, f"{what} [blueprint {case['blueprint']}]", case)

    def __getattr__(self, name):
        return getattr(self.rep, name)


_SECOND = {}


def settle(specs, gen, what):
    """BUILDER_BRIEF determinism rule: a panic / unclean outcome is executed once more before it is reported.
    (A hang has already been executed twice: in the parallel pass and alone.)"""
    sus = [s for s in specs if s["id"] in gen and outcome_of(gen[s["id"]]) in ("panic", "rejected_uncleanly", "accepted_with_error")]
    todo = [s for s in sus if s["id"] not in _SECOND]
    if todo:
        _SECOND.update(generate(todo, f"{L.E2E_WORK}/{FAMILY}-recheck-{what}"))
    replaced = 0
    gen = dict(gen)
    for s in sus:
        a, b2 = outcome_of(gen[s["id"]]), outcome_of(_SECOND[s["id"]])
        if a == b2:
            continue
        if a == "rejected_uncleanly":  # an interfered-with slot workspace: the second run is the observation
            gen[s["id"]] = _SECOND[s["id"]]
            replaced += 1
            continue
        raise L.MachineryError(f"nondeterministic pavexc outcome on {s['id']}: first run {a}, second run {b2}")
    return gen, len(sus), replaced


def unconfirmed_timeouts(gen):
    return [sid for sid, g in gen.items() if g.get("timed_out") and not g.get("retried_after_timeout")]


def oracle_c09_badsig(obs, rep, tier):
    import oracles as O
    if FAMILY not in obs:
        return "exploration", {"evaluations": 0, "distinct_nontrivial": 0, "exhaustive": True, "rule": "(badsig: not observed)", "samples": []}, []
    o = obs[FAMILY]
    if "a" in o:
        aspecs, agen = o["a"]["specs"], o["a"]["gen"]
        bspecs = [F.single_spec(FAMILY, i, sh) for i, sh in enumerate(o["b"]["shapes"])]
        bgen = dict(o["b"]["singles_gen"])
        packs = o["b"].get("packs", [])
        bgen.update(o["b"].get("packs_gen", {}))
        skipped = dict(o["a"].get("skipped", {}))
        skipped.update(o["b"].get("skipped", {}))
        stage_stats = {"a": o["a"].get("stats"), "b": o["b"].get("stats")}
    else:  # --replay: one spec, layout of oracles.replay
        aspecs, agen, bspecs, bgen, packs, skipped, stage_stats = o["specs"], o["gen"], [], {}, [], {}, {}
    units = [s for s in aspecs if s["id"] in agen] + [s for s in bspecs if s["id"] in bgen] + [p for p in packs if p["id"] in bgen]
    gen = dict(agen)
    gen.update(bgen)
    # a timed-out member that was never re-run alone is not evidence of a hang: it is left out and counted
    unconfirmed = set(unconfirmed_timeouts(gen))
    units = [s for s in units if s["id"] not in unconfirmed]
    units.sort(key=lambda s: (n_ops(s), s["id"]))  # the smallest blueprint reaching a key is the one reported
    gen, n_sus, n_replaced = settle(units, gen, "c09")
    proxy = KeyProxy(rep)
    base = L.PAVEXC_TIMEOUT_S
    L.PAVEXC_TIMEOUT_S = FIRST_PASS_TIMEOUT_S
    try:
        lvl, cov, asm = O.oracle_c09({FAMILY: {"specs": units, "gen": gen}}, proxy, tier)
    finally:
        L.PAVEXC_TIMEOUT_S = base
    # ---- counters
    hist = collections.Counter()
    by_kind_pos = collections.Counter()
    by_class = collections.Counter()
    sites = collections.Counter()
    documented_accepted = []
    cat = M.load_catalog()
    for s in units:
        g = gen[s["id"]]
        out = outcome_of(g)
        hist[out] += 1
        meta = s.get("badsig")
        if meta and meta.get("part") == "A":
            kinds = "+".join(cat[f]["badsig"]["kind"] for f in meta["faults"])
            by_kind_pos[f"{kinds}@{meta['pos']}:{out}"] += 1
            if out == "accepted" and meta["pos"] in ("root", "nested", "twice"):
                for f in meta["faults"]:
                    dk = cat[f]["badsig"].get("doc")
                    if dk:
                        documented_accepted.append({"component": f, "kind": cat[f]["badsig"]["kind"], "fault": cat[f]["badsig"]["fault"],
                                                    "position": meta["pos"], "documented": DOC[dk]})
        elif not s.get("pack"):
            by_class[f"{shape_class(s)}:{out}"] += 1
        if out == "panic":
            m = re.search(r"in (compiler/[^\s,]+), line (\d+)", g["stderr"])
            sites[f"{m.group(1)}:{m.group(2)}" if m else "unknown"] += 1
    cov["rule"] = ("BADSIG: (A) every signature fault of gen_app_extra_badsig.py (component kinds ctor/handler/pre/post/wrap/error handler/"
                   "observer/fallback/prebuilt) x registration positions {root, nested, eh, unused, twice} (quick: root + one rotating position "
                   "for the core faults) + pairs of faults (quick: one core fault per kind; thorough: all core faults) on a valid minimal base; "
                   "(B) ownership stalemates: 1 cell (T0..T3) / 2 cells (T0..T7) of A,B -> C,D with every edge absent/by value/by reference, "
                   "policies P / K+clone-if-necessary / Y and direct uses of A, B by the handler (bounds per tier in the module docstring). "
                   "Oracle = " + cov["rule"].replace(str(sorted([FAMILY])), "BADSIG") +
                   f"; time limit {FIRST_PASS_TIMEOUT_S}s with {L.NSLOTS} compilers in parallel, {3 * FIRST_PASS_TIMEOUT_S}s alone")
    n_skipped = len(skipped)
    cov["exhaustive"] = bool(cov.get("exhaustive")) and n_skipped == 0 and not unconfirmed
    cov["outcome_histogram"] = dict(hist)
    cov["part_a_kind_position_outcome"] = dict(sorted(by_kind_pos.items()))
    cov["part_b_class_outcome"] = dict(sorted(by_class.items()))
    cov["panic_sites"] = dict(sites)
    cov["members_enumerated"] = len(aspecs) + len(bspecs)
    cov["skipped_same_class_as_confirmed_hang"] = n_skipped
    cov["skipped_classes"] = sorted(set(skipped.values()))
    cov["timeouts_not_confirmed_alone_left_out"] = len(unconfirmed)
    cov["re_executed_before_reporting"] = n_sus
    cov["replaced_by_second_run"] = n_replaced
    cov["stages"] = stage_stats
    cov["accepted_despite_documented_rule"] = documented_accepted
    cov["keys_reported"] = sorted(set(proxy.keys))
    return lvl, cov, asm + ["a component whose signature the guide declares invalid and that pavexc accepts is recorded "
                            "(accepted_despite_documented_rule), not judged: C09 only demands a verdict"]


def b_view(o):
    b = dict(o["b"])
    b["family"] = FAMILY
    return b


def oracle_c01_badsig(obs, rep, tier):
    """(thorough only) accepted => compiles: part B through oracles.oracle_c01 (packable layout), the accepted
    single-fault members of part A here (one key per fault, not per blueprint)."""
    import oracles as O
    if FAMILY not in obs:
        return "exploration", {"evaluations": 0, "distinct_nontrivial": 0, "exhaustive": True, "rule": "(badsig: nothing compiled)", "samples": []}, []
    o = obs[FAMILY]
    if "a" in o:
        for part in ("a", "b"):
            if o[part].get("build_stage_error"):
                raise L.MachineryError(f"badsig part {part.upper()}: build stage failed: {o[part]['build_stage_error']}")
        lvl, cov, asm = O.oracle_c01({FAMILY: b_view(o)}, rep, tier)
        a = o["a"]
    else:  # --replay (layout of oracles.replay): a part-A member is judged below, a part-B member by oracles.oracle_c01
        is_a = lambda s: (s.get("badsig") or {}).get("part") == "A"
        bo = dict(o)
        bo["built_specs"] = [s for s in o.get("built_specs", []) if not is_a(s)]
        lvl, cov, asm = O.oracle_c01({FAMILY: bo}, rep, tier)
        a = {"built_specs": [s for s in o.get("built_specs", []) if is_a(s)], "build": o.get("build", {}), "gen": o.get("gen", {}),
             "run": o.get("run", {})}
    hist = collections.Counter()
    shas = set()
    for s in a.get("built_specs", []):
        bld = a["build"].get(s["id"])
        if bld is None:
            continue
        g = a["gen"][s["id"]]
        shas.add(g.get("lib_sha"))
        cls = shape_class(s)
        if not bld["build_ok"]:
            hist["does_not_compile"] += 1
            err = bld["build_errors"][0] if bld["build_errors"] else ""
            rep.violation(f"{FAMILY}:accepted-but-does-not-compile:{cls}",
                          f"pavexc accepted blueprint {s['id']} [{O.compact_spec(s)}] but the generated crate does not compile: {err[:300]}",
                          {"oracle": "C01", "spec": s, "rustc": bld["build_errors"][:2], "shape_class": cls})
            continue
        st = (a["run"].get(s["id"]) or {}).get("startup")
        hist["compiles_and_starts" if st and st.get("ok") else "compiles_but_startup_failed"] += 1
    cov["evaluations"] += sum(hist.values())
    cov["distinct_nontrivial"] += len(shas)
    cov["rule"] += (" || BADSIG part A: every single-fault member that pavexc accepted is compiled too (its own crate); key = one per "
                    "signature fault")
    cov["badsig_part_a"] = dict(hist)
    return lvl, cov, asm


def oracle_c02_badsig(obs, rep, tier):
    """C02 on part B: a cell whose two source values are BOTH Copy or Clone + clone-if-necessary is rule-abiding whatever the
    edges are (by value / by reference, crosswise stalemates included, with or without direct uses by the handler): every
    ownership demand can be met by a clone or a copy. Such a member must be accepted without an error diagnostic."""
    import oracles as O
    fo = obs.get(FAMILY) or {}
    o = fo.get("b") or {}
    n = n_in = 0
    hist = collections.Counter()
    samples = []
    units = [(F.single_spec(FAMILY, i, sh), sh) for i, sh in enumerate(o.get("shapes", []))]
    gens = o.get("singles_gen") or {}
    if "b" not in fo and "specs" in fo:  # --replay of one spec (oracles.replay layout)
        units = [(sp, sp["bp"]["ops"]) for sp in fo["specs"] if "badsig" not in sp]
        gens = fo.get("gen") or {}
    for spec, sh in units:
        gen = gens.get(spec["id"])
        if gen is None or gen.get("timed_out") or gen.get("panic"):
            continue  # C09's subject
        n += 1
        srcs = [op for op in sh if op["k"] == "ctor" and CTOR_RE.match(op["c"]) and CTOR_RE.match(op["c"]).group(3) == "0"]
        ok = bool(srcs) and all(CTOR_RE.match(op["c"]).group(2) == "Y" or (CTOR_RE.match(op["c"]).group(2) == "K" and op.get("cl") == "clone_if_necessary")
                                for op in srcs)
        hist[f"{'in-class' if ok else 'outside'}:{'accepted' if gen['exit'] == 0 else 'rejected'}"] += 1
        if not ok:
            continue
        n_in += 1
        if gen["exit"] != 0 or gen["n_error"] > 0:
            title = O.first_error_title(gen["stderr"])
            rep.violation(f"{FAMILY}:rejected-all-values-clonable:{shape_class(spec)}",
                          f"every source value of {spec['id']} [{O.compact_ops(sh)}] is Copy or clone-if-necessary, but pavexc rejected it: {title}",
                          {"oracle": "C02", "spec": spec, "stderr": O.ANSI.sub("", gen["stderr"])[-2500:]})
        elif len(samples) < 2:
            samples.append({"spec": O.sample_spec(spec)})
    cov = {"evaluations": n_in, "distinct_nontrivial": n_in, "exhaustive": True, "samples": samples, "outcome_histogram": dict(hist),
           "rule": "BADSIG part B (ownership cells A,B -> C,D, every edge by value / by reference, crosswise stalemates, direct uses): members "
                   "whose source values are all Copy or Clone + clone-if-necessary must be accepted"}
    return "exploration", cov, []


PROPERTIES = {
    "C02": (lambda tier: [FAMILY], oracle_c02_badsig),
    "C09": (lambda tier: [FAMILY], oracle_c09_badsig),
    # the family is listed for both tiers (oracles.replay always evaluates with tier "quick"); only thorough compiles anything
    "C01": (lambda tier: [FAMILY], oracle_c01_badsig),
}
