"""End-to-end half of C19 ("what you register is what the compiler sees"): the nesting information of a blueprint
(path prefixes, domain guards, which blueprint a route / fallback belongs to) as the COMPILER uses it. The in-process
half (rt_bp) stops at the serialized blueprint; what pavexc makes of it is only visible in the generated server.

Observations and reference router are fam_route's (shared with C07, cached by tree hash); only violations of tables whose
structure nests blueprints are reported here (flat tables carry no nesting information and belong to C07).

`./check C19` runs the in-process engine first and, if that holds, this half; the evidence of the in-process run is
embedded under coverage.in_process_half."""
import json
import os

import fam_route


class _NestedOnly:
    def __init__(self, rep):
        self._rep = rep
        self.dropped = 0

    def __getattr__(self, name):
        return getattr(self._rep, name)

    def violation(self, key, what, case):
        # a route that is not served where it was registered (handler keys) or a fallback that runs for another blueprint
        # than the one it was registered on; the recorded C07 finding about the BARE prefix of a nested fallback is a routing
        # question (which requests a prefix covers), not a loss of registered information, and stays with C07
        relevant = key.startswith(("route:handler-not-invoked", "route:wrong-handler", "route:unexpected-handler", "route:wrong-fallback",
                                   "route:startup-panic"))
        if relevant and "structure=" in what and "structure=flat" not in what:
            if isinstance(case, dict):
                case = dict(case)
                case["oracle"] = "C19"
            self._rep.violation("e2e:" + key, what, case)
        else:
            self.dropped += 1


def oracle_c19_e2e(obs, rep, tier):
    proxy = _NestedOnly(rep)
    level, cov, assumptions = fam_route.oracle_c07(obs, proxy, tier)
    cov = dict(cov)
    cov["rule"] = ("END-TO-END HALF (what the compiler makes of the registered nesting: generated server probed with requests): "
                   + cov.get("rule", "") + " — only tables that nest blueprints are judged here; flat tables belong to C07")
    cov["violations_of_flat_tables_left_to_C07"] = proxy.dropped
    prev = os.environ.get("VERIF_C19_INPROCESS_EVIDENCE")
    if prev and os.path.exists(prev):
        with open(prev) as f:
            ip = json.load(f)
        cov["in_process_half"] = {"wall_s": ip.get("wall_s"), "violations": ip.get("violations"), "coverage": ip.get("coverage")}
        c = ip.get("coverage", {})
        cov["evaluations"] = cov.get("evaluations", 0) + int(c.get("evaluations", 0))
        cov["distinct_nontrivial"] = cov.get("distinct_nontrivial", 0) + int(c.get("distinct_nontrivial", 0))
    return level, cov, assumptions + ["the in-process half covers the builder -> serialized blueprint -> schema channel and the attribute parser"]


PROPERTIES = {"C19": (lambda tier: [fam_route.FAMILY], oracle_c19_e2e)}
