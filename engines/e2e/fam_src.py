"""Family `src` (C01, C02, C03, C04, C08, C09): values that do not come from a constructor.

Every other family builds its values with constructors. A Pavex application also receives values from two other sources,
both "treated as singletons": PREBUILT types (arguments of the generated `ApplicationState::new`) and CONFIGURATION types
(fields of the generated `ApplicationConfig`, which the application deserialises). They have their own defaults (prebuilt:
never clone; configuration: clone if necessary; annotation flags `clone_if_necessary` / `never_clone` / `default_if_missing`;
registration-level overrides; `include_if_unused`), their own code generation (`ApplicationState::new`'s parameter list, the
`ApplicationConfig` struct with `#[serde(default)]`, `&app_config.field` vs `app_config.field`), and their own pruning pass.

Enumerated (exhaustively inside the bound): source type X in gen_app_extra_src.SRC_TYPES x registration-level cloning override
{none, clone_if_necessary, never_clone} x every set of at most K consumers drawn from the seven consumer slots
{handler /r0 (&, value, &mut), handler /r1, pre, wrap, post, singleton constructor (+ route /r2 borrowing its output),
request-scoped constructor (+ route /r3)} each taking X by `&` or by value; K = 2 quick (types SPK and SCK under their default policy; 1 otherwise) / 3 thorough; for the
single-consumer members additionally: everything but the source registered in a nested blueprint (prefix /n); for the
configuration type SCU: the registration flags default_if_missing x include_if_unused with zero or one consumer.

Reference verdict (DESIGN App. A.5 + the guide's pages on prebuilt types / configuration entries):
  effective cloning policy = registration override > annotation flag > default of the kind;
  must_reject  : clone-if-necessary on a type that is not Clone; any `&mut` consumer (a `&mut` injection of a singleton);
                 a request-time by-value consumer of a never-clone value;
  must_accept  : only `&` consumers; clone-if-necessary with any mix of `&` / by-value consumers; a never-clone value moved into
                 exactly one singleton constructor and used by nothing else;
  unspecified  : a never-clone value moved into a singleton constructor and also used elsewhere.
Run-time oracle on accepted, compiled members (two rounds of GET on every route): exactly one `new X` event in the whole process,
before the first request, built by the expected path (PB_X handed to `new`, CF_X deserialised, CF_X_DEF defaulted because the
generated field carries `#[serde(default)]`); every consumer of every request sees that root; clones only under clone-if-
necessary; the derived singleton is built once at start-up, the derived request-scoped value once per request that needs it;
every route answers 200 with its own handler and the middlewares run once, in order. An unused configuration type is a field of
`ApplicationConfig` iff `include_if_unused` (observed through the `new` event of its deserialisation / default).
"""
import collections
import itertools

import gen_app_extra_src as G
import oracles as O
import refmodel as M

FAM = "src"
SLOTS = ["h0", "h1", "pre", "wrap", "post", "sds", "sdr"]
REQUEST_TIME = {"h0", "h1", "pre", "wrap", "post", "sdr"}
KIND = {n: k for n, k, *_ in G.SRC_TYPES}
ANN = {n: ("clone_if_necessary" if "clone_if_necessary" in e else "never_clone" if "never_clone" in e else None) for n, _, e, *_ in G.SRC_TYPES}
IS_CLONE = {n: c for n, _, _, c, _ in G.SRC_TYPES}
ANN_DEFAULT = {n: "default_if_missing" in e for n, _, e, *_ in G.SRC_TYPES}


def effective_policy(x, cl):
    if cl:
        return cl
    if ANN[x]:
        return ANN[x]
    return "never_clone" if KIND[x] == "prebuilt" else "clone_if_necessary"


def verdict(x, cl, cons):
    pol = effective_policy(x, cl)
    if pol == "clone_if_necessary" and not IS_CLONE[x]:
        return "must_reject", "clone_if_necessary_on_non_clone"
    if any(m == "m" for m in cons.values()):
        return "must_reject", "mut_ref_to_singleton"
    if pol == "never_clone":
        if any(m == "v" for s, m in cons.items() if s in REQUEST_TIME):
            return "must_reject", "singleton_by_value_at_request_time"
        if cons.get("sds") == "v":
            return ("must_accept", "moved_into_one_singleton") if len(cons) == 1 else ("unspecified", "moved_at_build_time_and_used_elsewhere")
    return "must_accept", "borrow_only" if all(m == "r" for m in cons.values()) else "clone_if_necessary"


def build_spec(x, cl, cons, nested=False, flags=None):
    cid = G.comp_id(x)
    src = {"k": KIND[x], "c": cid}
    if cl:
        src["cl"] = cl
    for f in (flags or {}):
        src[f] = True
    body = []
    routes = []
    if "sds" in cons:
        body.append({"k": "ctor", "c": f"C_SDS_{x}_{cons['sds'].upper()}", "lc": "singleton"})
        routes.append(("HS2_SDS_R", "/r2"))
    if "sdr" in cons:
        body.append({"k": "ctor", "c": f"C_SDR_{x}_{cons['sdr'].upper()}", "lc": "request_scoped"})
        routes.append(("HS3_SDR_R", "/r3"))
    for s, pre in (("pre", "PRES"), ("wrap", "WRAPS"), ("post", "POSTS")):
        if s in cons:
            body.append({"k": s, "c": f"{pre}_{x}_{cons[s].upper()}"})
    if "h0" in cons:
        routes.insert(0, (f"HS0_{x}_{cons['h0'].upper()}", "/r0"))
    if "h1" in cons:
        routes.insert(1 if "h0" in cons else 0, (f"HS1_{x}_{cons['h1'].upper()}", "/r1"))
    routes.append(("HS9_PLAIN", "/r9"))
    body += [{"k": "route", "c": h} for h, _ in routes]
    prefix = "/n" if nested else ""
    ops = [src, {"k": "nest", "prefix": "/n", "bp": {"ops": body}}] if nested else [src] + body
    name = f"src_{x}_{(cl or 'dflt')[:5]}_" + ("-".join(f"{s}{m}" for s, m in cons.items()) or "none") + ("_nest" if nested else "") \
        + "".join("_" + f[:3] for f in (flags or {}))
    reqs = []
    for rnd in (0, 1):
        for h, p in routes:
            reqs.append({"method": "GET", "path": prefix + p, "plan": [], "handler": h, "round": rnd})
    v, why = verdict(x, cl, cons)
    return {"id": name, "family": FAM, "bp": {"ops": ops}, "requests": reqs,
            "src": {"x": x, "cl": cl, "cons": cons, "nested": nested, "flags": sorted(flags or {}), "verdict": v, "why": why}}


def consumer_sets(k):
    out = [{}]
    for r in range(1, k + 1):
        for slots in itertools.combinations(SLOTS, r):
            modes = [["r", "v", "m"] if s == "h0" else ["r", "v"] for s in slots]
            for combo in itertools.product(*modes):
                out.append(dict(zip(slots, combo)))
    return out


def specs(tier):
    k = 2 if tier == "quick" else 3
    out = []
    seen = set()

    def add(s):
        if s["id"] not in seen:
            seen.add(s["id"])
            out.append(s)

    for x, kind, *_ in G.SRC_TYPES:
        for cl in (None, "clone_if_necessary", "never_clone"):
            if tier == "quick" and cl is not None and cl == effective_policy(x, None):
                continue  # quick: the override that restates the default is left to the thorough tier
            kx = k if tier != "quick" or (x in ("SPK", "SCK") and cl is None) else 1
            for cons in consumer_sets(kx):
                if not cons:
                    if cl is None:
                        add(build_spec(x, cl, cons))
                    continue
                add(build_spec(x, cl, cons))
                if len(cons) == 1:
                    add(build_spec(x, cl, cons, nested=True))
    for fl in ([], ["default_if_missing"], ["include_if_unused"], ["default_if_missing", "include_if_unused"]):
        for cons in [{}] + [{s: "r"} for s in ("h0", "sds", "pre")] + [{"h0": "v"}]:
            add(build_spec("SCU", None, cons, flags={f: True for f in fl}))
    return out


def observe(tier):
    import lib_e2e as L
    import orchestrator
    sp = specs(tier)
    o = orchestrator.observe_specs(sp, f"{L.E2E_WORK}/{FAM}-{tier}")
    o["specs"] = sp
    o["built_specs"] = [s for s in sp if s["id"] in o["build"]]
    o["singles_gen"] = o["gen"]
    o["packs_gen"] = {}
    return o


# --------------------------------------------------------------------------------------------------
def _events(lines):
    return M.parse_trace(lines or [])


def _class_key(spec):
    s = spec["src"]
    return f"{KIND[s['x']]}:{effective_policy(s['x'], s['cl'])}:" + "+".join(f"{k}{m}" for k, m in sorted(s["cons"].items())) + \
        (":nested" if s["nested"] else "") + (":" + "+".join(s["flags"]) if s["flags"] else "")


def oracle_verdicts(obs, rep, tier, prop):
    """C02 (must_accept => accepted) and C08 (must_reject => rejected with a diagnostic, no SDK)."""
    o = obs.get(FAM) or {}
    n = 0
    hist = collections.Counter()
    samples = []
    for spec in o.get("specs", []):
        gen = o["gen"].get(spec["id"])
        if gen is None or gen.get("timed_out") or gen.get("panic"):
            continue  # C09's subject
        v, why = spec["src"]["verdict"], spec["src"]["why"]
        hist[f"{v}:{why}:{'accepted' if gen['exit'] == 0 else 'rejected'}"] += 1
        case = {"oracle": prop, "spec": spec, "exit": gen["exit"], "stderr": O.ANSI.sub("", gen["stderr"])[-2000:]}
        if prop == "C02" and v == "must_accept":
            n += 1
            if gen["exit"] != 0 or gen["n_error"] > 0:
                rep.violation(f"{FAM}:rejected:{why}:{_class_key(spec)}",
                              f"rule-abiding blueprint {spec['id']} ({why}) was rejected: {O.first_error_title(gen['stderr'])}", case)
            elif len(samples) < 2:
                samples.append({"spec": O.sample_spec(spec), "verdict": v})
        if prop == "C08" and v == "must_reject":
            n += 1
            if gen["exit"] == 0:
                rep.violation(f"{FAM}:accepted:{why}:{_class_key(spec)}",
                              f"blueprint {spec['id']} breaks a documented rule ({why}) but was accepted", case)
            elif gen.get("sdk_changed_files"):
                rep.violation(f"{FAM}:sdk-written-on-rejection:{why}", f"{spec['id']} was rejected but SDK files changed: {gen['sdk_changed_files']}", case)
            elif len(samples) < 2:
                samples.append({"spec": O.sample_spec(spec), "verdict": v, "diagnostic": O.first_error_title(gen["stderr"])})
    cov = {"evaluations": n, "distinct_nontrivial": len([k for k in hist if k.startswith("must_accept" if prop == "C02" else "must_reject")]),
           "exhaustive": True, "samples": samples, "outcome_histogram": dict(hist),
           "rule": "SRC family (fam_src.py): prebuilt and configuration types x cloning policy (annotation, registration override, default of "
                   "the kind) x every set of <= %d consumers over 7 consumer slots (handlers, pre/wrap/post middlewares, singleton and "
                   "request-scoped constructors; by &, by value, &mut) + nested registration + default_if_missing / include_if_unused; "
                   "reference verdict in the module docstring" % (2 if tier == "quick" else 3)}
    return "exploration", cov, ["the guide's pages on prebuilt types and configuration entries define the defaults (never clone / clone if necessary)"]


def oracle_c02(obs, rep, tier):
    return oracle_verdicts(obs, rep, tier, "C02")


def oracle_c08(obs, rep, tier):
    return oracle_verdicts(obs, rep, tier, "C08")


def oracle_c01(obs, rep, tier):
    return O.oracle_c01(obs, rep, tier)


def oracle_runtime(obs, rep, tier, prop):
    """C03 (lifecycle: one instance, built before the first request, derived values once / once per request) and
    C04 (provenance: the instance the application supplied, clones only when allowed, right handler, middlewares once)."""
    o = obs.get(FAM) or {}
    n_req = 0
    n_srv = 0
    distinct = set()
    samples = []
    for spec in o.get("specs", []):
        run = (o.get("run") or {}).get(spec["id"])
        if not run:
            continue
        s = spec["src"]
        x, cons = s["x"], s["cons"]
        pol = effective_policy(x, s["cl"])
        st = run.get("startup") or {}
        case = {"oracle": prop, "spec": spec}
        ck = _class_key(spec)
        if not st.get("ok"):
            if prop == "C03":
                rep.violation(f"{FAM}:startup-failure:{ck}", f"server of {spec['id']} did not start: {str(st)[:300]}", dict(case, startup=st))
            continue
        n_srv += 1
        sev = _events(st.get("trace"))
        news = [e for e in sev if e["e"] == "new" and e["type"] == x]
        defaulted = ANN_DEFAULT[x] or "default_if_missing" in s["flags"]
        used = bool(cons)
        exp_by = G.comp_id(x) + ("_DEF" if (KIND[x] == "config" and defaulted) else "")
        if prop == "C03":
            if KIND[x] == "config" and not used:
                if bool(news) != ("include_if_unused" in s["flags"]):
                    rep.violation(f"{FAM}:unused-config-field:{ck}",
                                  f"{spec['id']}: unused configuration type, include_if_unused={'include_if_unused' in s['flags']}, but "
                                  f"{len(news)} instance(s) were built while loading ApplicationConfig", dict(case, startup=st))
            elif used and len(news) != 1:
                rep.violation(f"{FAM}:source-instances:{len(news)}:{ck}", f"{spec['id']}: {len(news)} instances of {x} were built at start-up, expected 1",
                              dict(case, startup=st))
        if prop == "C04" and news and news[0]["by"] != exp_by:
            rep.violation(f"{FAM}:source-built-by:{news[0]['by']}:{ck}",
                          f"{spec['id']}: the {x} instance was produced by {news[0]['by']}, expected {exp_by} "
                          f"(default_if_missing={'yes' if defaulted else 'no'})", dict(case, startup=st))
        root = news[0]["id"] if news else None
        sds_new_startup = [e for e in sev if e["e"] == "new" and e["type"] == "SDS"]
        if prop == "C03" and "sds" in cons and len(sds_new_startup) != 1:
            rep.violation(f"{FAM}:derived-singleton-startup:{len(sds_new_startup)}:{ck}",
                          f"{spec['id']}: the derived singleton was built {len(sds_new_startup)} times while the state was built", dict(case, startup=st))
        all_events = [("startup", None, e) for e in sev]
        for req, resp in zip(spec["requests"], run.get("responses", [])):
            n_req += 1
            evs = _events(resp.get("trace"))
            all_events += [("request", req, e) for e in evs]
            distinct.add((ck, req["handler"][:3]))
            rcase = dict(case, request=req, response={k: resp.get(k) for k in ("status", "body", "trace")})
            if prop == "C04":
                if resp.get("status") != 200 or resp.get("body") != f"h:{req['handler']}":
                    rep.violation(f"{FAM}:response:{ck}", f"{spec['id']} {req['path']}: status {resp.get('status')} body {str(resp.get('body'))[:60]}", rcase)
                exp_seq = []
                if "pre" in cons:
                    exp_seq.append(("pre", f"PRES_{x}_{cons['pre'].upper()}"))
                if "wrap" in cons:
                    exp_seq.append(("wrap", f"WRAPS_{x}_{cons['wrap'].upper()}"))
                exp_seq.append(("handler", req["handler"]))
                # the post-processing middleware is registered AFTER the wrapping one: it belongs to the wrap's scope
                if "post" in cons:
                    exp_seq.append(("post", f"POSTS_{x}_{cons['post'].upper()}"))
                if "wrap" in cons:
                    exp_seq.append(("wrapexit", f"WRAPS_{x}_{cons['wrap'].upper()}"))
                got = M.call_sequence(evs)
                if got != exp_seq:
                    rep.violation(f"{FAM}:sequence:{ck}", f"{spec['id']} {req['path']}: invocation sequence {got}, expected {exp_seq}", rcase)
            if prop == "C03":
                for e in evs:
                    if e["e"] == "new" and e["type"] in (x, "SDS"):
                        rep.violation(f"{FAM}:built-at-request-time:{e['type']}:{ck}",
                                      f"{spec['id']} {req['path']}: a {e['type']} was built while serving a request (by {e['by']})", rcase)
                n_sdr = sum(1 for e in evs if e["e"] == "new" and e["type"] == "SDR")
                want = 1 if req["handler"] == "HS3_SDR_R" else 0
                if n_sdr != want:
                    rep.violation(f"{FAM}:derived-request-scoped:{n_sdr}-vs-{want}:{ck}",
                                  f"{spec['id']} {req['path']}: the derived request-scoped value was built {n_sdr} times, expected {want}", rcase)
        # identity and clones over the whole process
        for phase, req, e in all_events:
            tags = []
            if e["e"] in ("call", "new"):
                tags = [t for t in e.get("ins", []) if t["type"] == x]
            for t in tags:
                rcase = dict(case, request=req, event=e)
                if prop == "C03" and root is not None and t["root"] != root:
                    rep.violation(f"{FAM}:other-instance:{ck}", f"{spec['id']}: {e.get('cid') or e.get('by')} received {t}, the application supplied #{root}", rcase)
                if prop == "C04" and t["cloned"] and pol != "clone_if_necessary":
                    rep.violation(f"{FAM}:clone-of-never-clone:{ck}", f"{spec['id']}: {e.get('cid') or e.get('by')} received a clone {t} of a never-clone {KIND[x]} value", rcase)
                if prop == "C04" and t["by"] != exp_by:
                    rep.violation(f"{FAM}:wrong-source:{ck}", f"{spec['id']}: {e.get('cid') or e.get('by')} received {t}, expected one built by {exp_by}", rcase)
            if prop == "C04" and e["e"] == "clone" and e["type"] == x and pol != "clone_if_necessary":
                rep.violation(f"{FAM}:clone-event-never-clone:{ck}", f"{spec['id']}: a never-clone {KIND[x]} value was cloned ({phase})", dict(case, request=req, event=e))
        if len(samples) < 2:
            samples.append({"spec": O.sample_spec(spec), "startup_trace": (st.get("trace") or [])[:4]})
    cov = {"evaluations": n_req, "distinct_nontrivial": len(distinct), "exhaustive": True, "samples": samples, "servers": n_srv,
           "rule": "SRC family run-time oracle (module docstring of fam_src.py): one instance per source for the whole process, supplied by the "
                   "application (prebuilt argument / deserialised field / serde default), seen by every consumer of every request; clones only "
                   "under clone-if-necessary; derived singleton once at start-up, derived request-scoped value once per request; every route "
                   "answered by its handler with the middlewares once, in order; two rounds of requests on every route"}
    return "exploration", cov, ["verif_app's configuration types ignore the document they are deserialised from"]


def oracle_c03(obs, rep, tier):
    return oracle_runtime(obs, rep, tier, "C03")


def oracle_c04(obs, rep, tier):
    return oracle_runtime(obs, rep, tier, "C04")


PROPERTIES = {
    "C01": (lambda tier: [FAM], oracle_c01),
    "C02": (lambda tier: [FAM], oracle_c02),
    "C03": (lambda tier: [FAM], oracle_c03),
    "C04": (lambda tier: [FAM], oracle_c04),
    "C08": (lambda tier: [FAM], oracle_c08),
    "C09": (lambda tier: [FAM], O.oracle_c09),
}
