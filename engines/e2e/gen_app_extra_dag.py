"""DAG family: enumerator of dependency-graph shapes + the extra verif_app components they need.

This file has two clients that must agree, which is why the enumerator lives here:
  * gen_app.py loads it as a `gen_app_extra_*` plug-in and calls `gen(w, catalog)`: it emits the value types
    `N0..N5` x {`P` plain, `K` Clone} and exactly the constructors / handlers used by the enumerated shapes
    (union of both tiers, so that verif_app does not depend on the tier);
  * fam_dag.py imports `shapes(tier)` / `ops_of(shape)` to build the blueprints.
It imports nothing from the engine (gen_app.py runs it in a bare interpreter).

Abstract shape
--------------
A shape is a rooted DAG: value nodes, each built by one constructor whose inputs are other value nodes, each input taken
by value (`v`) or by shared reference (`r`); the root is the request handler with an ORDERED parameter list of 1..4 value
nodes (`v`/`r`). Node attributes: kind `P` (no Clone impl, never-clone), `K` (Clone impl, never-clone), `C` (Clone impl,
registered clone-if-necessary); lifecycle `R` request-scoped / `T` transient. Constructor inputs are an unordered set
in the abstract shape (see "realisation").

Isomorphism / canonical form (soundness argument)
-------------------------------------------------
Two labelled shapes are identified iff there is a bijection of the value nodes that preserves kind, lifecycle, every
constructor's input set with modes, and the handler's parameter SEQUENCE with modes (so handler-parameter order is never
quotiented away; it is what seeded defect (a) depends on). `canon()` computes the lexicographically least encoding over
all such relabellings (brute force inside classes of nodes with equal local invariants, n <= 6). Each class is realised
by ONE blueprint: value node i of the canonical labelling is type `N<i><P|K>`, constructors are registered in label
order, constructor parameters are listed in ascending (or, variant `d`, descending) label order. Two members of one
class would yield blueprints that differ only in (1) the names of types and functions, (2) the relative registration
order of constructors of *different* types and (3) the order of a constructor's parameters. (1) pavexc never inspects
names, only type identity; (2) registrations are looked up by output type, order only matters for same-type
registrations, which do not occur here; (3) is NOT a symmetry (petgraph neighbour order follows edge insertion order),
it is a dimension that is bounded, not quotiented: one (quick) or two (thorough: ascending and descending) parameter
orders per class -- listed under "limits" in the evidence rule.
"""
import itertools

MAXN = 6


# --------------------------------------------------------------------------------------------------
# canonical form
# --------------------------------------------------------------------------------------------------
def _encode(nodes, h, perm):
    """Encoding of the shape relabelled by perm (old -> new)."""
    n = len(nodes)
    inv = [0] * n
    for old, new in enumerate(perm):
        inv[new] = old
    enc_nodes = []
    for new in range(n):
        nd = nodes[inv[new]]
        enc_nodes.append((nd[0], nd[1], tuple(sorted((perm[j], m) for j, m in nd[2]))))
    return (n, tuple((perm[j], m) for j, m in h), tuple(enc_nodes))


def canon(nodes, h):
    """nodes: [(kind, lc, ((j, mode), ...))], h: ((j, mode), ...). -> (key, nodes', h') with a topological
    canonical labelling (inputs have lower labels)."""
    n = len(nodes)
    # depth (longest path from a source) makes every candidate labelling topological: primary sort key
    depth = [0] * n
    order = _topo(nodes)
    for i in order:
        depth[i] = 1 + max((depth[j] for j, _ in nodes[i][2]), default=-1)
    outs = [[] for _ in range(n)]
    for i, nd in enumerate(nodes):
        for j, m in nd[2]:
            outs[j].append(m)
    hpos = [[] for _ in range(n)]
    for p, (j, m) in enumerate(h):
        hpos[j].append((p, m))
    inv = [(depth[i], tuple(hpos[i]), nodes[i][0], nodes[i][1], tuple(sorted(m for _, m in nodes[i][2])),
            tuple(sorted(outs[i]))) for i in range(n)]
    groups = {}
    for i in range(n):
        groups.setdefault(inv[i], []).append(i)
    keys = sorted(groups)
    best = None
    # new labels: groups in invariant order; inside a group every arrangement is tried
    for arrangement in itertools.product(*[itertools.permutations(groups[k]) for k in keys]):
        perm = [0] * n
        new = 0
        for grp in arrangement:
            for old in grp:
                perm[old] = new
                new += 1
        e = _encode(nodes, h, perm)
        if best is None or e < best:
            best = e
    _, h2, nodes2 = best
    return best, list(nodes2), h2


def _topo(nodes):
    n = len(nodes)
    seen, out = set(), []

    def visit(i):
        if i in seen:
            return
        seen.add(i)
        for j, _ in nodes[i][2]:
            visit(j)
        out.append(i)

    for i in range(n):
        visit(i)
    return out


# --------------------------------------------------------------------------------------------------
# structures (undecorated): DAG + handler sequence
# --------------------------------------------------------------------------------------------------
def _structures(n, st):
    """Topologically labelled DAGs on n nodes (inputs among lower labels, <= fanin inputs, depth <= max depth) x
    handler sequences (ordered, <= hmax distinct nodes, containing every sink, at most `extra_h` non-sinks).
    Yields canonical undecorated structures once each."""
    fanin, hmax, max_depth, extra_h, max_out = st["fanin"], st["hmax"], st["depth"], st["extra_h"], st["max_out"]
    seen = set()
    choices = []
    for i in range(n):
        opts = []
        for k in range(0, min(fanin, i) + 1):
            opts.extend(itertools.combinations(range(i), k))
        choices.append(opts)
    for ins in itertools.product(*choices):
        depth = []
        ok = True
        for i in range(n):
            d = 1 + max((depth[j] for j in ins[i]), default=-1)
            if d > max_depth:
                ok = False
                break
            depth.append(d)
        if not ok:
            continue
        nout = [0] * n
        for t in ins:
            for j in t:
                nout[j] += 1
        sinks = [i for i in range(n) if nout[i] == 0]
        if len(sinks) > hmax or max(nout) > max_out:
            continue
        if not st["lone"] and n >= 3 and any(not ins[i] for i in sinks):
            continue  # a source consumed by the handler only
        nonsinks = [i for i in range(n) if nout[i] and nout[i] < max_out]
        for k in range(0, min(extra_h, hmax - len(sinks), len(nonsinks)) + 1):
            for extra in itertools.combinations(nonsinks, k):
                for hseq in itertools.permutations(tuple(sinks) + extra):
                    nodes = [("", "", tuple((j, "") for j in ins[i])) for i in range(n)]
                    key, nodes2, h2 = canon(nodes, tuple((j, "") for j in hseq))
                    if key in seen:
                        continue
                    seen.add(key)
                    yield [tuple(j for j, _ in nd[2]) for nd in nodes2], tuple(j for j, _ in h2)


# --------------------------------------------------------------------------------------------------
# decoration
# --------------------------------------------------------------------------------------------------
def _decorate(ins, hseq, st):
    """All decorations of one structure inside the alphabet of the stratum. A value with one consumer edge is plain
    (`P`) and its edge mode ranges over st["single"]; a value with >= 2 consumer edges ("shared") ranges over
    kinds x {v, r}^edges (kind fixed to the first kind of the alphabet when every edge is a borrow: nothing to clone).
    Lifecycles: all request-scoped; with st["lcs"] == "T1" additionally every variant with exactly one shared value
    transient (a transient value is built once per consumer, so its own inputs are consumed that many times)."""
    n = len(ins)
    kinds, max_c = st["kinds"], st["max_c"]
    edges = [[] for _ in range(n)]  # per value: consumer slots ("c", i) / ("h", pos)
    for i in range(n):
        for j in ins[i]:
            edges[j].append(("c", i))
    for p, j in enumerate(hseq):
        edges[j].append(("h", p))
    per_node = []
    for j in range(n):
        k = len(edges[j])
        opts = []
        if k == 1:
            for m in st["single"]:
                opts.append(("P", (m,)))
        else:
            for modes in itertools.product("vr", repeat=k):
                if "v" not in modes:
                    opts.append((kinds[0], modes))
                else:
                    for kd in kinds:
                        opts.append((kd, modes))
        per_node.append(opts)
    shared = [j for j in range(n) if len(edges[j]) >= 2]
    lcvs = ["R" * n]
    if st["lcs"] == "T1":
        lcvs += ["R" * t + "T" + "R" * (n - t - 1) for t in shared]
    for deco in itertools.product(*per_node):
        if sum(1 for kd, _ in deco if kd == "C") > max_c:
            continue
        mode_of = {}
        for j in range(n):
            for slot, m in zip(edges[j], deco[j][1]):
                mode_of[(j, slot)] = m
        for lcv in lcvs:
            nodes = [(deco[i][0], lcv[i], tuple((j, mode_of[(j, ("c", i))]) for j in ins[i])) for i in range(n)]
            h = tuple((j, mode_of[(j, ("h", p))]) for p, j in enumerate(hseq))
            yield nodes, h


# --------------------------------------------------------------------------------------------------
# tiers
# --------------------------------------------------------------------------------------------------
def _st(**kw):
    st = dict(fanin=3, hmax=4, depth=1, extra_h=0, kinds="PC", max_c=1, single="v", max_out=4, lone=False, lcs="R", orders="a")
    st.update(kw)
    return st


BOUNDS = {
    "quick": [
        _st(ns=(2,), depth=1, extra_h=1, lone=True),
        _st(ns=(3,), depth=2, extra_h=1),
        _st(ns=(4,), depth=2, extra_h=0),
        _st(ns=(5,), depth=1, extra_h=0, max_out=2),
    ],
    "thorough": [
        _st(ns=(2,), depth=1, extra_h=1, lone=True, kinds="PKC", max_c=9, single="vr", lcs="T1", orders="ad"),
        _st(ns=(3,), depth=2, extra_h=1, kinds="PKC", max_c=9, orders="ad"),
        _st(ns=(3,), depth=2, extra_h=1, lcs="T1"),
        _st(ns=(4,), depth=2, extra_h=0, orders="ad"),
        _st(ns=(4,), depth=2, extra_h=0, lcs="T1"),
        _st(ns=(4,), depth=3, extra_h=0, max_c=9),
        _st(ns=(4,), depth=2, extra_h=1, max_out=2),
        _st(ns=(5,), depth=1, extra_h=0, max_out=2, orders="ad"),
        _st(ns=(5,), depth=1, extra_h=0, max_c=2),
        _st(ns=(6,), depth=1, extra_h=0, max_out=2),
    ],
}

_CACHE = {}


def enumerate_stratum(st):
    out = []
    seen = set()
    for n in st["ns"]:
        for ins, hseq in _structures(n, st):
            for nodes, h in _decorate(ins, hseq, st):
                key, nodes2, h2 = canon(nodes, h)
                if key in seen:
                    continue
                seen.add(key)
                multi = any(len(nd[2]) >= 2 for nd in nodes2)
                for o in st["orders"]:
                    if o == "d" and not multi:
                        continue  # no constructor with two parameters: the descending order is the same blueprint
                    out.append({"nodes": [{"kind": nd[0], "lc": nd[1], "ins": [list(x) for x in nd[2]]} for nd in nodes2],
                                "h": [list(x) for x in h2], "order": o})
    return out


def size_of(sh):
    return (len(sh["nodes"]), sum(len(nd["ins"]) for nd in sh["nodes"]) + len(sh["h"]),
            sum(1 for nd in sh["nodes"] if nd["kind"] != "P"), sum(1 for nd in sh["nodes"] if nd["lc"] != "R"), sh["order"])


def shapes(tier):
    """Canonical shapes of the tier, simplest first (nodes, edges, non-plain values, transient values, order)."""
    if tier not in _CACHE:
        res, seen = [], set()
        for st in BOUNDS[tier]:
            for sh in enumerate_stratum(st):
                k = repr(sh)
                if k not in seen:
                    seen.add(k)
                    res.append(sh)
        res.sort(key=lambda s: (size_of(s), repr(s)))
        _CACHE[tier] = res
    return _CACHE[tier]


# --------------------------------------------------------------------------------------------------
# realisation: names, blueprint ops, components
# --------------------------------------------------------------------------------------------------
def type_name(i, kind):
    return f"N{i}{'P' if kind == 'P' else 'K'}"


def _param_list(sh, ins):
    """Parameters of a constructor in the order of the variant: ascending / descending canonical label."""
    ins = sorted(ins)
    if sh["order"] == "d":
        ins = ins[::-1]
    return [(type_name(j, sh["nodes"][j]["kind"]), m) for j, m in ins]


def sig_code(params):
    return "_".join(f"{t}{m.upper()}" for t, m in params) if params else "0"


def ctor_id(sh, i):
    nd = sh["nodes"][i]
    return f"DG_{type_name(i, nd['kind'])}__{sig_code(_param_list(sh, nd['ins']))}"


def handler_id(sh):
    return "DGH__" + sig_code([(type_name(j, sh["nodes"][j]["kind"]), m) for j, m in sh["h"]])


def components_of(sh):
    """-> [(id, kind, out type or None, [(type, mode)])] needed by one shape."""
    out = []
    for i, nd in enumerate(sh["nodes"]):
        out.append((ctor_id(sh, i), "ctor", type_name(i, nd["kind"]), _param_list(sh, nd["ins"])))
    out.append((handler_id(sh), "handler", None, [(type_name(j, sh["nodes"][j]["kind"]), m) for j, m in sh["h"]]))
    return out


LC_NAME = {"R": "request_scoped", "T": "transient"}


def ops_of(sh):
    """Registration ops of the blueprint of one shape: constructors in label order, then the route (GET /r0)."""
    ops = []
    for i, nd in enumerate(sh["nodes"]):
        op = {"k": "ctor", "c": ctor_id(sh, i), "lc": LC_NAME[nd["lc"]]}
        if nd["kind"] == "C":
            op["cl"] = "clone_if_necessary"
        ops.append(op)
    ops.append({"k": "route", "c": handler_id(sh)})
    return ops


def all_components():
    comps = {}
    for tier in ("quick", "thorough"):
        for sh in shapes(tier):
            for cid, kind, out, params in components_of(sh):
                comps[cid] = (kind, out, params)
    return comps


def gen(w, catalog):
    w("// ---- DAG family (gen_app_extra_dag.py): value types N0..N5 x {P plain, K Clone}, constructors DG_*, handlers DGH__*")
    for i in range(MAXN):
        for f in "PK":
            ty = f"N{i}{f}"
            w("#[derive(Debug)]")
            w(f"pub struct {ty} {{ pub id: u64, pub root: u64, pub by: &'static str, pub cloned: bool }}")
            w(f"impl {ty} {{")
            w(f"    pub fn tag(&self) -> String {{ rt::tag(\"{ty}\", self.id, self.root, self.by, self.cloned) }}")
            w(f"    pub fn mk(by: &'static str, ins: &[String]) -> Self {{ let id = rt::new_value(\"{ty}\", by, ins); Self {{ id, root: id, by, cloned: false }} }}")
            w("}")
            if f == "K":
                w(f"impl Clone for {ty} {{")
                w(f"    fn clone(&self) -> Self {{ let id = rt::cloned(\"{ty}\", self.id, self.root, self.by); Self {{ id, root: self.root, by: self.by, cloned: true }} }}")
                w("}")
            w()
    mode_ty = {"v": "{}", "r": "&{}"}
    for cid, (kind, out, params) in sorted(all_components().items()):
        name = cid.lower()
        ps = [f"a{k}: {mode_ty[m].format(t)}" for k, (t, m) in enumerate(params)]
        tags = "&[" + ", ".join(f"a{k}.tag()" for k in range(len(params))) + "]"
        cat_inputs = [{"type": t, "mode": m} for t, m in params]
        if kind == "ctor":
            w(f"#[pavex::request_scoped(id = \"{cid}\")]")
            w(f"pub fn {name}({', '.join(ps)}) -> {out} {{")
            w(f"    let ins: &[String] = {tags};")
            w(f"    {out}::mk(\"{cid}\", ins)")
            w("}")
            catalog.append({"id": cid, "kind": "ctor", "macro": "constructor", "out": out, "inputs": cat_inputs,
                            "fallible": False, "async": False, "err": None, "dag": True})
        else:
            w(f"#[pavex::get(path = \"/r0\", id = \"{cid}\")]")
            w(f"pub fn {name}({', '.join(ps)}) -> pavex::Response {{")
            w(f"    rt::call(\"handler\", \"{cid}\", {tags});")
            w(f"    rt::respond(\"h\", \"{cid}\")")
            w("}")
            catalog.append({"id": cid, "kind": "handler", "macro": "route", "inputs": cat_inputs, "fallible": False,
                            "err": None, "path": "/r0", "methods": ["GET"], "dag": True})
    w()


def selftest(sample_per_tier=400):
    """The canonical form is invariant under relabelling and no two enumerated shapes are isomorphic (checked against
    the brute-force minimum over all n! relabellings). Deterministic (fixed stride sample for thorough)."""
    def tup(sh):
        return [(nd["kind"], nd["lc"], tuple(map(tuple, nd["ins"]))) for nd in sh["nodes"]], tuple(map(tuple, sh["h"]))

    def relabel(nodes, h, perm):
        n = len(nodes)
        inv = [0] * n
        for old, new in enumerate(perm):
            inv[new] = old
        return ([(nodes[inv[k]][0], nodes[inv[k]][1], tuple((perm[j], m) for j, m in nodes[inv[k]][2])) for k in range(n)],
                tuple((perm[j], m) for j, m in h))

    report = {}
    for tier in ("quick", "thorough"):
        S = [s for s in shapes(tier) if s["order"] == "a"]
        S = S[::max(1, len(S) // sample_per_tier)]
        mismatches, full = 0, set()
        for sh in S:
            nodes, h = tup(sh)
            k = canon(nodes, h)[0]
            n = len(nodes)
            for perm in (tuple(reversed(range(n))), tuple((i + 1) % n for i in range(n))):
                if canon(*relabel(nodes, h, perm))[0] != k:
                    mismatches += 1
            full.add(min(_encode(nodes, h, p) for p in itertools.permutations(range(n))))
        report[tier] = {"checked": len(S), "relabelling_mismatches": mismatches, "distinct_under_brute_force_canon": len(full)}
        assert mismatches == 0 and len(full) == len(S), report
    return report


if __name__ == "__main__":
    import sys
    import time
    import collections
    if "--selftest" in sys.argv:
        print(selftest())
        sys.exit(0)
    for tier in sys.argv[1:] or ["quick"]:
        t0 = time.time()
        s = shapes(tier)
        print(tier, len(s), f"{time.time() - t0:.1f}s", collections.Counter(len(x["nodes"]) for x in s))
    c = all_components()
    print("components:", collections.Counter(k for k, _, _ in c.values()))
