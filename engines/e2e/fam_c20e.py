"""End-to-end half of C20: the route family's tables that carry domain guards, served by the generated
server and probed with Host headers (the generated host normalisation, the domain router ids and
the dispatch table are the real generated code here, not a replica). Oracle and observations are
fam_route's; only violations of tables with domain guards are reported under C20.

`./check C20` runs the in-process engine (rt_domain) first and, if that holds, this half; the
evidence of the in-process run is embedded under coverage.in_process_half."""
import json
import os

import fam_route


class _DomainOnly:
    """Reporter proxy: forwards only violations that involve a table with domain guards."""

    def __init__(self, rep):
        self._rep = rep
        self.dropped = 0

    def __getattr__(self, name):
        return getattr(self._rep, name)

    def violation(self, key, what, case):
        # the recorded C07 finding about the BARE prefix of a nested path-based fallback (`/p{*catch_all}` never matches `/p`) is a
        # question of which requests a path prefix covers, not of which hosts a domain guard accepts: it stays with C07 also when the
        # table happens to carry domain guards (slices Q9 / T9: one guard on two sibling blueprints)
        if key.startswith("route:nested-fallback:bare-prefix"):
            self.dropped += 1
            return
        if "domains=" in what and "domains=none" not in what:
            if isinstance(case, dict):
                case = dict(case)
                case["oracle"] = "C20"
            self._rep.violation("e2e:" + key, what, case)
        else:
            self.dropped += 1


def oracle_c20_e2e(obs, rep, tier):
    proxy = _DomainOnly(rep)
    level, cov, assumptions = fam_route.oracle_c07(obs, proxy, tier)
    cov = dict(cov)
    cov["rule"] = ("END-TO-END HALF (generated server, real generated host normalisation and domain router): " + cov.get("rule", "")
                   + " — only tables with domain guards are judged here; violations of domain-free tables belong to C07")
    cov["violations_of_domain_free_tables_left_to_C07"] = proxy.dropped
    prev = os.environ.get("VERIF_C20_INPROCESS_EVIDENCE")
    if prev and os.path.exists(prev):
        with open(prev) as f:
            ip = json.load(f)
        cov["in_process_half"] = {"wall_s": ip.get("wall_s"), "violations": ip.get("violations"), "coverage": ip.get("coverage")}
        c = ip.get("coverage", {})
        cov["evaluations"] = cov.get("evaluations", 0) + int(c.get("evaluations", 0))
        cov["distinct_nontrivial"] = cov.get("distinct_nontrivial", 0) + int(c.get("distinct_nontrivial", 0))
        cov["known_findings_matched_in_process"] = c.get("known_findings_matched", [])
    return level, cov, assumptions + ["the in-process half replicates the generated normalisation and the conflict detector, guarded by source self-checks"]


PROPERTIES = {"C20": (lambda tier: [fam_route.FAMILY], oracle_c20_e2e)}
