"""Family `progs` (C01, C09): the *programs* that other engines only look at as bytes are compiled too.

  * every program of the C10 family (fam_c10.programs: clones in every stage, shared request-scoped values, several
    singletons, error plumbing, route tables, packs of shapes) — C10 compares their bytes across runs but never hands
    them to rustc;
  * STATE-ERRORS: the application-state error enum. `ApplicationStateError` gets one variant per fallible component that
    runs while the application state is built, named after the component, collisions numbered first-come
    (analyses/call_graph/application_state.rs). Every non-empty subset of the four fallible singletons of
    gen_app_extra_c10.py (three of them called `build` in different modules, with different error types, one `connect`),
    in both registration orders of the subset's first two members, at the root or inside a nested blueprint, each
    borrowed by its own route: 2 x (2^4 - 1) + order variants.

Oracle: C01 (accepted => the generated crate compiles) and C09 (verdict, no panic, atomic) over every pavexc run.
"""
import itertools

import oracles as O

FAM = "progs"
STATE = [("C10_DB_BUILD", "H_C10_STATE_0"), ("C10_HTTP_CLIENT_BUILD", "H_C10_STATE_1"), ("C10_QUEUE_BUILD", "H_C10_STATE_2"),
         ("C10_CONNECT", None)]


def state_error_specs(tier):
    specs = []
    for r in range(1, len(STATE) + 1):
        for sub in itertools.combinations(range(len(STATE)), r):
            orders = [list(sub)]
            if len(sub) >= 2:
                orders.append([sub[1], sub[0]] + list(sub[2:]))
            if tier == "thorough" and len(sub) >= 3:
                orders += [list(p) for p in itertools.permutations(sub)][2:]
            for oi, order in enumerate(orders):
                for where in ("root", "nested"):
                    ctors = [{"k": "ctor", "c": STATE[i][0], "lc": "singleton"} for i in order]
                    routes = [{"k": "route", "c": STATE[i][1]} for i in order if STATE[i][1]]
                    if not routes:
                        continue
                    ops = ctors + routes if where == "root" else [{"k": "nest", "prefix": "/n", "bp": {"ops": ctors + routes}}]
                    specs.append({"id": f"progs_se_{''.join(map(str, order))}_{where}", "family": FAM, "bp": {"ops": ops},
                                  "requests": [{"method": "GET", "path": ("/n" if where == "nested" else "") + f"/c10/state/{i}", "plan": []}
                                               for i in order if STATE[i][1]]})
    seen, out = set(), []
    for s in specs:
        if s["id"] not in seen:
            seen.add(s["id"])
            out.append(s)
    return out


def observe(tier):
    import fam_c10
    import lib_e2e as L
    import orchestrator
    specs = []
    for s in fam_c10.programs(tier):
        s = dict(s)
        s["id"] = "progs_" + s["id"]
        s["family"] = FAM
        specs.append(s)
    specs += state_error_specs(tier)
    o = orchestrator.observe_specs(specs, f"{L.E2E_WORK}/{FAM}-{tier}")
    o["specs"] = specs
    o["built_specs"] = [s for s in specs if s["id"] in o["build"]]
    o["singles_gen"] = o["gen"]
    o["packs_gen"] = {}
    return o


def oracle_c01(obs, rep, tier):
    level, cov, asm = O.oracle_c01(obs, rep, tier)
    o = obs.get(FAM) or {}
    # the routes of the state-error members answer (the singletons were built, each by its own constructor)
    n = 0
    for spec in o.get("specs", []):
        run = (o.get("run") or {}).get(spec["id"])
        if not run or not spec["id"].startswith("progs_se_"):
            continue
        st = run.get("startup") or {}
        if not st.get("ok"):
            rep.violation(f"{FAM}:startup-failure:{spec['id']}", f"server of {spec['id']} did not start: {str(st)[:300]}",
                          {"oracle": "C01", "spec": spec, "startup": st})
            continue
        for req, resp in zip(spec["requests"], run.get("responses", [])):
            n += 1
            if resp.get("status") != 200:
                rep.violation(f"{FAM}:state-route-status:{spec['id']}", f"{spec['id']} {req['path']}: status {resp.get('status')}",
                              {"oracle": "C01", "spec": spec, "request": req, "response": resp})
    cov["state_error_requests"] = n
    cov["rule"] += (" || progs: every program of the C10 family and every non-empty subset x order x level of four fallible "
                    "singletons with colliding ApplicationStateError variant names")
    return level, cov, asm


PROPERTIES = {
    "C01": (lambda tier: [FAM], oracle_c01),
    "C09": (lambda tier: [FAM], O.oracle_c09),
}
