"""Family `iofault` (C09, atomicity under I/O faults): for a few accepted blueprints, an SDK of a
DIFFERENT blueprint is already on disk, then `pavexc generate` is run with an output/diagnostics
location that cannot be written. Every (blueprint, fault kind) pair of the small alphabet is run.

Oracle (C09): the run terminates with a non-zero status, does not panic, says why on stderr, and the
SDK already on disk (and the workspace manifest) are byte-identical afterwards.
"""
import json
import os
import shutil
import subprocess
import time

import families as F
import lib_e2e as L

FAULTS = ["diagnostics-parent-missing", "diagnostics-is-a-directory", "diagnostics-parent-is-a-file"]


def _specs(tier):
    shapes = F.mw_shapes("quick")
    pick = [0, 3, 17, 41] if tier == "quick" else [0, 3, 17, 41, 77, 120, 200, 260]
    return [F.single_spec("iofault", i, shapes[i]) for i in pick if i < len(shapes)]


def observe(tier):
    specs = _specs(tier)
    d = f"{L.E2E_WORK}/iofault-{tier}"
    shutil.rmtree(d, ignore_errors=True)
    L.write_blueprints(specs, d)
    slot = L.ensure_slot(0)
    gen = {}
    cases = []
    prev = None
    for spec in specs:
        bp = f"{d}/bps/{spec['id']}.ron"
        # 1. put the SDK of this blueprint on disk (fault-free run); it is the "previous SDK" of the
        #    next blueprint's faulty runs
        r0 = subprocess.run(L.pavexc_cmd(slot, bp, f"{slot}/sdk"), cwd=slot, env=L.pavexc_env(), stdout=subprocess.PIPE,
                            stderr=subprocess.PIPE, text=True, timeout=L.PAVEXC_TIMEOUT_S * 3)
        if r0.returncode != 0:
            raise L.MachineryError(f"iofault base blueprint {spec['id']} is not accepted: {r0.stderr[-400:]}")
        if prev is None:
            prev = spec
            continue
        # restore prev's SDK on disk by regenerating prev, then run `spec` with each fault
        for fault in FAULTS:
            rp = subprocess.run(L.pavexc_cmd(slot, f"{d}/bps/{prev['id']}.ron", f"{slot}/sdk"), cwd=slot, env=L.pavexc_env(),
                                stdout=subprocess.PIPE, stderr=subprocess.PIPE, text=True, timeout=L.PAVEXC_TIMEOUT_S * 3)
            if rp.returncode != 0:
                raise L.MachineryError("iofault: cannot restore the previous SDK")
            scratch = f"{slot}/iofault"
            shutil.rmtree(scratch, ignore_errors=True)
            os.makedirs(scratch)
            if fault == "diagnostics-parent-missing":
                diag = f"{scratch}/no/such/dir/diag.dot"
            elif fault == "diagnostics-is-a-directory":
                os.makedirs(f"{scratch}/diag.dot")
                diag = f"{scratch}/diag.dot"
            else:
                with open(f"{scratch}/file", "w") as f:
                    f.write("x")
                diag = f"{scratch}/file/diag.dot"
            before = L.dir_digest(f"{slot}/sdk")
            root_before = L.sha256_file(f"{slot}/Cargo.toml")
            t0 = time.time()
            try:
                r = subprocess.run(L.pavexc_cmd(slot, bp, f"{slot}/sdk", diagnostics=diag), cwd=slot, env=L.pavexc_env(),
                                   stdout=subprocess.PIPE, stderr=subprocess.PIPE, text=True, timeout=L.PAVEXC_TIMEOUT_S)
                code, err, timed_out = r.returncode, r.stderr, False
            except subprocess.TimeoutExpired:
                code, err, timed_out = None, "", True
            after = L.dir_digest(f"{slot}/sdk")
            changed = sorted(p for p in set(before) | set(after) if before.get(p, (None,))[0] != after.get(p, (None,))[0])
            cid = f"{spec['id']}:{fault}"
            o = {"id": cid, "exit": code, "timed_out": timed_out, "wall_s": round(time.time() - t0, 2), "stderr": err[-3000:],
                 "sdk_changed_files": changed, "root_manifest_changed": root_before != L.sha256_file(f"{slot}/Cargo.toml"),
                 "fault": fault, "previous_sdk_of": prev["id"]}
            o.update(L.classify_stderr(err))
            gen[cid] = o
            cases.append({"id": cid, "family": "iofault", "bp": spec["bp"], "fault": fault, "previous": prev["bp"]})
        prev = spec
    shutil.rmtree(f"{slot}/sdk", ignore_errors=True)
    return {"family": "iofault", "tier": tier, "cases": cases, "gen_fault": gen}


def oracle_c09_iofault(obs, rep, tier):
    o = obs.get("iofault", {})
    if "cases" not in o:  # --replay of an iofault case: re-observe the family (it is tiny) and judge that
        o = observe(tier)
    n = 0
    hist = {}
    samples = []
    for case in o["cases"]:
        g = o["gen_fault"][case["id"]]
        n += 1
        hist[f"{case['fault']}:exit={g['exit']}"] = hist.get(f"{case['fault']}:exit={g['exit']}", 0) + 1
        rc = {"oracle": "C09", "spec": {"id": case["id"].split(":")[0], "family": "iofault", "bp": case["bp"]}, "fault": case["fault"],
              "previous_bp": case["previous"], "exit": g["exit"], "stderr": g["stderr"][-1500:], "changed": g["sdk_changed_files"]}
        if len(samples) < 2:
            samples.append({"case": case["id"], "exit": g["exit"], "stderr_tail": g["stderr"][-160:]})
        if g["timed_out"]:
            rep.violation(f"iofault:hang:{case['fault']}", f"pavexc did not terminate on {case['id']}", rc)
        elif g["panic"]:
            rep.violation(f"iofault:panic:{case['fault']}", f"pavexc panicked on {case['id']}", rc)
        elif g["exit"] == 0:
            rep.violation(f"iofault:exit0:{case['fault']}", f"pavexc exited 0 although the diagnostics file could not be written ({case['id']})", rc)
        elif not g["stderr"].strip():
            rep.violation(f"iofault:silent-failure:{case['fault']}", f"pavexc failed without any message on {case['id']}", rc)
        if g["exit"] != 0 and (g["sdk_changed_files"] or g["root_manifest_changed"]):
            rep.violation(f"iofault:not-atomic:{case['fault']}",
                          f"failing run ({case['fault']}) on {case['id']} modified the SDK already on disk: {g['sdk_changed_files']} "
                          f"root_manifest_changed={g['root_manifest_changed']}", rc)
    cov = {"evaluations": n, "distinct_nontrivial": n, "exhaustive": True,
           "rule": "every (blueprint, I/O fault) pair: an SDK of a different accepted blueprint is on disk, pavexc generate runs with a "
                   "--diagnostics location that cannot be written (%s); must exit non-zero with a message, no panic, SDK and workspace "
                   "manifest byte-identical afterwards" % ", ".join(FAULTS),
           "samples": samples, "outcome_histogram": hist}
    return "exploration", cov, ["the fault is injected through the file system layout, not by intercepting syscalls"]


PROPERTIES = {"C09": (lambda tier: ["iofault"], oracle_c09_iofault)}
