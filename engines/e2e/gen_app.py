#!/usr/bin/env python3
"""Generate the closed component library `verif_app` (plain Rust text, no macro_rules) and its catalog.

Every component body is instrumentation only: it appends events to a process-global trace and
consults the process-global fault plan (see src/rt.rs). The catalog (catalog.json) describes every
component (id, kind, inputs, output, fallibility, path, methods) and is what the spec enumerator,
the blueprint writer (bpgen) and the reference model read.
Deterministic: same output on every run.
"""
import itertools
import json
import os
import sys

OUT = sys.argv[1] if len(sys.argv) > 1 else "/verif/engines/e2e/app"
REPO = os.environ.get("VERIF_E2E_REPO", "/repo")

TYPES = ["T0", "T1", "T2"]
FLAVOURS = ["P", "K", "Y"]  # plain, Clone, Copy

catalog = []
src = []


def w(s=""):
    src.append(s)


def mode_ty(ty, mode):
    return {"v": ty, "r": f"&{ty}", "m": f"&mut {ty}"}[mode]


def in_code(inp):
    """inp: None or (flavour, mode) -> short code"""
    if inp is None:
        return "0"
    return (inp[0] + inp[1]).lower()


def sig_code(inputs):
    return "_".join(in_code(i) for i in inputs) if inputs else "0"


def params(inputs, types):
    """-> (param list text, tags expression list, catalog inputs)"""
    ps, tags, cat = [], [], []
    for k, (inp, t) in enumerate(zip(inputs, types)):
        if inp is None:
            continue
        ty = t + inp[0]
        ps.append(f"a{k}: {mode_ty(ty, inp[1])}")
        tags.append(f"a{k}.tag()")
        cat.append({"type": ty, "mode": inp[1]})
    return ps, tags, cat


def tags_expr(tags):
    if not tags:
        return "&[]"
    return "&[" + ", ".join(tags) + "]"


def input_options(modes):
    return [None] + [(f, m) for f in FLAVOURS for m in modes]


# ------------------------------------------------------------------------------------------------
# types
# ------------------------------------------------------------------------------------------------
def gen_types():
    for t in TYPES:
        for f in FLAVOURS:
            ty = t + f
            derive = "#[derive(Debug)]" if f != "Y" else "#[derive(Debug, Clone, Copy)]"
            w(derive)
            w(f"pub struct {ty} {{ pub id: u64, pub root: u64, pub by: &'static str, pub cloned: bool }}")
            w(f"impl {ty} {{")
            w(f"    pub fn tag(&self) -> String {{ rt::tag(\"{ty}\", self.id, self.root, self.by, self.cloned) }}")
            w(f"    pub fn mk(by: &'static str, ins: &[String]) -> Self {{ let id = rt::new_value(\"{ty}\", by, ins); Self {{ id, root: id, by, cloned: false }} }}")
            w("}")
            if f == "K":
                w(f"impl Clone for {ty} {{")
                w(f"    fn clone(&self) -> Self {{ let id = rt::cloned(\"{ty}\", self.id, self.root, self.by); Self {{ id, root: self.root, by: self.by, cloned: true }} }}")
                w("}")
            w()


ERRS = ["ErrC", "ErrH", "ErrPre", "ErrPost", "ErrW", "ErrX"]


def gen_errors():
    for e in ERRS:
        w("#[derive(Debug)]")
        w(f"pub struct {e} {{ pub src: &'static str }}")
        w(f"impl {e} {{ pub fn new(src: &'static str) -> Self {{ rt::ev(format!(\"err {e} src={{src}}\")); Self {{ src }} }} }}")
        w(f"impl std::fmt::Display for {e} {{ fn fmt(&self, f: &mut std::fmt::Formatter<'_>) -> std::fmt::Result {{ write!(f, \"{e}({{}})\", self.src) }} }}")
        w(f"impl std::error::Error for {e} {{}}")
        w()


# ------------------------------------------------------------------------------------------------
# constructors
# ------------------------------------------------------------------------------------------------
def gen_ctor(name, out_ty, inputs, in_types, var, extra_attr=""):
    ps, tags, cat = params(inputs, in_types)
    ident = name.upper()
    fallible = var == "f"
    is_async = var == "a"
    ret = f"Result<{out_ty}, ErrC>" if fallible else out_ty
    w(f"#[pavex::request_scoped(id = \"{ident}\"{extra_attr})]")
    w(f"pub {'async ' if is_async else ''}fn {name}({', '.join(ps)}) -> {ret} {{")
    w(f"    let ins: &[String] = {tags_expr(tags)};")
    if fallible:
        w(f"    if rt::fails(\"{ident}\") {{ rt::ev(format!(\"fail ctor {ident} in=[{{}}]\", ins.join(\",\"))); return Err(ErrC::new(\"{ident}\")); }}")
        w(f"    Ok({out_ty}::mk(\"{ident}\", ins))")
    else:
        w(f"    {out_ty}::mk(\"{ident}\", ins)")
    w("}")
    catalog.append({"id": ident, "kind": "ctor", "macro": "constructor", "out": out_ty, "inputs": cat,
                    "fallible": fallible, "async": is_async, "err": "ErrC" if fallible else None})


def gen_ctors():
    for ti, t in enumerate(TYPES):
        lower = TYPES[:ti]
        opts = input_options(["v", "r"])
        variants = ["s", "f", "a"] + (["s2", "s3"] if ti == 0 else [])
        for f in FLAVOURS:
            for inputs in itertools.product(opts, repeat=len(lower)):
                for var in variants:
                    name = f"c_{t.lower()}{f.lower()}__{sig_code(inputs)}__{var}"
                    gen_ctor(name, t + f, list(inputs), lower, var[0])
        if ti == 0:
            # cloning policy given on the ANNOTATION (a registration may override it)
            gen_ctor("c_t0k__0__c", "T0K", [], [], "c", extra_attr=", clone_if_necessary")
            catalog[-1]["annotated_cin"] = True
    w()


# ------------------------------------------------------------------------------------------------
# request handlers for the DI / MW / ERR / SCOPE families
# ------------------------------------------------------------------------------------------------
def gen_handler(name, path, inputs, fallible, methods_attr="get"):
    ps, tags, cat = params(inputs, TYPES)
    ident = name.upper()
    ret = "Result<pavex::Response, ErrH>" if fallible else "pavex::Response"
    w(f"#[pavex::get(path = \"{path}\", id = \"{ident}\")]")
    w(f"pub fn {name}({', '.join(ps)}) -> {ret} {{")
    w(f"    rt::call(\"handler\", \"{ident}\", {tags_expr(tags)});")
    if fallible:
        w(f"    if rt::fails(\"{ident}\") {{ return Err(ErrH::new(\"{ident}\")); }}")
        w(f"    Ok(rt::respond(\"h\", \"{ident}\"))")
    else:
        w(f"    rt::respond(\"h\", \"{ident}\")")
    w("}")
    catalog.append({"id": ident, "kind": "handler", "macro": "route", "inputs": cat, "fallible": fallible,
                    "err": "ErrH" if fallible else None, "path": path, "methods": ["GET"]})


# A reduced signature set used wherever the full product would be too large.
SMALL_SIGS = [(None, None, None)] + \
    [((f, m), None, None) for f in FLAVOURS for m in ("v", "r", "m")] + \
    [(None, (f, m), None) for f in ("P", "K") for m in ("v", "r")] + \
    [(("P", "r"), ("P", "r"), None), (("K", "v"), ("K", "v"), None), (("P", "r"), ("K", "v"), None)]


def gen_handlers():
    opts = input_options(["v", "r", "m"])
    # slot 0: the full product over (T0, T1, T2), infallible + fallible
    for inputs in itertools.product(opts, repeat=3):
        for fall in (False, True):
            name = f"h0__{sig_code(inputs)}__{'f' if fall else 'i'}"
            gen_handler(name, "/r0", list(inputs), fall)
    # slots 1..2: reduced signature set, other paths
    for slot in (1, 2):
        for inputs in SMALL_SIGS:
            for fall in (False, True):
                name = f"h{slot}__{sig_code(inputs)}__{'f' if fall else 'i'}"
                gen_handler(name, f"/r{slot}", list(inputs), fall)
    w()


# ------------------------------------------------------------------------------------------------
# middlewares
# ------------------------------------------------------------------------------------------------
MW_T1_OPTS = [None, ("K", "v"), ("P", "r"), ("P", "m")]


def gen_mws():
    opts0 = input_options(["v", "r", "m"])
    for idx in (1, 2, 3):
        for i0 in opts0:
            for i1 in MW_T1_OPTS:
                inputs = [i0, i1]
                ps, tags, cat = params(inputs, TYPES[:2])
                for fall in (False, True):
                    suffix = f"{sig_code(inputs)}__{'f' if fall else 'i'}"
                    # ---- pre
                    name = f"pre{idx}__{suffix}"
                    ident = name.upper()
                    ret = "Result<pavex::middleware::Processing, ErrPre>" if fall else "pavex::middleware::Processing"
                    w(f"#[pavex::pre_process(id = \"{ident}\")]")
                    w(f"pub fn {name}({', '.join(ps)}) -> {ret} {{")
                    w(f"    rt::call(\"pre\", \"{ident}\", {tags_expr(tags)});")
                    if fall:
                        w(f"    if rt::fails(\"{ident}\") {{ return Err(ErrPre::new(\"{ident}\")); }}")
                    early = f"pavex::middleware::Processing::EarlyReturn(rt::respond(\"early\", \"{ident}\"))"
                    cont = "pavex::middleware::Processing::Continue"
                    if fall:
                        w(f"    if rt::early(\"{ident}\") {{ Ok({early}) }} else {{ Ok({cont}) }}")
                    else:
                        w(f"    if rt::early(\"{ident}\") {{ {early} }} else {{ {cont} }}")
                    w("}")
                    catalog.append({"id": ident, "kind": "pre", "macro": "pre_process", "inputs": cat, "fallible": fall,
                                    "err": "ErrPre" if fall else None, "idx": idx})
                    # ---- post
                    name = f"post{idx}__{suffix}"
                    ident = name.upper()
                    ret = "Result<pavex::Response, ErrPost>" if fall else "pavex::Response"
                    w(f"#[pavex::post_process(id = \"{ident}\")]")
                    w(f"pub fn {name}({', '.join(['resp: pavex::Response'] + ps)}) -> {ret} {{")
                    w(f"    rt::call(\"post\", \"{ident}\", {tags_expr(tags)});")
                    if fall:
                        w(f"    if rt::fails(\"{ident}\") {{ return Err(ErrPost::new(\"{ident}\")); }}")
                        w("    Ok(resp)")
                    else:
                        w("    resp")
                    w("}")
                    catalog.append({"id": ident, "kind": "post", "macro": "post_process", "inputs": cat, "fallible": fall,
                                    "err": "ErrPost" if fall else None, "idx": idx})
                    # ---- wrap
                    name = f"wrap{idx}__{suffix}"
                    ident = name.upper()
                    ret = "Result<pavex::Response, ErrW>" if fall else "pavex::Response"
                    w(f"#[pavex::wrap(id = \"{ident}\")]")
                    w(f"pub async fn {name}<C>({', '.join(['next: pavex::middleware::Next<C>'] + ps)}) -> {ret}")
                    w("where C: std::future::IntoFuture<Output = pavex::Response> {")
                    w(f"    rt::call(\"wrap\", \"{ident}\", {tags_expr(tags)});")
                    if fall:
                        w(f"    if rt::fails(\"{ident}\") {{ return Err(ErrW::new(\"{ident}\")); }}")
                    w("    let resp = next.await;")
                    w(f"    rt::ev(format!(\"wrapexit {ident}\"));")
                    if fall:
                        w(f"    if rt::fails_after(\"{ident}\") {{ return Err(ErrW::new(\"{ident}\")); }}")
                        w("    Ok(resp)")
                    else:
                        w("    resp")
                    w("}")
                    catalog.append({"id": ident, "kind": "wrap", "macro": "wrap", "inputs": cat, "fallible": fall,
                                    "err": "ErrW" if fall else None, "idx": idx})
    w()


# ------------------------------------------------------------------------------------------------
# error handlers, observers, fallbacks
# ------------------------------------------------------------------------------------------------
EH_INPUTS = [None, ("P", "r"), ("K", "v"), ("K", "r"), ("Y", "v"), ("P", "v"), ("Y", "r")]


EH_T1_INPUTS = [None, ("P", "r"), ("K", "r")]


def gen_error_handlers():
    for e in ERRS + ["PavexError"]:
        ety = "pavex::Error" if e == "PavexError" else e
        for idx in (1, 2):
            for i0, i1 in itertools.product(EH_INPUTS, EH_T1_INPUTS):
                ps, tags, cat = params([i0, i1], TYPES[:2])
                # historical names keep a single code when there is no T1 input
                name = f"eh_{e.lower()}_{idx}__{sig_code([i0]) if i1 is None else sig_code([i0, i1])}"
                ident = name.upper()
                w(f"#[pavex::error_handler(id = \"{ident}\")]")
                w(f"pub fn {name}({', '.join(['#[px(error_ref)] e: &' + ety] + ps)}) -> pavex::Response {{")
                w(f"    rt::call_err(\"eh\", \"{ident}\", &e.to_string(), {tags_expr(tags)});")
                w(f"    rt::respond_status(\"eh\", \"{ident}\", {510 if e != 'PavexError' else 511})")
                w("}")
                catalog.append({"id": ident, "kind": "eh", "macro": "error_handler", "inputs": cat, "err": ety, "idx": idx})
    w()


OBS_INPUTS = [None, ("P", "r"), ("K", "r"), ("K", "v"), ("Y", "v")]


def gen_observers():
    for idx in (1, 2, 3):
        for i0, i1 in itertools.product(OBS_INPUTS, EH_T1_INPUTS):
            ps, tags, cat = params([i0, i1], TYPES[:2])
            name = f"obs{idx}__{sig_code([i0]) if i1 is None else sig_code([i0, i1])}"
            ident = name.upper()
            w(f"#[pavex::error_observer(id = \"{ident}\")]")
            w(f"pub fn {name}({', '.join(['e: &pavex::Error'] + ps)}) {{")
            w(f"    rt::call_err(\"obs\", \"{ident}\", &e.to_string(), {tags_expr(tags)});")
            w("}")
            catalog.append({"id": ident, "kind": "obs", "macro": "error_observer", "inputs": cat, "idx": idx})
    w()


def gen_fallbacks():
    for idx in (1, 2, 3):
        for with_am in (False, True):
            for i0 in [None, ("P", "r")]:
                ps, tags, cat = params([i0], TYPES[:1])
                name = f"fb{idx}__{'am' if with_am else 'na'}_{sig_code([i0])}"
                ident = name.upper()
                allp = (["am: &pavex::router::AllowedMethods"] if with_am else []) + ps
                w(f"#[pavex::fallback(id = \"{ident}\")]")
                w(f"pub fn {name}({', '.join(allp)}) -> pavex::Response {{")
                if with_am:
                    w(f"    rt::call_allowed(\"fallback\", \"{ident}\", am, {tags_expr(tags)});")
                else:
                    w(f"    rt::call(\"fallback\", \"{ident}\", {tags_expr(tags)});")
                w(f"    rt::respond_status(\"fb\", \"{ident}\", {440 + idx})")
                w("}")
                catalog.append({"id": ident, "kind": "fallback", "macro": "fallback", "inputs": cat, "allowed_methods": with_am, "idx": idx})
    w()


# ------------------------------------------------------------------------------------------------
# routes for the ROUTE family (no DI inputs; path/method alphabet)
# ------------------------------------------------------------------------------------------------
ROUTE_PATHS = {
    "root": "/", "a": "/a", "ab": "/a/b", "ax": "/a/{x}", "ar": "/a/{*r}", "xb": "/{x}/b", "x": "/{x}",
    "b": "/b", "ay": "/a/{y}", "axc": "/a/{x}/c",
}
ROUTE_METHODS = {
    "get": ('method = "GET"', ["GET"]),
    "post": ('method = "POST"', ["POST"]),
    "gp": ('method = ["GET", "POST"]', ["GET", "POST"]),
    "any": ("allow(any_method)", "ANY"),
    "foo": ('method = "FOO", allow(non_standard_methods)', ["FOO"]),
    "anyns": ("allow(any_method, non_standard_methods)", "ANYNS"),
}


def gen_routes():
    for pk, path in ROUTE_PATHS.items():
        for mk, (attr, methods) in ROUTE_METHODS.items():
            name = f"rt_{pk}_{mk}"
            ident = name.upper()
            w(f"#[pavex::route({attr}, path = \"{path}\", id = \"{ident}\")]")
            w(f"pub fn {name}(p: &pavex::request::path::RawPathParams<'_, '_>) -> pavex::Response {{")
            w(f"    rt::call_params(\"handler\", \"{ident}\", p);")
            w(f"    rt::respond(\"h\", \"{ident}\")")
            w("}")
            catalog.append({"id": ident, "kind": "handler", "macro": "route", "inputs": [], "fallible": False, "err": None,
                            "path": path, "methods": methods, "route_family": True})
    # path-parameter structs (C08: field not in the template)
    w("#[pavex::request::path::PathParams]")
    w("pub struct PpX { pub x: String }")
    w("#[pavex::request::path::PathParams]")
    w("pub struct PpY { pub y: String }")
    for sname, sty, path, good in [("pp_ok", "PpX", "/a/{x}", True), ("pp_bad", "PpY", "/a/{x}", False),
                                   ("pp_bad_static", "PpX", "/a/b", False)]:
        ident = sname.upper()
        w(f"#[pavex::get(path = \"{path}\", id = \"{ident}\")]")
        w(f"pub fn {sname}(p: &pavex::request::path::PathParams<{sty}>) -> pavex::Response {{")
        w(f"    let _ = p; rt::call(\"handler\", \"{ident}\", &[]);")
        w(f"    rt::respond(\"h\", \"{ident}\")")
        w("}")
        catalog.append({"id": ident, "kind": "handler", "macro": "route", "inputs": [], "fallible": False, "err": None,
                        "path": path, "methods": ["GET"], "path_params_ok": good})
    w()


# ------------------------------------------------------------------------------------------------
# rule-breaking members (C08 plants) and a few special shapes
# ------------------------------------------------------------------------------------------------
def gen_bulk_modules():
    """Route modules registered in bulk with `bp.routes(from![crate::bulkN])`."""
    for m in (1, 2):
        w(f"pub mod bulk{m} {{")
        w("    use crate::rt;")
        for r in ("a", "b"):
            name = f"bk{m}_{r}"
            ident = name.upper()
            path = f"/bulk{m}/{r}"
            w(f"    #[pavex::get(path = \"{path}\", id = \"{ident}\")]")
            w(f"    pub fn {name}() -> pavex::Response {{")
            w(f"        rt::call(\"handler\", \"{ident}\", &[]);")
            w(f"        rt::respond(\"h\", \"{ident}\")")
            w("    }")
            catalog.append({"id": ident, "kind": "handler", "macro": "route", "inputs": [], "fallible": False, "err": None,
                            "path": path, "methods": ["GET"], "module": f"crate::bulk{m}"})
        w("}")
    w()


def gen_plants():
    w("""
// ---- dependency cycle
#[derive(Debug)] pub struct CycA;
#[derive(Debug)] pub struct CycB;
#[derive(Debug)] pub struct CycC;
#[pavex::request_scoped(id = "C_CYC_A")] pub fn c_cyc_a(_b: &CycB) -> CycA { CycA }
#[pavex::request_scoped(id = "C_CYC_B")] pub fn c_cyc_b(_a: &CycA) -> CycB { CycB }
#[pavex::request_scoped(id = "C_CYC_A3")] pub fn c_cyc_a3(_b: &CycC) -> CycA { CycA }
#[pavex::request_scoped(id = "C_CYC_C3")] pub fn c_cyc_c3(_b: &CycB) -> CycC { CycC }
#[pavex::get(path = "/r0", id = "H0_CYC_A")] pub fn h0_cyc_a(_a: &CycA) -> pavex::Response { rt::respond("h", "H0_CYC_A") }

// ---- a type that is neither Send nor Sync
#[derive(Debug, Clone)] pub struct NotSend(pub std::rc::Rc<u8>);
#[pavex::singleton(id = "C_NOTSEND")] pub fn c_notsend() -> NotSend { NotSend(std::rc::Rc::new(0)) }
#[pavex::get(path = "/r0", id = "H0_NOTSEND_R")] pub fn h0_notsend_r(_a: &NotSend) -> pavex::Response { rt::respond("h", "H0_NOTSEND_R") }
// ---- Send but not Sync
#[derive(Debug)] pub struct NotSync(pub std::cell::Cell<u8>);
#[pavex::singleton(id = "C_NOTSYNC")] pub fn c_notsync() -> NotSync { NotSync(std::cell::Cell::new(0)) }
#[pavex::get(path = "/r0", id = "H0_NOTSYNC_R")] pub fn h0_notsync_r(_a: &NotSync) -> pavex::Response { rt::respond("h", "H0_NOTSYNC_R") }

// ---- constructors with a `&mut` input
#[pavex::request_scoped(id = "C_T1P__MUT")] pub fn c_t1p__mut(a0: &mut T0P) -> T1P { T1P::mk("C_T1P__MUT", &[a0.tag()]) }
#[pavex::request_scoped(id = "C_T1K__MUT")] pub fn c_t1k__mut(a0: &mut T0K) -> T1K { T1K::mk("C_T1K__MUT", &[a0.tag()]) }

// ---- prebuilt types
#[derive(Debug, Clone)]
#[pavex::prebuilt(id = "PB_K")]
pub struct PbK { pub id: u64 }
#[derive(Debug)]
#[pavex::prebuilt(id = "PB_P")]
pub struct PbP { pub id: u64 }
impl PbK { pub fn tag(&self) -> String { format!("PbK#{}", self.id) } }
impl PbP { pub fn tag(&self) -> String { format!("PbP#{}", self.id) } }
impl crate::Make for PbK { fn make() -> Self { PbK { id: rt::next_id() } } }
impl crate::Make for PbP { fn make() -> Self { PbP { id: rt::next_id() } } }
#[pavex::get(path = "/r0", id = "H0_PBK_R")] pub fn h0_pbk_r(a: &PbK) -> pavex::Response { rt::call("handler", "H0_PBK_R", &[a.tag()]); rt::respond("h", "H0_PBK_R") }
#[pavex::get(path = "/r0", id = "H0_PBK_V")] pub fn h0_pbk_v(a: PbK) -> pavex::Response { rt::call("handler", "H0_PBK_V", &[a.tag()]); rt::respond("h", "H0_PBK_V") }
#[pavex::get(path = "/r0", id = "H0_PBP_R")] pub fn h0_pbp_r(a: &PbP) -> pavex::Response { rt::call("handler", "H0_PBP_R", &[a.tag()]); rt::respond("h", "H0_PBP_R") }
#[pavex::get(path = "/r0", id = "H0_PBP_V")] pub fn h0_pbp_v(a: PbP) -> pavex::Response { rt::call("handler", "H0_PBP_V", &[a.tag()]); rt::respond("h", "H0_PBP_V") }

// ---- generic constructor (specialised per use site)
#[derive(Debug)] pub struct Wrap<T> { pub inner_tag: String, pub id: u64, _t: std::marker::PhantomData<T> }
#[pavex::request_scoped(id = "C_WRAP_GENERIC")]
pub fn c_wrap_generic<T: crate::Tagged>(t: &T) -> Wrap<T> { let id = rt::new_value("Wrap", "C_WRAP_GENERIC", &[t.tagged()]); Wrap { inner_tag: t.tagged(), id, _t: std::marker::PhantomData } }
#[pavex::get(path = "/r0", id = "H0_WRAP_T0P")] pub fn h0_wrap_t0p(a: &Wrap<T0P>) -> pavex::Response { rt::call("handler", "H0_WRAP_T0P", &[format!("Wrap#{}/{}", a.id, a.inner_tag)]); rt::respond("h", "H0_WRAP_T0P") }
#[pavex::get(path = "/r1", id = "H1_WRAP_T0K")] pub fn h1_wrap_t0k(a: &Wrap<T0K>) -> pavex::Response { rt::call("handler", "H1_WRAP_T0K", &[format!("Wrap#{}/{}", a.id, a.inner_tag)]); rt::respond("h", "H1_WRAP_T0K") }
""")
    for t in TYPES:
        for f in FLAVOURS:
            w(f"impl crate::Tagged for {t}{f} {{ fn tagged(&self) -> String {{ self.tag() }} }}")
    w()
    for cid, kind, extra in [
        ("C_CYC_A", "ctor", {"out": "CycA", "inputs": [{"type": "CycB", "mode": "r"}]}),
        ("C_CYC_B", "ctor", {"out": "CycB", "inputs": [{"type": "CycA", "mode": "r"}]}),
        ("C_CYC_A3", "ctor", {"out": "CycA", "inputs": [{"type": "CycC", "mode": "r"}]}),
        ("C_CYC_C3", "ctor", {"out": "CycC", "inputs": [{"type": "CycB", "mode": "r"}]}),
        ("C_NOTSEND", "ctor", {"out": "NotSend", "inputs": []}),
        ("C_NOTSYNC", "ctor", {"out": "NotSync", "inputs": []}),
        ("C_T1P__MUT", "ctor", {"out": "T1P", "inputs": [{"type": "T0P", "mode": "m"}]}),
        ("C_T1K__MUT", "ctor", {"out": "T1K", "inputs": [{"type": "T0K", "mode": "m"}]}),
        ("C_WRAP_GENERIC", "ctor", {"out": "Wrap<T>", "inputs": [{"type": "T", "mode": "r"}], "generic": True}),
    ]:
        d = {"id": cid, "kind": kind, "macro": "constructor", "fallible": False, "async": False, "err": None, "plant": True}
        d.update(extra)
        catalog.append(d)
    for hid, path, inputs in [
        ("H0_CYC_A", "/r0", [{"type": "CycA", "mode": "r"}]),
        ("H0_NOTSEND_R", "/r0", [{"type": "NotSend", "mode": "r"}]),
        ("H0_NOTSYNC_R", "/r0", [{"type": "NotSync", "mode": "r"}]),
        ("H0_PBK_R", "/r0", [{"type": "PbK", "mode": "r"}]), ("H0_PBK_V", "/r0", [{"type": "PbK", "mode": "v"}]),
        ("H0_PBP_R", "/r0", [{"type": "PbP", "mode": "r"}]), ("H0_PBP_V", "/r0", [{"type": "PbP", "mode": "v"}]),
        ("H0_WRAP_T0P", "/r0", [{"type": "Wrap<T0P>", "mode": "r"}]),
        ("H1_WRAP_T0K", "/r1", [{"type": "Wrap<T0K>", "mode": "r"}]),
    ]:
        catalog.append({"id": hid, "kind": "handler", "macro": "route", "inputs": inputs, "fallible": False, "err": None,
                        "path": path, "methods": ["GET"], "plant": True})
    catalog.append({"id": "PB_K", "kind": "prebuilt", "macro": "prebuilt", "out": "PbK"})
    catalog.append({"id": "PB_P", "kind": "prebuilt", "macro": "prebuilt", "out": "PbP"})


RT = r'''//! Run-time support for the instrumented component library: event trace, fault plan, ids.
use std::collections::BTreeSet;
use std::sync::Mutex;
use std::sync::atomic::{AtomicU64, Ordering};

static TRACE: Mutex<Vec<String>> = Mutex::new(Vec::new());
static PLAN: Mutex<BTreeSet<String>> = Mutex::new(BTreeSet::new());
static NEXT_ID: AtomicU64 = AtomicU64::new(1);

pub fn next_id() -> u64 { NEXT_ID.fetch_add(1, Ordering::SeqCst) }
pub fn ev(s: String) { TRACE.lock().unwrap().push(s); }
/// Take (and clear) the trace recorded so far.
pub fn take() -> Vec<String> { std::mem::take(&mut *TRACE.lock().unwrap()) }
/// Fault plan for the next request: entries `fail:<ID>`, `failafter:<ID>`, `early:<ID>`.
pub fn set_plan(entries: &[String]) { let mut p = PLAN.lock().unwrap(); p.clear(); for e in entries { p.insert(e.clone()); } }
pub fn fails(id: &str) -> bool { PLAN.lock().unwrap().contains(&format!("fail:{id}")) }
pub fn fails_after(id: &str) -> bool { PLAN.lock().unwrap().contains(&format!("failafter:{id}")) }
pub fn early(id: &str) -> bool { PLAN.lock().unwrap().contains(&format!("early:{id}")) }

pub fn tag(ty: &str, id: u64, root: u64, by: &str, cloned: bool) -> String {
    format!("{ty}#{id}/{root}/{by}/{}", if cloned { "c" } else { "o" })
}
pub fn new_value(ty: &str, by: &str, ins: &[String]) -> u64 {
    let id = next_id();
    ev(format!("new {ty} id={id} by={by} in=[{}]", ins.join(",")));
    id
}
pub fn cloned(ty: &str, src: u64, root: u64, by: &str) -> u64 {
    let id = next_id();
    ev(format!("clone {ty} src={src} new={id} root={root} by={by}"));
    id
}
pub fn call(kind: &str, id: &str, ins: &[String]) { ev(format!("call {kind} {id} in=[{}]", ins.join(","))); }
pub fn call_err(kind: &str, id: &str, err: &str, ins: &[String]) { ev(format!("call {kind} {id} err={err} in=[{}]", ins.join(","))); }
pub fn call_allowed(kind: &str, id: &str, am: &pavex::router::AllowedMethods, ins: &[String]) {
    let allowed = match am {
        pavex::router::AllowedMethods::Some(l) => { let mut v: Vec<String> = l.iter().map(|m| m.to_string()).collect(); v.sort(); v.join("+") }
        pavex::router::AllowedMethods::All => "ALL".to_string(),
    };
    ev(format!("call {kind} {id} allowed={allowed} in=[{}]", ins.join(",")));
}
pub fn call_params(kind: &str, id: &str, p: &pavex::request::path::RawPathParams<'_, '_>) {
    let mut v: Vec<String> = p.iter().map(|(k, v)| format!("{k}={}", v.as_str())).collect();
    v.sort();
    ev(format!("call {kind} {id} params={} in=[]", v.join("&")));
}
pub fn respond(kind: &str, id: &str) -> pavex::Response {
    pavex::Response::ok().set_typed_body(format!("{kind}:{id}"))
}
pub fn respond_status(kind: &str, id: &str, status: u16) -> pavex::Response {
    pavex::Response::new(pavex::http::StatusCode::from_u16(status).unwrap()).set_typed_body(format!("{kind}:{id}"))
}
'''

LIB_HEAD = '''//! GENERATED by /verif/engines/e2e/gen_app.py — do not edit.
//! Closed, instrumented component library for the e2e engine (see /verif/DESIGN.md §3.1).
#![allow(non_snake_case, clippy::all, unused)]
pub mod rt;

/// Prebuilt types know how to build themselves for the runner's glue.
pub trait Make { fn make() -> Self; }
pub trait Tagged { fn tagged(&self) -> String; }

'''


def main():
    os.makedirs(f"{OUT}/src", exist_ok=True)
    gen_types()
    gen_errors()
    gen_ctors()
    gen_handlers()
    gen_mws()
    gen_error_handlers()
    gen_observers()
    gen_fallbacks()
    gen_routes()
    gen_bulk_modules()
    gen_plants()
    # plug-ins: engines/e2e/gen_app_extra_*.py, each exposing gen(w, catalog) (see EXTENDING.md)
    import glob
    import importlib.util
    here = os.path.dirname(os.path.abspath(__file__))
    for plug in sorted(glob.glob(f"{here}/gen_app_extra_*.py")):
        spec = importlib.util.spec_from_file_location(os.path.basename(plug)[:-3], plug)
        mod = importlib.util.module_from_spec(spec)
        spec.loader.exec_module(mod)
        mod.gen(w, catalog)
    lib = LIB_HEAD + "\n".join(src) + "\n"
    cargo = f'''[package]
name = "verif_app"
version = "0.1.0"
edition = "2024"

[lints.rust]
unexpected_cfgs = {{ level = "allow", check-cfg = ['cfg(pavex_ide_hint)'] }}

[dependencies]
pavex = {{ path = "{REPO}/runtime/pavex" }}
serde = {{ version = "1", features = ["derive"] }}
'''
    for path, content in [(f"{OUT}/src/lib.rs", lib), (f"{OUT}/src/rt.rs", RT), (f"{OUT}/Cargo.toml", cargo),
                          (f"{OUT}/catalog.json", json.dumps(catalog, indent=0, sort_keys=True))]:
        old = open(path).read() if os.path.exists(path) else None
        if old != content:
            with open(path, "w") as f:
                f.write(content)
    print(f"verif_app: {len(catalog)} components, {len(lib.splitlines())} lines")


if __name__ == "__main__":
    main()
