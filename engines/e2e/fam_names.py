"""Family `names` (C01, C09): identifiers that pavexc DERIVES from user names. `ApplicationState` gets one field per runtime
singleton, named after the type in snake_case; when that is a Rust keyword (strict, reserved or weak) or otherwise awkward the
name must be escaped, and the generated crate must still compile and serve. Every such singleton alone (borrowed by one route),
and every pair of a strict and a reserved keyword together."""
import itertools

import gen_app_extra_names as N
import oracles as O

FAM = "names"


def specs(tier):
    out = []

    def one(names):
        ops = [{"k": "ctor", "c": f"KW_{n.upper()}", "lc": "singleton"} for n in names]
        ops += [{"k": "nest", "prefix": f"/k{i}", "bp": {"ops": [{"k": "route", "c": f"HKW_{n.upper()}"}]}} for i, n in enumerate(names)]
        return {"id": "names_" + "_".join(n.lower() for n in names), "family": FAM, "bp": {"ops": ops},
                "requests": [{"method": "GET", "path": f"/k{i}/r0", "plan": []} for i in range(len(names))]}

    for n in N.KW:
        out.append(one([n]))
    pairs = [("Type", "Final"), ("Match", "Try"), ("Async", "Yield")] if tier == "quick" else list(itertools.combinations(N.KW[:16], 2))
    for a, b in pairs:
        out.append(one([a, b]))
    return out


def observe(tier):
    import lib_e2e as L
    import orchestrator
    sp = specs(tier)
    o = orchestrator.observe_specs(sp, f"{L.E2E_WORK}/{FAM}-{tier}")
    o["specs"] = sp
    o["built_specs"] = [s for s in sp if s["id"] in o["build"]]
    o["singles_gen"] = o["gen"]
    o["packs_gen"] = {}
    return o


def oracle_c01(obs, rep, tier):
    level, cov, asm = O.oracle_c01(obs, rep, tier)
    o = obs.get(FAM) or {}
    n = 0
    for spec in o.get("specs", []):
        run = (o.get("run") or {}).get(spec["id"])
        if not run:
            continue
        st = run.get("startup") or {}
        if not st.get("ok"):
            rep.violation(f"{FAM}:startup-failure", f"server of {spec['id']} did not start: {str(st)[:300]}", {"oracle": "C01", "spec": spec, "startup": st})
            continue
        for req, resp in zip(spec["requests"], run.get("responses", [])):
            n += 1
            if resp.get("status") != 200:
                rep.violation(f"{FAM}:route-status", f"{spec['id']} {req['path']}: status {resp.get('status')}", {"oracle": "C01", "spec": spec, "request": req})
    cov["names_requests"] = n
    return level, cov, asm


PROPERTIES = {"C01": (lambda tier: [FAM], oracle_c01), "C09": (lambda tier: [FAM], O.oracle_c09)}
