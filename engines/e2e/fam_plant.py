"""PLANT family (property C08, feeding C09): rule-breaking blueprints are rejected, never compiled.

Enumerated space
  bases    accepted, rule-abiding blueprints: the flat shapes of the existing families (di, dimw, mw, err;
           chosen by a deterministic greedy cover, simplest first, quota per family) plus, for each, the same
           shape one and two nesting levels deep with the constructors kept at the outer level. A base is a
           base only if the real pavexc of this run accepts it.
  plants   for every base, every rule of C08, every position where the rule is applicable: exactly one
           violation is planted by a small *edit script* (set a field / delete an op / insert an op).
           quick keeps one plant per (rule, position-class without levels, flat/nested); thorough keeps all.
  pairs    (thorough) all compatible unordered pairs of the quick-selected plants of 6 flat bases.
Oracle    `pavexc generate` exits non-zero with >= 1 ERROR diagnostic and leaves no new/changed src/lib.rs.
           A plant is judged only if the rule is *documented* for that position (see DOC below); otherwise it
           is counted under `unspecified`. Every invocation (bases, plants, pairs) feeds C09 (no panic, verdict,
           atomic failure).
"""
import collections
import copy
import itertools
import json
import os
import re

import families as F
import lib_e2e as L
import refmodel as M

# --------------------------------------------------------------------------------------------------
# Documentation basis of every rule (quoted; the oracle only judges plants whose rule has one).
# --------------------------------------------------------------------------------------------------
DOC = {
    "missing_constructor":
        "guide/dependency_injection/constructors.md: 'If the required input doesn't match any of the conditions above, "
        "Pavex will complain about a missing constructor.'; RoutingModifiers::nest rustdoc: 'If a route declared in `home_bp` "
        "tries to inject a `Session`, Pavex will report an error at compile-time, complaining that there is no registered "
        "constructor for `Session`. [...] all constructors imported in the `user_bp` blueprint are **private**'",
    "cycle":
        "pavexc diagnostic 'The dependency graph cannot contain cycles' (dependency_graph.rs); property C08 lists it; "
        "constructors.md 'Recursive dependencies': the recursion must end in a constructor with no inputs / primitive / prebuilt / config",
    "singleton_dep_request_scoped":
        "property C08 'a singleton that depends on a request-scoped type'; pavexc diagnostic 'Singletons can't depend on "
        "request-scoped components.'; constructors.md: singleton constructors are invoked 'before the application starts'",
    "singleton_two_scopes":
        "RoutingModifiers::nest rustdoc, section Singletons: 'a singleton constructor must be registered **exactly once** for each "
        "type. If multiple nested blueprints need access to the singleton, the constructor must be registered against a common "
        "parent blueprint'",
    "not_send_sync":
        "prebuilt_types.md: 'Pavex will treat it as a singleton and require it to implement the `Send` and `Sync` traits'; pavexc help "
        "text 'All singletons must implement the `Send` and `Sync` traits.' (application_state/thread_safety.rs)",
    "singleton_by_value":
        "CloningPolicy::NeverClone rustdoc: 'Pavex will return an error if cloning is necessary to generate code that satisfies Rust's "
        "borrow checker.'; pavexc: '`{type}` is a singleton and can't be moved out of `ApplicationState`'",
    "mut_ref_singleton": "pavexc 'You can't inject a mutable reference to a singleton'; property C08",
    "mut_ref_transient": "pavexc 'You can't inject a mutable reference to a transient type [...] The result of any mutation would be "
                         "immediately discarded.'; property C08",
    "mut_ref_cin_request_scoped": "pavexc mut_ref_to_cloneable_request_scoped; property C08",
    "mut_ctor_input":
        "guide/dependency_injection/constructors.md 'No mutations': 'Constructors are not allowed to take mutable references "
        "(i.e. `&mut T`) as inputs.'",
    "cin_not_clone":
        "CloningPolicy::CloneIfNecessary rustdoc: 'Pavex will invoke `.clone()` if it's necessary' + pavexc analyses/cloning.rs "
        "(cloneables_can_be_cloned: clone-if-necessary requires a Clone impl); property C08",
    "observer_fallible":
        "guide/errors/error_observers.md 'Strictly infallible': 'they **can't depend on fallible components**, neither directly nor "
        "indirectly. [...] Pavex will detect this scenario and return an error during code generation'",
    "route_conflict":
        "property C08 'two routes that can match the same request'; pavexc router.rs detect_method_conflicts: 'make sure that we don't "
        "have any conflicts—i.e. multiple handlers registered for the same path+method combination' (the guide itself has no sentence "
        "on route conflicts)",
    "path_param_field":
        "guide/request_data/path/path_parameters.md: 'All struct fields must be named after the path parameters declared in the path "
        "pattern' + footnote 'If a field name doesn't match a path parameter name, Pavex will detect it at compile-time and return an error.'",
}

# first-diagnostic patterns that show a plant was rejected *for the planted rule* (non-vacuity counter only)
EXPECT = {
    "missing_constructor": r"can't find a constructor",
    "cycle": r"cannot contain cycles|There is a cycle",
    "singleton_dep_request_scoped": r"Singletons can't depend on request-scoped",
    "singleton_dep_transient": r"Singletons can't depend",
    "singleton_two_scopes": r"multiple constructors for the same singleton|singleton must be registered once",
    "not_send_sync": r"doesn't implement the `core::marker::(Send|Sync)` trait",
    "singleton_by_value": r"borrow checker|can't be moved out|consumes",
    "mut_ref_singleton": r"mutable reference to a singleton",
    "mut_ref_transient": r"mutable reference to a transient",
    "mut_ref_cin_request_scoped": r"as an input parameter to|clone|mutable",
    "mut_ctor_input": r"[Cc]onstructors can't|mutable reference|&mut",
    "cin_not_clone": r"doesn't implement the `core::clone::Clone` trait|Clone",
    "observer_fallible": r"Error observers can't depend on a type with a fallible constructor",
    "route_conflict": r"different request handlers for|conflicts with the path of another route",
    "path_param_field": r"extract path parameters",
}

SMALL_RULE_QUOTA = 3  # quick: plants per class for rules with few position classes
SMALL_RULE_MAX_CLASSES = 8
QUOTA = {"quick": {"di": 4, "dimw": 2, "mw": 1, "err": 2}, "thorough": {"di": 9, "dimw": 4, "mw": 3, "err": 4}}
CANDIDATES_PER_FAMILY = 500
N_PAIR_BASES = 6

TYPE_RE = re.compile(r"T(\d)([PKY])")


# --------------------------------------------------------------------------------------------------
# op trees and edit scripts
# --------------------------------------------------------------------------------------------------
def walk(ops, path=()):
    """Yield (path, op); path = indexes through nested `ops` lists; level of an op = len(path) - 1."""
    for i, op in enumerate(ops):
        yield path + (i,), op
        if op["k"] == "nest":
            yield from walk(op["bp"]["ops"], path + (i,))


def node_ops(ops, node_path):
    for i in node_path:
        ops = ops[i]["bp"]["ops"]
    return ops


def apply_edits(ops, edits):
    """edits: ("set", path, {k: v|None}) | ("del", path) | ("ins", node_path, idx, op). Indexes refer to the
    original tree. Returns a new tree."""
    sets = collections.defaultdict(dict)
    dels = set()
    inss = collections.defaultdict(list)
    for e in edits:
        if e[0] == "set":
            sets[tuple(e[1])].update(e[2])
        elif e[0] == "del":
            dels.add(tuple(e[1]))
        elif e[0] == "ins":
            inss[(tuple(e[1]), e[2])].append(copy.deepcopy(e[3]))
        else:
            raise AssertionError(e)

    def rebuild(node, node_path):
        out = []
        for i, op in enumerate(node):
            out.extend(inss.get((node_path, i), []))
            p = node_path + (i,)
            if p in dels:
                continue
            new = {k: v for k, v in op.items() if k != "bp"}
            for k, v in sets.get(p, {}).items():
                if v is None:
                    new.pop(k, None)
                else:
                    new[k] = v
            if op["k"] == "nest":
                new["bp"] = {"ops": rebuild(op["bp"]["ops"], p)}
            out.append(new)
        out.extend(inss.get((node_path, len(node)), []))
        return out

    return rebuild(ops, ())


def edits_compatible(a, b):
    ta = {(tuple(e[1]), k) for e in a if e[0] == "set" for k in e[2]} | {(tuple(e[1]), "*") for e in a if e[0] == "del"}
    tb = {(tuple(e[1]), k) for e in b if e[0] == "set" for k in e[2]} | {(tuple(e[1]), "*") for e in b if e[0] == "del"}
    pa = {p for p, _ in ta}
    pb = {p for p, _ in tb}
    if ta & tb:
        return False
    # a set on an op the other deletes
    if {p for p, k in ta if k == "*"} & pb or {p for p, k in tb if k == "*"} & pa:
        return False
    return True


def C(c, lc="request_scoped", **kw):
    d = {"k": "ctor", "c": c, "lc": lc}
    d.update(kw)
    return d


def R(c):
    return {"k": "route", "c": c}


def NEST(ops, prefix=None):
    d = {"k": "nest", "bp": {"ops": ops}}
    if prefix:
        d["prefix"] = prefix
    return d


# --------------------------------------------------------------------------------------------------
# analysis of a base
# --------------------------------------------------------------------------------------------------
class Base:
    def __init__(self, bid, ops, origin):
        self.id = bid
        self.ops = ops
        self.origin = origin  # {"family", "index", "nesting": 0|1|2}
        self.spec = {"id": bid, "family": "plant", "bp": {"ops": ops}}
        self.an = M.Analysis(self.spec)
        self.path_of = {id(op): p for p, op in walk(ops)}
        self.route = self.an.routes[0] if self.an.routes else None
        self.P = M.Pipeline(self.an, self.route) if self.route else None
        self.D = M.Deps(self.an, self.P) if self.route else None
        # main chain: node paths from the root down to the blueprint that holds the first route
        chain = []
        n = self.route.node if self.route else self.an.root
        while n is not None:
            chain.append(tuple(n.index_path))
            n = n.parent
        self.chain = list(reversed(chain))
        self.depth = len(self.chain) - 1
        self.types = {}
        if self.D:
            for ty, (op, owner) in self.D.ctor_of.items():
                self.types[ty] = (op, owner)
        self.has_fallible = bool(self.D) and any(M.cat(c).get("fallible") for c in self.D.used)

    def level_of_op(self, op):
        return len(self.path_of[id(op)]) - 1

    def level_of_node(self, node):
        return len(node.index_path)

    def continuing_index(self, lvl):
        """Index, inside the chain blueprint at level `lvl`, of the op that continues the chain (the nest leading
        deeper, or the route at the deepest level): middlewares/observers inserted before it apply to the route."""
        if lvl < self.depth:
            return self.chain[lvl + 1][-1]
        return self.path_of[id(self.route.op)][-1]

    def consumers(self, ty):
        """[(cid, kind, mode, op-or-None)] of `ty` in the first route's pipeline."""
        out = []
        ops_by_c = {}
        for p, op in walk(self.ops):
            if "c" in op:
                ops_by_c.setdefault(op["c"], op)
        for (cid, kind, t, mode) in self.D.sites:
            if t == ty:
                out.append((cid, kind, mode, ops_by_c.get(cid)))
        return out


def mode_variant(cid, ty, newmode):
    """Id of the same component with the mode of its `ty` input changed, if the catalog has it."""
    cat = M.load_catalog()
    m = re.fullmatch(r"HX_(T0[PKY])_([RVM])", cid)
    if m:
        new = f"HX_{m.group(1)}_{newmode.upper()}"
        return new if new in cat and new != cid and m.group(1) == ty else None
    t = TYPE_RE.fullmatch(ty)
    if not t or cat[cid].get("plant"):
        return None
    n, f = int(t.group(1)), t.group(2)
    parts = cid.split("__")
    kind = cat[cid]["kind"]
    idx = 1 if kind in ("handler", "pre", "post", "wrap", "ctor") else len(parts) - 1
    if idx >= len(parts):
        return None
    codes = parts[idx].split("_")
    if n >= len(codes) or codes[n] == "0" or not codes[n].startswith(f):
        return None
    codes[n] = f + newmode.upper()
    new = "__".join(parts[:idx] + ["_".join(codes)] + parts[idx + 1:])
    return new if new in cat and new != cid else None


def kinds_label(cons):
    return "+".join(sorted({k for _, k, _, _ in cons})) or "none"


# --------------------------------------------------------------------------------------------------
# planters: Base -> [plant]; plant = {"rule", "pos", "edits", "documented", "why_unspecified"?}
# --------------------------------------------------------------------------------------------------
def plant(rule, pos, edits, documented=True, why=None, key=None):
    """key: abstract defect class used in the violation key (default: the position without level numbers)."""
    d = {"rule": rule, "pos": pos, "edits": edits, "documented": documented and rule in DOC, "key": key}
    if why:
        d["why_unspecified"] = why
    return d


def p_missing(b):
    out = []
    for ty, (op, owner) in b.types.items():
        if op["k"] != "ctor":
            continue
        cons = b.consumers(ty)
        path = b.path_of[id(op)]
        lc = b.level_of_op(op)
        lr = b.depth
        kl = kinds_label(cons)
        out.append(plant("missing_constructor", f"removed:{kl}@L{lr}:ctor@L{lc}", [("del", path)]))
        t = TYPE_RE.fullmatch(ty)
        own = None
        if t and t.group(1) == "0":
            own = R(f"HX_T0{t.group(2)}_R")
        elif t and t.group(1) == "1" and t.group(2) in "PK":
            own = R(f"H1__0_{t.group(2)}R_0__I")
        # the constructor lives only in a nested blueprint that is not on the route's chain
        if own is not None and not M.cat(op["c"]).get("inputs"):
            sib = NEST([copy.deepcopy(op), own], prefix="/sib")
            for lvl in range(lc, b.depth + 1):
                geom = "child_of_route_bp" if lvl == b.depth else "sibling_of_route_bp"
                out.append(plant("missing_constructor", f"{geom}:{kl}@L{lr}:ctor@L{lvl + 1}",
                                 [("del", path), ("ins", b.chain[lvl], len(node_ops(b.ops, b.chain[lvl])), sib)]))
    return out


def p_cycle(b):
    out = []
    cat = M.load_catalog()
    # back edges through the ordinary types
    t0 = [(ty, v) for ty, v in b.types.items() if ty.startswith("T0") and v[0]["k"] == "ctor"]
    for ty0, (op0, _) in t0:
        f0 = ty0[2]
        path0 = b.path_of[id(op0)]
        for ty, (op, _) in b.types.items():
            if op["k"] != "ctor" or ty == ty0:
                continue
            ins = [i["type"] for i in M.cat(op["c"]).get("inputs", [])]
            if ty0 not in ins:
                continue
            for mode in ("R", "V"):
                back = f"C_T0{f0}__BACK_{ty}{mode}"
                if back in cat:
                    out.append(plant("cycle", f"back_edge2:{ty[:2]}{mode}:ctor@L{b.level_of_op(op0)}:{kinds_label(b.consumers(ty))}@L{b.depth}",
                                     [("set", path0, {"c": back})]))
        if "T2P" in b.types and b.types["T2P"][0]["k"] == "ctor":
            ins2 = [i["type"] for i in M.cat(b.types["T2P"][0]["c"]).get("inputs", [])]
            t1s = [t for t in ins2 if t.startswith("T1")]
            via_t1 = any(ty0 in [i["type"] for i in M.cat(b.types[t][0]["c"]).get("inputs", [])] for t in t1s if t in b.types)
            if ty0 in ins2 or via_t1:
                n = 2 if ty0 in ins2 else 3
                out.append(plant("cycle", f"back_edge{n}:T2:ctor@L{b.level_of_op(op0)}", [("set", path0, {"c": f"C_T0{f0}__BACK_T2PR"})]))
        out.append(plant("cycle", f"self_loop:ctor@L{b.level_of_op(op0)}:{kinds_label(b.consumers(ty0))}@L{b.depth}",
                         [("set", path0, {"c": f"C_T0{f0}__SELF"})]))
    # added cyclic components CycA/CycB(/CycC) with a consumer of every kind at every level
    cyc = {2: [C("C_CYC_A"), C("C_CYC_B")], 3: [C("C_CYC_A3"), C("C_CYC_C3"), C("C_CYC_B")]}
    for n, ctors in cyc.items():
        for la in range(0, b.depth + 1):
            for lb in range(la, b.depth + 1):
                for kind, edits in consumer_edits(b, "CYCA", lb):
                    e = [("ins", b.chain[la], 0, c) for c in ctors] + edits
                    out.append(plant("cycle", f"added{n}:ctors@L{la}:{kind}@L{lb}", e))
    return out


def consumer_edits(b, U, lvl, kinds=("handler", "pre", "wrap", "post", "obs", "via_ctor")):
    """Edit scripts that add one consumer of plant type U (upper-case name) at chain level lvl."""
    out = []
    node = b.chain[lvl]
    n = len(node_ops(b.ops, node))
    ci = b.continuing_index(lvl)
    for k in kinds:
        if k == "handler":
            out.append((k, [("ins", node, n, R(f"HX_{U}_R"))]))
        elif k in ("pre", "wrap", "post"):
            out.append((k, [("ins", node, ci, {"k": k, "c": f"{k.upper()}X_{U}_R"})]))
        elif k == "obs":
            if b.has_fallible:  # an observer only runs (and is only wired) when something can fail
                out.append((k, [("ins", node, ci, {"k": "observer", "c": f"OBSX_{U}_R"})]))
        elif k == "via_ctor":
            out.append((k, [("ins", node, 0, C(f"C_VIA_{U}")), ("ins", node, n, R(f"HX_VIA_{U}_R"))]))
    return out


def request_time_consumers_ok_for_singleton(b, ty, op):
    """True if turning `ty` into a singleton adds no second violation: only `&` consumers (or Copy / clone-if-necessary)."""
    fl = M.flavour_of(ty)
    clonable = fl == "Y" or (fl == "K" and M.is_cin(op))
    for cid, kind, mode, _ in b.consumers(ty):
        if mode == "m":
            return False
        if mode == "v" and not clonable:
            return False
    return True


def p_singleton_dep(b):
    out = []
    for ty, (op, owner) in b.types.items():
        if op["k"] != "ctor" or M.lifecycle(op) == "singleton" or M.cat(op["c"]).get("fallible"):
            continue
        if not request_time_consumers_ok_for_singleton(b, ty, op):
            continue
        if M.is_cin(op) and M.flavour_of(ty) == "P":
            continue
        deps = [(i["type"], i["mode"]) for i in M.cat(op["c"]).get("inputs", []) if i["type"] in b.types]
        lcs = {M.lifecycle(b.types[t][0]) if b.types[t][0]["k"] == "ctor" else "singleton" for t, _ in deps}
        if not deps or lcs == {"singleton"}:
            continue
        path = b.path_of[id(op)]
        for t, mode in deps:
            dop = b.types[t][0]
            if dop["k"] != "ctor":
                continue
            dlc = M.lifecycle(dop)
            if dlc == "singleton":
                continue
            # exactly one violation: all other dependencies must already be singletons
            others = [x for x, _ in deps if x != t]
            if any(b.types[x][0]["k"] == "ctor" and M.lifecycle(b.types[x][0]) != "singleton" for x in others):
                continue
            pos = f"direct:{mode}:ctor@L{b.level_of_op(op)}:dep@L{b.level_of_op(dop)}"
            if dlc == "request_scoped":
                out.append(plant("singleton_dep_request_scoped", pos, [("set", path, {"lc": "singleton"})]))
            else:
                # does the transient dependency itself need a request-scoped value?
                sub = [i["type"] for i in M.cat(dop["c"]).get("inputs", []) if i["type"] in b.types]
                sub_rs = any(b.types[x][0]["k"] == "ctor" and M.lifecycle(b.types[x][0]) == "request_scoped" for x in sub)
                if sub_rs:
                    # C08: "a singleton that depends on a request-scoped type"; the dependency goes through a transient
                    # constructor, which has to run while the application state is built, where nothing request-scoped exists.
                    out.append(plant("singleton_dep_request_scoped", "via_transient:" + pos, [("set", path, {"lc": "singleton"})],
                                     key="via_transient"))
                else:
                    out.append(plant("singleton_dep_transient", pos, [("set", path, {"lc": "singleton"})], documented=False,
                                     why="C08 and the pavexc diagnostic only name request-scoped dependencies"))
    # a fresh singleton T2 on top of a transient T1 that needs a request-scoped T0 (dependency through a transient)
    for f1 in ("P", "K"):
        ty1 = f"T1{f1}"
        if ty1 not in b.types or "T2P" in b.types or b.types[ty1][0]["k"] != "ctor":
            continue
        op1 = b.types[ty1][0]
        if M.lifecycle(op1) != "transient":
            continue
        sub = [i["type"] for i in M.cat(op1["c"]).get("inputs", []) if i["type"] in b.types]
        if not any(b.types[x][0]["k"] == "ctor" and M.lifecycle(b.types[x][0]) == "request_scoped" for x in sub):
            continue
        l1 = b.level_of_op(op1)
        node = b.chain[b.depth]
        out.append(plant("singleton_dep_request_scoped", f"via_transient:added_T2:r:ctor@L{l1}:handler@L{b.depth}",
                         [("ins", b.chain[l1], 0, C(f"C_T2P__0_{f1}R__S", "singleton")),
                          ("ins", node, len(node_ops(b.ops, node)), NEST([R("H0__0_0_PR__I")], "/t2"))], key="via_transient"))
    return out


def p_singleton_two_scopes(b):
    out = []
    for ty, (op, owner) in b.types.items():
        t = TYPE_RE.fullmatch(ty)
        if op["k"] != "ctor" or M.lifecycle(op) != "singleton" or not t or t.group(1) != "0":
            continue
        if M.cat(op["c"]).get("inputs"):
            continue
        f = t.group(2)
        path = b.path_of[id(op)]
        lc = b.level_of_op(op)
        variants = {"same_ctor": copy.deepcopy(op)}
        alt = copy.deepcopy(op)
        alt["c"] = f"C_T0{f}__0__A" if op["c"] != f"C_T0{f}__0__A" else f"C_T0{f}__0__S2"
        variants["diff_ctor"] = alt
        own = R(f"HX_T0{f}_R")
        for vname, op2 in variants.items():
            for used in ("used", "unused"):
                body = [op2, own] if used == "used" else [op2, R("HX__0__I")]
                node = b.chain[lc]
                n = len(node_ops(b.ops, node))
                # parent + child: the original registration stays, a nested blueprint registers it again
                out.append(plant("singleton_two_scopes", f"parent+child:{vname}:{used}:parent@L{lc}",
                                 [("ins", node, n, NEST(copy.deepcopy(body), "/c2"))]))
                out.append(plant("singleton_two_scopes", f"parent+grandchild:{vname}:{used}:parent@L{lc}",
                                 [("ins", node, n, NEST([NEST(copy.deepcopy(body), "/g2")], "/c2"))]))
                # two siblings: the original registration moves one level down the chain
                if lc < b.depth:
                    child = b.chain[lc + 1]
                    out.append(plant("singleton_two_scopes", f"sibling+sibling:{vname}:{used}:parent@L{lc}",
                                     [("del", path), ("ins", child, 0, copy.deepcopy(op)),
                                      ("ins", node, n, NEST(copy.deepcopy(body), "/c2"))]))
                if lc + 1 < b.depth:
                    gchild = b.chain[lc + 2]
                    out.append(plant("singleton_two_scopes", f"cousins:{vname}:{used}:parent@L{lc}",
                                     [("del", path), ("ins", gchild, 0, copy.deepcopy(op)),
                                      ("ins", node, n, NEST([NEST(copy.deepcopy(body), "/g2")], "/c2"))]))
    for p in out:
        p["key"] = p["pos"].split(":")[0]  # the geometry: one defect class per arrangement of the two blueprints
    return out


def p_not_send_sync(b):
    out = []
    for U, cid in (("NOTSEND", "C_NOTSEND"), ("NOTSYNC", "C_NOTSYNC"), ("SYNCNOTSEND", "C_SYNCNOTSEND")):
        for la in range(0, b.depth + 1):
            for lb in range(la, b.depth + 1):
                for kind, edits in consumer_edits(b, U, lb):
                    out.append(plant("not_send_sync", f"{U.lower()}:ctor@L{la}:{kind}@L{lb}",
                                     [("ins", b.chain[la], 0, C(cid, "singleton"))] + edits))
    for lb in range(0, b.depth + 1):
        for kind, edits in consumer_edits(b, "PBNOTSYNC", lb, kinds=("handler", "pre", "via_ctor")):
            out.append(plant("not_send_sync", f"prebuilt_notsync:prebuilt@L0:{kind}@L{lb}",
                             [("ins", (), 0, {"k": "prebuilt", "c": "PB_NOTSYNC"})] + edits))
    return out


def p_singleton_by_value(b):
    out = []
    for ty, (op, owner) in b.types.items():
        if op["k"] != "ctor" or M.lifecycle(op) != "singleton":
            continue
        fl = M.flavour_of(ty)
        if fl == "Y" or (fl == "K" and M.is_cin(op)):
            continue
        for cid, kind, mode, cop in b.consumers(ty):
            if mode != "r" or cop is None:
                continue
            if kind == "ctor" and M.lifecycle(cop) == "singleton":
                continue  # moved while the application state is built: not "at request time"
            new = mode_variant(cid, ty, "v")
            if new:
                out.append(plant("singleton_by_value", f"{fl}:{kind}@L{b.level_of_op(cop)}:ctor@L{b.level_of_op(op)}",
                                 [("set", b.path_of[id(cop)], {"c": new})]))
    return out


def p_singleton_by_value_added(b):
    """A fresh never-clone singleton (Sbv) plus ONE by-value consumer of every component kind — including the derived ones
    (a wrapping middleware, a specialised generic constructor), which are not the user-registered component itself."""
    out = []
    for la in range(0, b.depth + 1):
        for lb in range(la, b.depth + 1):
            node = b.chain[lb]
            n = len(node_ops(b.ops, node))
            ci = b.continuing_index(lb)
            base = [("ins", b.chain[la], 0, C("C_SBV", "singleton"))]
            variants = {
                "handler": [("ins", node, n, R("HX_SBV_V"))],
                "pre": [("ins", node, ci, {"k": "pre", "c": "PREX_SBV_V"})],
                "wrap": [("ins", node, ci, {"k": "wrap", "c": "WRAPX_SBV_V"})],
                "post": [("ins", node, ci, {"k": "post", "c": "POSTX_SBV_V"})],
                "via_ctor": [("ins", node, 0, C("C_VIA_SBV_V")), ("ins", node, n, R("HX_VIA_SBVV_R"))],
                "via_generic_ctor": [("ins", node, 0, C("C_GEN_SBV_V")), ("ins", node, 0, C("C_SBVAUX")), ("ins", node, n, R("HX_GEN_SBV_R"))],
            }
            for kind, edits in variants.items():
                out.append(plant("singleton_by_value", f"added:{kind}@L{lb}:ctor@L{la}", base + edits))
    return out


def p_mut_ref(b):
    out = []
    for ty, (op, owner) in b.types.items():
        if op["k"] != "ctor":
            continue
        lc = M.lifecycle(op)
        fl = M.flavour_of(ty)
        if lc == "singleton":
            rule = "mut_ref_singleton"
        elif lc == "transient":
            rule = "mut_ref_transient"
        elif fl == "K" and M.is_cin(op):
            rule = "mut_ref_cin_request_scoped"
        else:
            continue
        for cid, kind, mode, cop in b.consumers(ty):
            if kind not in ("handler", "pre", "post") or cop is None or mode == "m":
                continue
            new = mode_variant(cid, ty, "m")
            if new:
                out.append(plant(rule, f"{kind}@L{b.level_of_op(cop)}:ctor@L{b.level_of_op(op)}:{fl}:was_{mode}",
                                 [("set", b.path_of[id(cop)], {"c": new})]))
    return out


def p_mut_ctor_input(b):
    out = []
    for ty, (op, owner) in b.types.items():
        t = TYPE_RE.fullmatch(ty)
        if op["k"] != "ctor" or not t:
            continue
        ins = {i["type"] for i in M.cat(op["c"]).get("inputs", [])}
        if t.group(1) == "1" and ins == {f"T0{t.group(2)}"}:
            out.append(plant("mut_ctor_input", f"T1{t.group(2)}:{M.lifecycle(op)}:ctor@L{b.level_of_op(op)}:"
                                               f"{kinds_label(b.consumers(ty))}@L{b.depth}",
                             [("set", b.path_of[id(op)], {"c": f"C_T1{t.group(2)}__MUT"})]))
        if ty == "T2P" and ins == {"T0P", "T1P"}:
            out.append(plant("mut_ctor_input", f"T2P:second_input:{M.lifecycle(op)}:ctor@L{b.level_of_op(op)}",
                             [("set", b.path_of[id(op)], {"c": "C_T2P__MUT1"})]))
    return out


def p_cin_not_clone(b):
    out = []
    for ty, (op, owner) in b.types.items():
        if op["k"] != "ctor" or M.flavour_of(ty) != "P" or not TYPE_RE.fullmatch(ty) or M.is_cin(op):
            continue
        modes = "".join(sorted({m for _, _, m, _ in b.consumers(ty)}))
        out.append(plant("cin_not_clone", f"{M.lifecycle(op)}:consumed_{modes}:ctor@L{b.level_of_op(op)}",
                         [("set", b.path_of[id(op)], {"cl": "clone_if_necessary"})]))
    for lb in range(0, b.depth + 1):
        node = b.chain[lb]
        out.append(plant("cin_not_clone", f"prebuilt:handler@L{lb}",
                         [("ins", (), 0, {"k": "prebuilt", "c": "PB_P", "cl": "clone_if_necessary"}),
                          ("ins", node, len(node_ops(b.ops, node)), R("HX_PBP_R"))]))
    return out


def p_observer_fallible(b):
    out = []
    fall = [(ty, op) for ty, (op, _) in b.types.items()
            if op["k"] == "ctor" and M.cat(op["c"]).get("fallible") and ty == "T0P"]
    for ty, fop in fall:
        lf = b.level_of_op(fop)
        singleton = M.lifecycle(fop) == "singleton"
        obs_ops = [(p, op) for p, op in walk(b.ops) if op["k"] == "observer"]
        chains = {
            "direct": ([], "OBS{j}__PR"),
            "depth2": ([C("C_T1P__PR__S")], "OBS{j}__T1PR"),
            "depth3": ([C("C_T1P__PR__S"), C("C_T2P__0_PR__S")], "OBS{j}__T2PR"),
        }
        for cname, (ctors, obs_tpl) in chains.items():
            if any(M.cat(c["c"])["out"] in b.types for c in ctors):
                continue
            ce = [("ins", b.chain[lf], 0, c) for c in ctors]
            # replace an observer the base already has
            for j, (p, oop) in enumerate(obs_ops):
                idx = M.cat(oop["c"]).get("idx", 1)
                new = obs_tpl.format(j=idx if idx in (1, 2) else 1)
                if new in M.load_catalog() and not M.cat(oop["c"]).get("inputs"):
                    after = p[-1] > b.path_of[id(b.route.op)][-1] and len(p) == len(b.path_of[id(b.route.op)])
                    out.append(plant("observer_fallible", f"{cname}:replace#{j}{':after_route' if after else ''}:obs@L{len(p) - 1}:ctor@L{lf}",
                                     ce + [("set", p, {"c": new})], documented=not singleton,
                                     why="fallible *singleton*: built before the server starts" if singleton else None))
            # insert a new observer before the route, at every level from the constructor's down
            for lb in range(lf, b.depth + 1):
                out.append(plant("observer_fallible", f"{cname}:insert:obs@L{lb}:ctor@L{lf}",
                                 ce + [("ins", b.chain[lb], b.continuing_index(lb), {"k": "observer", "c": obs_tpl.format(j=2)})],
                                 documented=not singleton, why="fallible *singleton*" if singleton else None))
            # ... and after the route (never invoked for it, but the rule is about the observer's signature)
            node = b.chain[b.depth]
            out.append(plant("observer_fallible", f"{cname}:insert:after_route:obs@L{b.depth}:ctor@L{lf}",
                             ce + [("ins", node, len(node_ops(b.ops, node)), {"k": "observer", "c": obs_tpl.format(j=2)})],
                             documented=not singleton, why="fallible *singleton*" if singleton else None))
    # bases without a fallible constructor: add a fallible constructor of a fresh flavour + an observer that needs it
    if not fall and "T0K" not in b.types:
        for la in range(0, b.depth + 1):
            for lb in range(la, b.depth + 1):
                out.append(plant("observer_fallible", f"added_pair:obs@L{lb}:ctor@L{la}",
                                 [("ins", b.chain[la], 0, C("C_T0K__0__F")),
                                  ("ins", b.chain[lb], b.continuing_index(lb), {"k": "observer", "c": "OBS2__KR"})]))
    return out


def p_route_conflict(b):
    out = []
    rop = b.route.op
    rpath = b.path_of[id(rop)]
    rc = M.cat(rop["c"])
    # a second handler for the base's own route (same path, same method)
    if rc.get("path") in ("/r0",) and not rc.get("route_family"):
        twin = "H0__0_0_0__I" if rop["c"] != "H0__0_0_0__I" else "H0__0_0_0__F"
        node = b.chain[b.depth]
        out.append(plant("route_conflict", f"same_path_method:base_route:same_bp@L{b.depth}",
                         [("ins", node, len(node_ops(b.ops, node)), R(twin))], key="same_path_method"))
        has_prefix = any(node_op_prefix(b.ops, b.chain[l]) for l in range(1, b.depth + 1))
        if not has_prefix:
            for lvl in range(0, b.depth + 1):
                node = b.chain[lvl]
                if lvl < b.depth:
                    out.append(plant("route_conflict", f"same_path_method:base_route:ancestor@L{lvl}",
                                     [("ins", node, len(node_ops(b.ops, node)), R(twin))], key="same_path_method"))
                out.append(plant("route_conflict", f"same_path_method:base_route:other_nested_bp@L{lvl + 1}",
                                 [("ins", node, len(node_ops(b.ops, node)), NEST([R(twin)]))], key="same_path_method"))
    # pairs of fresh routes
    pairs = [
        ("get_vs_get+post", "RT_A_GET", "RT_A_GP", True, None),
        ("any_vs_get", "RT_A_ANY", "RT_A_GET", True, None),
        ("get_vs_any", "RT_A_GET", "RT_A_ANY", True, None),
        ("any_vs_post", "RT_B_ANY", "RT_B_POST", True, None),
        ("anyns_vs_get", "RT_A_ANYNS", "RT_A_GET", True, None),
        ("param_vs_renamed_param", "RT_AX_GET", "RT_AY_GET", True, None),
        ("custom_method:anyns_vs_foo", "RT_A_ANYNS", "RT_A_FOO", True, None),
        ("custom_method:foo_vs_anyns", "RT_A_FOO", "RT_A_ANYNS", True, None),
        ("param_vs_catchall", "RT_AX_GET", "RT_AR_GET", False,
         "overlap resolved by priority (static > param > catch-all) is treated as legal by DESIGN C07"),
    ]
    for name, r1, r2, doc, why in pairs:
        for l1 in range(0, b.depth + 1):
            n1 = b.chain[l1]
            out.append(plant("route_conflict", f"{name}:same_bp@L{l1}",
                             [("ins", n1, len(node_ops(b.ops, n1)), R(r1)), ("ins", n1, len(node_ops(b.ops, n1)), R(r2))],
                             documented=doc, why=why, key=name.split(":")[0]))
        out.append(plant("route_conflict", f"{name}:parent+child",
                         [("ins", (), len(b.ops), R(r1)), ("ins", (), len(b.ops), NEST([R(r2)]))], documented=doc, why=why,
                         key=name.split(":")[0]))
        out.append(plant("route_conflict", f"{name}:sibling+sibling",
                         [("ins", (), len(b.ops), NEST([R(r1)])), ("ins", (), len(b.ops), NEST([R(r2)]))], documented=doc, why=why,
                         key=name.split(":")[0]))
    # the same effective path through prefix nesting
    via = [
        ("via_prefix:/p+/a_vs_/p/a:get", NEST([R("RT_A_GET")], "/p"), R("RT_PA_GET"), True),
        ("via_prefix:/p+/a_vs_/p/a:any_vs_get", NEST([R("RT_A_ANY")], "/p"), R("RT_PA_GET"), True),
        ("via_prefix:/p+/a_vs_/p/a:get_vs_any", NEST([R("RT_A_GET")], "/p"), R("RT_PA_ANY"), True),
        ("via_prefix:/a+/b_vs_/a/b:get", NEST([R("RT_B_GET")], "/a"), R("RT_AB_GET"), True),
        ("via_prefix:two_levels:/a+/b", NEST([R("RT_B_GET")], "/a"), NEST([NEST([R("RT_B_GP")], None)], "/a"), True),
        ("custom_method:foo_vs_foo:via_prefix", NEST([R("RT_B_FOO")], "/a"), R("RT_AB_FOO"), True),
    ]
    for name, x, y, doc in via:
        out.append(plant("route_conflict", f"{name}:nested_first", [("ins", (), len(b.ops), x), ("ins", (), len(b.ops), y)], documented=doc,
                         key=name.split(":")[0]))
        out.append(plant("route_conflict", f"{name}:flat_first", [("ins", (), len(b.ops), y), ("ins", (), len(b.ops), x)], documented=doc,
                         key=name.split(":")[0]))
    return out


def node_op_prefix(ops, node_path):
    if not node_path:
        return None
    parent = node_ops(ops, node_path[:-1])
    return parent[node_path[-1]].get("prefix")


def p_path_param(b):
    out = []
    ctor = ("ins", (), 0, C("C_PATHPARAMS"))
    for lb in range(0, b.depth + 1):
        node = b.chain[lb]
        n = len(node_ops(b.ops, node))
        for name, ops in [
            ("handler:renamed_field", [R("PP_BAD")]),
            ("handler:static_path", [R("PP_BAD_STATIC")]),
            ("handler:one_of_two_fields", [R("PPX_BAD_PARTIAL")]),
            ("handler:catch_all_other_name", [R("PPX_BAD_CATCHALL")]),
            ("handler:good_and_bad_extractor", [R("PPX_GOOD_AND_BAD")]),
            ("via_ctor", [C("C_VIA_PPY"), R("PPX_VIA_PPY")]),
            ("nested:pre", [NEST([{"k": "pre", "c": "PREX_PPY"}, R("RT_AX_GET")])]),
            ("nested:post", [NEST([{"k": "post", "c": "POSTX_PPY"}, R("RT_AX_GET")])]),
            ("nested:wrap", [NEST([{"k": "wrap", "c": "WRAPX_PPY"}, R("RT_AX_GET")])]),
            ("nested:pre_good+handler_bad", [NEST([{"k": "pre", "c": "PREX_PPX"}, R("PP_BAD")])]),
            ("nested:pre_bad+handler_good", [NEST([{"k": "pre", "c": "PREX_PPY"}, R("PPX_OK")])]),
            ("nested:wrap_good+handler_bad", [NEST([{"k": "wrap", "c": "WRAPX_PPX"}, R("PP_BAD")])]),
            ("nested:post_bad+handler_good", [NEST([{"k": "post", "c": "POSTX_PPY"}, R("PPX_OK")])]),
            # one #[PathParams] struct shared by two routes, only one of which declares its field
            ("shared_struct:good_then_bad", [R("PPX_OK"), R("PPX_OK_STATIC_UNDER_PREFIX")]),
            ("shared_struct:bad_then_good", [R("PPX_OK_STATIC_UNDER_PREFIX"), R("PPX_OK")]),
            ("shared_struct:good_then_bad_nested", [R("PPX_OK"), NEST([R("PPX_OK_STATIC_UNDER_PREFIX")])]),
            ("under_param_prefix:other_name", [NEST([R("PP_BAD_STATIC")], "/{y}")]),
            ("under_param_prefix:two_levels", [NEST([NEST([R("PP_BAD")], "/{z}")], "/q")]),
        ]:
            key = "second_extractor" if "+" in name or "good_and_bad" in name else name.replace("nested:", "in_")
            out.append(plant("path_param_field", f"{name}:L{lb}", [ctor] + [("ins", node, n, o) for o in ops], key=key))
    return out


def p_via_shadow(b):
    """Violations that only exist under one of the two readings of 'which scope resolves the inputs of an inherited
    component' (the docs do not say: RoutingModifiers::nest rustdoc only speaks of routes). Never judged for C08;
    enumerated because every invocation must still end with a verdict (C09)."""
    out = []
    if b.depth < 1:
        return out
    why = "which scope resolves the dependencies of a component registered in an outer blueprint is undocumented"
    for ty, (op, owner) in b.types.items():
        t = TYPE_RE.fullmatch(ty)
        if op["k"] != "ctor" or not t or t.group(1) != "0" or M.cat(op["c"]).get("inputs"):
            continue
        f = t.group(2)
        lo = b.level_of_op(op)
        if lo >= b.depth:
            continue
        inner = b.chain[b.depth]
        # who needs T0 from an outer blueprint?
        outer_users = [(cid, kind, mode, cop) for cid, kind, mode, cop in b.consumers(ty)
                       if cop is not None and b.level_of_op(cop) < b.depth]
        if not outer_users:
            continue
        ul = kinds_label(outer_users)
        for cid, kind, mode, cop in outer_users:
            if kind == "ctor":
                t1 = M.cat(cid)["out"]
                for m in ("R", "V"):
                    back = f"C_T0{f}__BACK_{t1}{m}"
                    if back in M.load_catalog():
                        out.append(plant("cycle", f"via_shadow:back_edge{m}:outer_{ul}", [("ins", inner, 0, C(back))], documented=False, why=why))
        shadow = copy.deepcopy(op)
        for name, mod in [("transient", {"lc": "transient"}), ("singleton", {"lc": "singleton"}),
                          ("fallible", {"c": f"C_T0{f}__0__F"}), ("other_fn", {"c": f"C_T0{f}__0__S3"})]:
            s2 = dict(shadow)
            s2.update(mod)
            if s2 == op:
                continue
            out.append(plant("shadowed_dependency", f"via_shadow:{name}:outer_{ul}", [("ins", inner, 0, s2)], documented=False, why=why))
        if f == "K" and not M.is_cin(op):
            s2 = dict(shadow)
            s2["cl"] = "clone_if_necessary"
            out.append(plant("shadowed_dependency", f"via_shadow:cin:outer_{ul}", [("ins", inner, 0, s2)], documented=False, why=why))
    return out


def p_via_shadow_outer_consumer(b):
    """Same question for middlewares / observers registered in an outer blueprint whose input type is re-registered
    (with a property that would break a rule for them) in the inner blueprint of the route."""
    out = []
    if b.depth < 1:
        return out
    why = "which scope resolves the inputs of a middleware/observer registered in an outer blueprint is undocumented"
    cat = M.load_catalog()
    for ty, (op, owner) in b.types.items():
        t = TYPE_RE.fullmatch(ty)
        if op["k"] != "ctor" or not t or t.group(1) != "0" or M.cat(op["c"]).get("inputs"):
            continue
        f = t.group(2)
        lo = b.level_of_op(op)
        if lo >= b.depth or M.lifecycle(op) != "request_scoped" or M.cat(op["c"]).get("fallible"):
            continue
        inner = b.chain[b.depth]
        consumers = [("obs_r", {"k": "observer", "c": f"OBS2__{f}R"}), ("pre_r", {"k": "pre", "c": f"PRE3__{f}R_0__I"}),
                     ("pre_m", {"k": "pre", "c": f"PRE3__{f}M_0__I"}), ("pre_v", {"k": "pre", "c": f"PRE3__{f}V_0__I"}),
                     ("wrap_r", {"k": "wrap", "c": f"WRAP3__{f}R_0__I"}), ("post_m", {"k": "post", "c": f"POST3__{f}M_0__I"})]
        mods = [("fallible", {"c": f"C_T0{f}__0__F"}), ("transient", {"lc": "transient"}), ("singleton", {"lc": "singleton"})]
        if f == "K" and not M.is_cin(op):
            mods.append(("cin", {"cl": "clone_if_necessary"}))
        for cname, cop in consumers:
            if cop["c"] not in cat:
                continue
            for mname, mod in mods:
                if cname == "obs_r" and not (b.has_fallible or mname == "fallible"):
                    continue  # an observer is only wired when something in the pipeline can fail
                s2 = copy.deepcopy(op)
                s2.update(mod)
                out.append(plant("shadowed_dependency", f"via_shadow:outer_{cname}@L{lo}:inner_{mname}@L{b.depth}",
                                 [("ins", b.chain[lo], b.continuing_index(lo), cop), ("ins", inner, 0, s2)], documented=False, why=why))
    return out


PLANTERS = [p_via_shadow_outer_consumer, p_missing, p_cycle, p_singleton_dep, p_singleton_two_scopes, p_not_send_sync, p_singleton_by_value,
            p_singleton_by_value_added, p_mut_ref,
            p_mut_ctor_input, p_cin_not_clone, p_observer_fallible, p_route_conflict, p_path_param, p_via_shadow]


def plants_of(b):
    out = []
    if b.route is None:
        return out
    for f in PLANTERS:
        out.extend(f(b))
    for i, p in enumerate(out):
        p["n"] = i
        # defect class for the violation key: by default the first component of the position (e.g. `notsync`,
        # `depth2`, `back_edge2`, `removed`), so that the manifestations of one defect at many levels / consumer kinds
        # collapse to one key
        if not p.get("key") and p["rule"] in ("not_send_sync", "observer_fallible", "cycle", "missing_constructor", "cin_not_clone",
                                              "singleton_by_value", "mut_ctor_input"):
            p["key"] = p["pos"].split(":")[0]
    return out


# --------------------------------------------------------------------------------------------------
# bases
# --------------------------------------------------------------------------------------------------
def nested_variants(shape):
    """The same shape one and two nesting levels deep, constructors (and error handlers, prebuilts) stay outside."""
    outer = [op for op in shape if op["k"] in ("ctor", "eh", "prebuilt")]
    inner = [op for op in shape if op["k"] not in ("ctor", "eh", "prebuilt")]
    return [outer + [NEST(copy.deepcopy(inner))], outer + [NEST([NEST(copy.deepcopy(inner))])]]


def candidate_shapes(tier):
    fams = {"di": F.di_shapes, "dimw": F.dimw_shapes, "mw": F.mw_shapes, "err": F.err_shapes}
    out = {}
    for fam, fn in fams.items():
        cands = []
        for i, sh in enumerate(fn("quick")):
            spec = {"id": "c", "family": "plant", "bp": {"ops": sh}}
            an = M.Analysis(spec)
            if len(an.routes) != 1 or an.fallbacks:
                continue
            if M.classify_spec(an)[0] != "must_accept":
                continue
            cands.append((i, sh))
            if len(cands) >= CANDIDATES_PER_FAMILY:
                break
        out[fam] = cands
    return out


def class_of(p):
    return f"{p['rule']}:{p['pos']}"


def select_flat_bases(tier):
    """Deterministic greedy cover: per family, repeatedly take the candidate (simplest first on ties) whose plants
    (on the shape and its two nested variants) add the most not-yet-covered (rule, position-class) pairs."""
    quota = QUOTA[tier]
    cands = candidate_shapes(tier)
    covered = set()
    chosen = []
    cache = {}

    def classes(fam, i, sh):
        key = (fam, i)
        if key not in cache:
            cl = set()
            for v, ops in enumerate([sh] + nested_variants(sh)):
                b = Base("x", copy.deepcopy(ops), {})
                cl |= {class_of(p) for p in plants_of(b) if p["documented"]}
            cache[key] = cl
        return cache[key]

    for fam in ("di", "dimw", "mw", "err"):
        pool = list(cands[fam])
        for _ in range(quota[fam]):
            best, best_gain = None, -1
            for i, sh in pool:
                gain = len(classes(fam, i, sh) - covered)
                if gain > best_gain:
                    best, best_gain = (i, sh), gain
            if best is None or best_gain <= 0:
                break
            pool.remove(best)
            covered |= classes(fam, best[0], best[1])
            chosen.append((fam, best[0], best[1]))
    return chosen


def base_specs(tier):
    specs = []
    for fam, i, sh in select_flat_bases(tier):
        for v, ops in enumerate([sh] + nested_variants(sh)):
            bid = f"plantbase_{fam}{i:05d}_n{v}"
            specs.append({"id": bid, "family": "plant", "bp": {"ops": copy.deepcopy(ops)},
                          "plant": {"kind": "base", "origin": {"family": fam, "index": i, "nesting": v}}})
    return specs


def control_specs():
    """Accepted look-alikes of the plants that add fresh components: shows that the rejection of the plant is not
    caused by the added scaffolding itself."""
    mk = lambda cid, ops: {"id": f"plantctl_{cid}", "family": "plant", "bp": {"ops": ops}, "plant": {"kind": "control"}}
    return [
        mk("pathparams_ok", [C("C_PATHPARAMS"), R("PPX_OK")]),
        mk("pathparams_ok_in_pre", [C("C_PATHPARAMS"), NEST([{"k": "pre", "c": "PREX_PPX"}, R("PPX_OK")])]),
        mk("pathparams_ok_under_prefix", [C("C_PATHPARAMS"), NEST([R("PPX_OK_STATIC_UNDER_PREFIX")], "/{x}")]),
        mk("routes_disjoint_methods", [R("RT_A_GET"), R("RT_A_POST"), NEST([R("RT_A_GET")], "/p")]),
        mk("any_vs_custom_is_disjoint", [R("RT_A_ANY"), R("RT_A_FOO")]),
        mk("singleton_once_shared", [C("C_T0P__0__S", "singleton"), NEST([R("HX_T0P_R")], "/c1"), NEST([R("HX_T0P_R")], "/c2")]),
        mk("notsync_only_at_build_time", [C("C_NOTSYNC", "singleton"), R("HX__0__I")]),
        mk("observer_on_infallible", [C("C_T0P__0__S"), C("C_T1P__PR__S"), {"k": "observer", "c": "OBS1__T1PR"}, R("HX__0__F")]),
    ]


# --------------------------------------------------------------------------------------------------
# observe
# --------------------------------------------------------------------------------------------------
def plant_spec(b, p, k):
    return {"id": f"plant_{b.id[10:]}_{k:04d}", "family": "plant", "bp": {"ops": apply_edits(b.ops, p["edits"])},
            "plant": {"kind": "single", "base": b.id, "rule": p["rule"], "pos": p["pos"], "documented": p["documented"],
                      "key": p.get("key"), "why_unspecified": p.get("why_unspecified")}}


def observe(tier):
    d = f"{L.E2E_WORK}/plant-{tier}"
    import shutil
    shutil.rmtree(d, ignore_errors=True)
    bspecs = base_specs(tier) + control_specs()
    gen = L.generate_all(bspecs, f"{d}/bases")
    bases = [Base(s["id"], s["bp"]["ops"], s["plant"].get("origin")) for s in bspecs
             if s["plant"]["kind"] == "base" and gen[s["id"]]["exit"] == 0 and gen[s["id"]]["n_error"] == 0]
    allp = [(b, p) for b in bases for p in plants_of(b)]
    all_plants = len(allp)
    chosen = set()
    if tier == "quick":
        groups = collections.defaultdict(list)
        for k, (b, p) in enumerate(allp):
            groups[(p["rule"], abstract_pos(p["pos"]), min(b.depth, 1))].append(k)
        n_groups_of_rule = collections.Counter(g[0] for g in groups)
        for g, ks in groups.items():
            quota = SMALL_RULE_QUOTA if n_groups_of_rule[g[0]] <= SMALL_RULE_MAX_CLASSES else 1
            # inside a class prefer the plant whose parts are furthest apart in the nesting tree, then the deepest base
            ks = sorted(ks, key=lambda k: (-level_spread(allp[k][1]["pos"]), -allp[k][0].depth, k))
            chosen.update(ks[:quota])
    else:
        chosen = set(range(len(allp)))
    singles = []
    selected_of = collections.defaultdict(list)
    for k, (b, p) in enumerate(allp):
        if k in chosen:
            singles.append(plant_spec(b, p, p["n"]))
    # the plants that take part in the pairs (thorough): per base, the first documented plant of every
    # (rule, defect class) -- one per rule if the rule has a single class
    for b in bases:
        seen = set()
        for p in sorted(plants_of(b), key=lambda p: (not p["documented"], p["n"])):
            c = (p["rule"], p.get("key") or "")
            if c not in seen:
                seen.add(c)
                selected_of[b.id].append(p)
    gen.update(L.generate_all(singles, f"{d}/singles"))
    pairs = []
    if tier == "thorough":
        flat = [b for b in bases if b.origin and b.origin["nesting"] == 0]
        seen_f = set()
        pair_bases = []
        for b in flat:  # one per family first, then fill up
            if b.origin["family"] not in seen_f:
                seen_f.add(b.origin["family"])
                pair_bases.append(b)
        for b in flat:
            if len(pair_bases) >= N_PAIR_BASES:
                break
            if b not in pair_bases:
                pair_bases.append(b)
        for b in pair_bases[:N_PAIR_BASES]:
            ps = selected_of[b.id]
            k = 0
            for p, q in itertools.combinations(ps, 2):
                if not edits_compatible(p["edits"], q["edits"]):
                    continue
                pairs.append({"id": f"plantpair_{b.id[10:]}_{k:05d}", "family": "plant",
                              "bp": {"ops": apply_edits(b.ops, p["edits"] + q["edits"])},
                              "plant": {"kind": "pair", "base": b.id,
                                        "members": [{"rule": x["rule"], "pos": x["pos"], "documented": x["documented"], "key": x.get("key")}
                                                    for x in (p, q)]}})
                k += 1
        gen.update(L.generate_all(pairs, f"{d}/pairs"))
    specs = bspecs + singles + pairs
    for g in gen.values():
        g.pop("stdout", None)
    return {"family": "plant", "tier": tier, "specs": specs, "gen": gen,
            "stats": {"bases_tried": sum(1 for s in bspecs if s["plant"]["kind"] == "base"), "bases_accepted": len(bases),
                      "plants_enumerated_on_bases": all_plants, "singles_run": len(singles), "pairs_run": len(pairs)}}


# --------------------------------------------------------------------------------------------------
# oracles
# --------------------------------------------------------------------------------------------------
ANSI = re.compile(r"\x1b\[[0-9;]*m")


def rejected_cleanly(g):
    return (g["exit"] not in (0, None) and g["n_error"] >= 1
            and not any(f.endswith("src/lib.rs") or f == "lib.rs" for f in g["sdk_changed_files"]))


def outcome_of(g):
    if g.get("timed_out"):
        return "hang"
    if g.get("panic"):
        return "panic"
    if g["exit"] == 0:
        return "accepted"
    if rejected_cleanly(g):
        return "rejected"
    return "rejected_uncleanly"


def level_spread(pos):
    lv = [int(x) for x in re.findall(r"L(\d+)", pos)]
    return (max(lv) - min(lv)) if lv else 0


def abstract_pos(pos):
    """Position class with the level numbers dropped: the violation key (one defect -> few keys)."""
    return re.sub(r"@L\d+", "", re.sub(r":L\d+$", "", pos))


_RECHECKED = {}


def recheck(specs, what):
    """Determinism rule of BUILDER_BRIEF: before a case is reported it is executed once more.
    -> {id: second gen observation}. A first outcome that was a time-out or an interfered-with workspace (machine
    overload, foreign writer in the slot) is replaced by the second one; any other disagreement is a machinery error."""
    todo = [s for s in specs if s["id"] not in _RECHECKED]
    if todo:
        res = L.generate_all(todo, f"{L.E2E_WORK}/plant-recheck-{what}")
        for s in todo:
            g = res[s["id"]]
            g.pop("stdout", None)
            _RECHECKED[s["id"]] = g
    return {s["id"]: _RECHECKED[s["id"]] for s in specs}


def settle(o, suspicious, what):
    """Re-execute the suspicious specs; returns (gen dict to judge, number of replaced transient outcomes)."""
    gen = dict(o["gen"])
    if not suspicious:
        return gen, 0
    second = recheck(suspicious, what)
    replaced = 0
    for s in suspicious:
        a, b = outcome_of(gen[s["id"]]), outcome_of(second[s["id"]])
        if a == b:
            continue
        if a in ("hang", "rejected_uncleanly"):
            gen[s["id"]] = second[s["id"]]
            replaced += 1
            continue
        raise L.MachineryError(f"nondeterministic pavexc outcome on {s['id']}: first run {a}, second run {b}")
    return gen, replaced


def oracle_c08(obs, rep, tier):
    import oracles as O
    o = obs["plant"]
    suspicious = []
    for spec in o["specs"]:
        pl = spec.get("plant", {})
        g = o["gen"].get(spec["id"])
        if g is None or pl.get("kind") not in ("single", "pair"):
            continue
        docd = pl.get("documented") if pl["kind"] == "single" else any(m["documented"] for m in pl["members"])
        if docd and outcome_of(g) != "rejected":
            suspicious.append(spec)
    gen, n_replaced = settle(o, suspicious, "c08")
    hist = collections.defaultdict(collections.Counter)
    diag_hist = collections.defaultdict(collections.Counter)
    classes = set()
    classes_judged = set()
    samples = []
    n_eval = 0
    base_ok = {}
    controls = {}
    accepted_single = set()
    unspecified = collections.Counter()
    for spec in o["specs"]:
        pl = spec.get("plant", {})
        g = gen.get(spec["id"])
        if g is None:
            continue
        if pl.get("kind") == "base":
            base_ok[spec["id"]] = g["exit"] == 0
        elif pl.get("kind") == "control":
            controls[spec["id"]] = "accepted" if g["exit"] == 0 else "REJECTED: " + O.first_error_title(g["stderr"])
    for spec in o["specs"]:
        pl = spec.get("plant", {})
        if pl.get("kind") != "single":
            continue
        g = gen.get(spec["id"])
        if g is None:
            continue
        rule, pos = pl["rule"], pl["pos"]
        out = outcome_of(g)
        n_eval += 1
        classes.add(f"{rule}:{pos}")
        hist[rule]["planted"] += 1
        if not pl.get("documented"):
            hist[rule][f"unspecified_{out}"] += 1
            unspecified[f"{rule}:{abstract_pos(pos)}:{out}"] += 1
            continue
        classes_judged.add(f"{rule}:{pos}")
        hist[rule][out] += 1
        if out == "rejected":
            title = O.first_error_title(g["stderr"])
            all_titles = ANSI.sub("", g["stderr"])
            exp = EXPECT.get(rule)
            if exp and re.search(exp, all_titles):
                hist[rule]["rejected_with_the_expected_diagnostic"] += 1
            else:
                hist[rule]["rejected_with_another_diagnostic"] += 1
                diag_hist[rule][title[:140]] += 1
            if len(samples) < 4 and (not samples or samples[-1]["rule"] != rule):
                samples.append({"id": spec["id"], "rule": rule, "position": pos, "ops": spec["bp"]["ops"], "exit": g["exit"],
                                "diagnostic": title})
            continue
        accepted_single.add((pl["base"], rule, pos))
        key = f"plant:{rule}:{pl.get('key') or abstract_pos(pos)}"
        what = {"accepted": "pavexc ACCEPTED it and wrote an SDK",
                "panic": "pavexc panicked instead of emitting an error diagnostic",
                "hang": "pavexc did not terminate",
                "rejected_uncleanly": f"pavexc exited {g['exit']} with n_error={g['n_error']} and changed {g['sdk_changed_files']}"}[out]
        rep.violation(key, f"{spec['id']}: one violation of rule `{rule}` planted at `{pos}` in accepted base {pl['base']}: {what}. "
                           f"Rule basis: {DOC[rule][:200]}",
                      {"oracle": "C08", "spec": spec, "outcome": out, "exit": g["exit"], "n_error": g["n_error"],
                       "sdk_changed_files": g["sdk_changed_files"], "stderr": ANSI.sub("", g["stderr"])[-2500:]})
    # pairs: a blueprint with two planted violations (at least one of them documented) must still be rejected
    pair_hist = collections.Counter()
    for spec in o["specs"]:
        pl = spec.get("plant", {})
        if pl.get("kind") != "pair":
            continue
        g = gen.get(spec["id"])
        if g is None:
            continue
        n_eval += 1
        out = outcome_of(g)
        docd = [m for m in pl["members"] if m["documented"]]
        if not docd:
            pair_hist[f"both_unspecified_{out}"] += 1
            continue
        pair_hist[out] += 1
        if out == "rejected":
            continue
        culprits = [m for m in docd if (pl["base"], m["rule"], m["pos"]) in accepted_single]
        if culprits and len(culprits) == len(docd):
            # every documented member is already reported on its own; the pair adds nothing new
            pair_hist["explained_by_single_findings"] += 1
            continue
        m0 = (culprits or docd)[0]
        key = f"plant:{m0['rule']}:{m0.get('key') or abstract_pos(m0['pos'])}" if culprits else \
            "plant:pair:" + "+".join(sorted(f"{m['rule']}:{m.get('key') or abstract_pos(m['pos'])}" for m in pl["members"]))
        rep.violation(key, f"{spec['id']}: two violations planted ({pl['members']}) in base {pl['base']}: outcome {out}",
                      {"oracle": "C08", "spec": spec, "outcome": out, "exit": g["exit"], "stderr": ANSI.sub("", g["stderr"])[-2500:]})
    cov = {
        "evaluations": n_eval, "distinct_nontrivial": len(classes_judged), "exhaustive": True,
        "rule": "bases = flat shapes of the families di/dimw/mw/err chosen by a deterministic greedy cover of (rule, position-class) "
                f"pairs (quota per family {QUOTA[tier]}), each also 1 and 2 nesting levels deep with the constructors outside; a base counts "
                "only if the real pavexc accepted it in this run. For every base, every rule of C08 (missing constructor, cycle, singleton "
                "depending on request-scoped, singleton registered in two blueprints, singleton not Send/Sync at request time, singleton by "
                "value without Copy/clone-if-necessary, &mut of singleton / transient / clone-if-necessary request-scoped, &mut constructor "
                "input, clone-if-necessary on a non-Clone type, observer needing a fallible constructor, conflicting routes, path-parameter "
                "field not in the template) is planted once at every applicable position (fam_plant.py planters; a plant is an edit script "
                "of set/delete/insert on the base's op tree). "
                + ("quick: one plant (%d for rules with <= %d classes) of every (rule, position-class without level numbers, flat/nested base), "
                   "preferring the plant whose parts are furthest apart in the nesting tree. " % (SMALL_RULE_QUOTA, SMALL_RULE_MAX_CLASSES)
                   if tier == "quick" else
                   "thorough: all plants, plus all compatible pairs of plants (the first plant of every (rule, defect class)) of %d flat bases. " % N_PAIR_BASES) +
                "Oracle: pavexc exits non-zero, prints >= 1 ERROR and leaves no new/changed src/lib.rs. Plants whose rule is not documented "
                "for that position are run but only counted (unspecified_*). Non-trivial/distinct = distinct judged (rule, position-class).",
        "samples": samples, "position_classes": len(classes), "position_classes_judged": len(classes_judged),
        "rule_histogram": {r: dict(c) for r, c in sorted(hist.items())},
        "unexpected_first_diagnostics": {r: dict(c.most_common(6)) for r, c in diag_hist.items()},
        "unspecified_outcomes": dict(sorted(unspecified.items())),
        "pair_histogram": dict(pair_hist), "controls": controls,
        "re_executed_before_reporting": len(suspicious), "transient_timeouts_or_interference_replaced_by_second_run": n_replaced,
        "bases": {"accepted": sum(base_ok.values()), "rejected": sorted(k for k, v in base_ok.items() if not v)},
        "stats": o.get("stats"),
    }
    return "exploration", cov, ["the documentation basis of each rule is quoted in fam_plant.DOC",
                                "a plant rejected with a diagnostic of another rule still counts as rejected (see "
                                "rejected_with_another_diagnostic)"]


def oracle_c09_plant(obs, rep, tier):
    import oracles as O
    o = obs["plant"]
    suspicious = [s for s in o["specs"] if s["id"] in o["gen"] and (
        outcome_of(o["gen"][s["id"]]) in ("hang", "panic", "rejected_uncleanly") or o["gen"][s["id"]].get("root_manifest_changed")
        or o["gen"][s["id"]]["exit"] not in (0, 1))]
    gen, n_replaced = settle(o, suspicious, "c09")
    o2 = dict(o)
    o2["gen"] = gen
    lvl, cov, asm = O.oracle_c09({"plant": o2}, rep, tier)
    cov["re_executed_before_reporting"] = len(suspicious)
    cov["transient_timeouts_or_interference_replaced_by_second_run"] = n_replaced
    return lvl, cov, asm


PROPERTIES = {"C08": (lambda tier: ["plant"], oracle_c08), "C09": (lambda tier: ["plant"], oracle_c09_plant)}
